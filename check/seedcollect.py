#!/usr/bin/env python3
"""Copies confirmed seeded changes from /tmp/seed/out-*/m* (+ .work/seed-results) into /verif/seeded/<ID>-mK/."""
import glob, json, os, shutil, sys
VERIF = os.path.dirname(os.path.dirname(os.path.abspath(__file__)))
notes = json.load(open(os.path.join(VERIF, "check", "seed_notes.json"))) if os.path.exists(os.path.join(VERIF, "check", "seed_notes.json")) else {}
rows = []
for res in sorted(glob.glob(os.path.join(VERIF, ".work", "seed-results", "C*-m*.json"))):
    name = os.path.basename(res)[:-5]
    prop, m = name.split("-")
    src = "%s/out-%s/%s" % (os.environ.get("SEEDROOT", "/tmp/seed"), prop, m)
    for root in ("/tmp/seed2", "/tmp/seed3", "/tmp/seed4", "/tmp/seed5", "/tmp/seed6", "/tmp/seed7", "/tmp/seed8"):
        if not os.path.isdir(src):
            src = "%s/out-%s/%s" % (root, prop, m)
    try:
        r = json.load(open(res))
    except Exception:
        continue
    if not (r.get("patch_applies") and r.get("builds") and r.get("existing_tests_pass") and r.get("demo_passes_without_patch") and r.get("demo_fails_with_patch")):
        print("not confirmed:", name, {k: r.get(k) for k in ("patch_applies", "builds", "existing_tests_pass", "demo_passes_without_patch", "demo_fails_with_patch")})
        continue
    dst = os.path.join(VERIF, "seeded", name)
    os.makedirs(dst, exist_ok=True)
    if os.path.isdir(src):
        shutil.copy(os.path.join(src, "patch.diff"), dst)
        for f in glob.glob(os.path.join(src, "*_test.go")):
            shutil.copy(f, os.path.join(dst, "demo_test.go.txt"))   # .txt: not compiled by anything under /verif
        meta = json.load(open(os.path.join(src, "meta.json")))
    else:
        meta = json.load(open(os.path.join(dst, "meta.json")))
    meta["property"] = prop
    meta["confirmed_by_coordinator"] = {
        "how": "check/seedtest.py in a scratch worktree of /repo HEAD: demonstration passes without the patch, patch applies and builds, existing tests of the touched packages and their dependants pass, demonstration fails with the patch; then `VERIF_REPO=<worktree> python3 check/check.py %s --tier quick`" % prop,
        "demo_cmd": r.get("demo_cmd"), "changed_files": r.get("changed"),
        "check_exit": r.get("check_exit"), "detected": r.get("detected"), "fingerprints": r.get("fingerprints"),
    }
    if name in notes:
        meta["note"] = notes[name]
    json.dump(meta, open(os.path.join(dst, "meta.json"), "w"), indent=1)
    rows.append((name, r.get("detected"), (r.get("fingerprints") or [""])[0]))
for row in rows:
    print(row)
