import json,glob
for f in sorted(glob.glob('/verif/.work/seed-results/C*-m[3-9].json')):
    try: r=json.load(open(f))
    except Exception as e:
        print(f.split('/')[-1],'(running/empty)'); continue
    print(f.split('/')[-1], 'demo=%s/%s'%(r.get('demo_passes_without_patch'),r.get('demo_fails_with_patch')),'tests=%s'%r.get('existing_tests_pass'),'exit=%s'%r.get('check_exit'), (r.get('fingerprints') or r.get('check_tail') or [''])[:2])
