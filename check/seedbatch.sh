#!/bin/sh
# seedbatch.sh C05 C09 ... : run seedtest.py for every delivered change of the given properties (parallel 3)
mkdir -p /verif/.work/seed-results
for p in "$@"; do
  for m in ${SEEDROOT:-/tmp/seed}/out-$p/m*; do
    [ -f "$m/patch.diff" ] || continue
    n=$(basename $m)
    out=/verif/.work/seed-results/$p-$n.json
    [ -s "$out" ] && continue
    echo "python3 /verif/check/seedtest.py $m $p > $out 2>/verif/.work/seed-results/$p-$n.err"
  done
done | xargs -P 3 -I{} sh -c "{}"
for p in "$@"; do for f in /verif/.work/seed-results/$p-*.json; do python3 - "$f" <<'PY'
import json,sys
try:
    r=json.load(open(sys.argv[1]))
    print(sys.argv[1].split('/')[-1], 'demo_ok=%s/%s'%(r.get('demo_passes_without_patch'),r.get('demo_fails_with_patch')), 'tests=%s'%r.get('existing_tests_pass'), 'check_exit=%s'%r.get('check_exit'), (r.get('fingerprints') or r.get('violations') or r.get('check_tail'))[:2])
except Exception as e:
    print(sys.argv[1], 'unreadable', e)
PY
done; done
