"""Shared machinery of the verification driver (python3 standard library only).

One Ctx per (property, tier, seed) run.  It runs TLC on copies of the spec in a
scratch directory under /verif/.work, runs the Go conformance harness against
/repo's current working tree (build tag `verif`), collects the harness reports,
matches violations against KNOWN_FINDINGS.json, writes evidence/<ID>.json and
decides the exit code:

  0  the property held on everything explored (KNOWN-FINDING lines possible)
  1  at least one violation not listed in KNOWN_FINDINGS.json (VIOLATION lines)
  2  infrastructure failure (TLC/JVM error, build failure, timeout, dead driver)
"""
import json
import os
import re
import shutil
import subprocess
import sys
import time

VERIF = os.path.dirname(os.path.dirname(os.path.abspath(__file__)))
REPO = os.environ.get("VERIF_REPO", "/repo")
SPEC = os.path.join(VERIF, "spec")
HARNESS = os.path.join(VERIF, "harness")
EVIDENCE = os.path.join(VERIF, "evidence")
if os.path.realpath(REPO) != "/repo":
    # runs against a scratch worktree never touch the committed evidence
    EVIDENCE = os.path.join(VERIF, ".work", "evidence-" + os.path.basename(os.path.realpath(REPO)))
WORKROOT = os.path.join(VERIF, ".work")
TLA_JAR = "/opt/veriftools/tla/tla2tools.jar:/opt/veriftools/tla/CommunityModules-deps.jar"


class Infra(Exception):
    """Infrastructure failure: exit 2, never a violation."""


class TLCResult:
    def __init__(self):
        self.out = ""
        self.rc = 0
        self.generated = 0
        self.distinct = 0
        self.depth = 0
        self.records = {}      # tag -> list of decoded JSON values printed by the spec
        self.violated = None   # name of a violated invariant / property, if any
        self.wall = 0.0


def _unquote_tla(s):
    # a TLA+ string literal body as printed by TLC: \" and \\ escapes
    return json.loads('"' + s + '"')


_REC = re.compile(r'^<<"([A-Z]+)", "(.*)">>$')


def go_env(toolchain="go"):
    env = dict(os.environ)
    env.update({"GOFLAGS": "-mod=mod", "GOPROXY": "off", "GOSUMDB": "off", "GOTOOLCHAIN": "local",
                "CGO_ENABLED": "1"})
    return env


MEM_GUARD_GIB = int(os.environ.get("VERIF_MEM_GUARD_GIB", "20"))


class _Done:
    def __init__(self, rc, out):
        self.returncode, self.stdout = rc, out


def _group_rss_kib(pgid):
    total = 0
    for d in os.listdir("/proc"):
        if not d.isdigit():
            continue
        try:
            with open("/proc/%s/stat" % d) as f:
                st = f.read()
            fields = st[st.rindex(")") + 2:].split()
            if int(fields[2]) != pgid:      # pgrp
                continue
            total += int(fields[21]) * (os.sysconf("SC_PAGE_SIZE") // 1024)   # rss pages
        except Exception:
            continue
    return total


def _run_guarded(cmd, cwd, env, timeout):
    """subprocess.run with a wall-clock limit and a resident-memory guard over the whole process group: a changed
    implementation that loops without bound must end in an infrastructure failure, not take the machine down."""
    import tempfile
    import signal
    with tempfile.TemporaryFile(mode="w+", errors="replace") as out:
        p = subprocess.Popen(cmd, cwd=cwd, env=env, stdout=out, stderr=subprocess.STDOUT, start_new_session=True)
        t0 = time.time()
        rc = None
        while True:
            try:
                p.wait(timeout=3)
                rc = p.returncode
                break
            except subprocess.TimeoutExpired:
                pass
            if time.time() - t0 > timeout:
                rc = -9001
            elif _group_rss_kib(p.pid) > MEM_GUARD_GIB * 1024 * 1024:
                rc = -9002
            if rc is not None:
                try:
                    os.killpg(p.pid, signal.SIGKILL)
                except Exception:
                    pass
                p.wait()
                break
        out.seek(0)
        return _Done(rc, out.read())


class Ctx:
    def __init__(self, prop, tier, seed, level="model_checking"):
        self.prop = prop
        self.tier = tier
        self.seed = seed
        self.level = level
        self.t0 = time.time()
        self.work = os.path.join(WORKROOT, "%s-%d" % (prop, os.getpid()))
        shutil.rmtree(self.work, ignore_errors=True)
        os.makedirs(self.work)
        self.states = 0
        self.transitions = 0
        self.traces = 0          # traces recorded from the real code and accepted by the trace spec
        self.replayed = 0        # spec behaviours / cases replayed into the real code
        self.evaluations = 0
        self.nontrivial = 0
        self.rules = []
        self.samples = []
        self.assumptions = []
        self.violations = []     # dicts: fingerprint, what, replay
        self.tlc_runs = []
        self.exhaustive = None
        self.notes = {}
        self.log("== %s tier=%s seed=%d work=%s" % (prop, tier, seed, self.work))

    # ------------------------------------------------------------------ util
    def log(self, msg):
        print("[%7.1fs] %s" % (time.time() - self.t0, msg), flush=True)

    def thorough(self):
        return self.tier == "thorough"

    def pick(self, quick, thorough):
        return thorough if self.thorough() else quick

    # ------------------------------------------------------------------- TLC
    def tlc(self, subdir, module, cfg, workers=None, simulate=None, depth=None, env=None,
            timeout=1800, expect_violation=False, count=True, java_opts=None, dfs=False, label=None, check=True):
        """Run TLC on spec/<subdir>/<module>.tla with <cfg>; spec files are copied to scratch.

        simulate: number of behaviours (-simulate num=N); depth: -depth D.
        Lines printed by the spec as <<"TAG", ToJson(x)>> are collected in result.records[TAG].
        """
        label = label or cfg
        wd = os.path.join(self.work, "tlc-%s-%d" % (re.sub(r"\W", "_", label), len(self.tlc_runs)))
        os.makedirs(wd)
        for d in ("common", subdir):
            src = os.path.join(SPEC, d)
            if os.path.isdir(src):
                for f in os.listdir(src):
                    if f.endswith((".tla", ".cfg")):
                        shutil.copy(os.path.join(src, f), wd)
        if workers is None:
            workers = 1 if simulate else min(16, os.cpu_count() or 4)
        # TLC and SANY leave tlc-<n> / SANY<n> directories in java.io.tmpdir and never remove them: keep them in the
        # run's own working directory, which is removed at the end of the check
        jtmp = os.path.join(wd, "jtmp")
        os.makedirs(jtmp, exist_ok=True)
        cmd = ["java", "-XX:+UseParallelGC", "-Xss64m", "-Djava.io.tmpdir=" + jtmp]
        if dfs:
            cmd.append("-Dtlc2.tool.queue.IStateQueue=StateDeque")
        cmd += (java_opts or [])
        cmd += ["-cp", TLA_JAR, "tlc2.TLC", "-workers", str(workers), "-metadir", os.path.join(wd, "states"),
                "-config", cfg, "-noGenerateSpecTE"]
        if simulate:
            cmd += ["-simulate", "num=%d" % simulate, "-seed", str(self.seed)]
        if depth:
            cmd += ["-depth", str(depth)]
        cmd.append(module + ".tla")
        e = dict(os.environ)
        e.pop("JAVA_TOOL_OPTIONS", None)
        if env:
            e.update({k: str(v) for k, v in env.items()})
        t = time.time()
        try:
            p = subprocess.run(cmd, cwd=wd, env=e, stdout=subprocess.PIPE, stderr=subprocess.STDOUT,
                               timeout=timeout, text=True, errors="replace")
        except subprocess.TimeoutExpired:
            subprocess.run(["pkill", "-f", wd], check=False)
            raise Infra("TLC timeout after %ds: %s %s" % (timeout, module, cfg))
        r = TLCResult()
        r.out, r.rc, r.wall = p.stdout, p.returncode, time.time() - t
        with open(os.path.join(wd, "tlc.out"), "w") as f:
            f.write(r.out)
        for line in r.out.splitlines():
            m = _REC.match(line)
            if m:
                try:
                    r.records.setdefault(m.group(1), []).append(json.loads(_unquote_tla(m.group(2))))
                except Exception as ex:  # noqa
                    raise Infra("cannot decode TLC record: %s: %s" % (ex, line[:200]))
                continue
            m = re.search(r"(\d+) states generated, (\d+) distinct states found", line)
            if m:
                r.generated, r.distinct = int(m.group(1)), int(m.group(2))
            m = re.search(r"The number of states generated: (\d+)", line)
            if m:
                r.generated = int(m.group(1))
            m = re.search(r"depth of the complete state graph search is (\d+)", line)
            if m:
                r.depth = int(m.group(1))
            m = re.search(r"Error: (Invariant|Action property|Temporal properties?) ?(\S*)? ?(is|were) violated", line)
            if m:
                r.violated = m.group(2) or "temporal"
        if r.violated is None and r.rc in (12, 13):
            r.violated = "unknown"
        ok = (r.rc == 0 and r.violated is None)
        self.tlc_runs.append({"module": module, "cfg": cfg, "mode": "simulate" if simulate else "bfs",
                              "generated": r.generated, "distinct": r.distinct, "depth": r.depth,
                              "wall_s": round(r.wall, 1), "rc": r.rc, "violated": r.violated})
        self.log("TLC %s/%s %s: rc=%d generated=%d distinct=%d depth=%d %.1fs%s" % (
            subdir, module, cfg, r.rc, r.generated, r.distinct, r.depth, r.wall,
            (" VIOLATED " + r.violated) if r.violated else ""))
        if check and not ok and not (expect_violation and r.violated):
            tail = "\n".join(r.out.splitlines()[-40:])
            if r.violated:
                raise Infra("TLC reports %s violated on the abstract model (%s %s); the specification is "
                            "fixed, so this is a specification error, not a code violation\n%s"
                            % (r.violated, module, cfg, tail))
            raise Infra("TLC failed rc=%d (%s %s)\n%s" % (r.rc, module, cfg, tail))
        if count and not simulate:
            self.states += r.distinct
            self.transitions += r.generated
        return r

    # -------------------------------------------------------------- Apalache
    def apalache(self, subdir, module, jobs, parallel=8, timeout=900):
        """Run `apalache-mc check --length=0` once per job on spec/<subdir>/<module>.tla (symbolic check of the
        invariant on every initial state).  jobs: list of dicts {inv, cinit, label}.  Returns one dict per job:
        {outcome: "NoError" | "Error", state: <first state of the counterexample as python ints/bools>, wall}.
        Anything else (timeout, JVM/parse/type error) is an infrastructure failure."""
        from concurrent.futures import ThreadPoolExecutor
        wd = os.path.join(self.work, "apalache-%s-%d" % (module, len(self.tlc_runs)))
        os.makedirs(wd, exist_ok=True)
        for d in ("common", subdir):
            src = os.path.join(SPEC, d)
            if os.path.isdir(src):
                for f in os.listdir(src):
                    if f.endswith(".tla"):
                        shutil.copy(os.path.join(src, f), wd)
        e = dict(os.environ)
        e.pop("JAVA_TOOL_OPTIONS", None)

        def unitf(v):
            if isinstance(v, dict) and "#bigint" in v:
                return int(v["#bigint"])
            return v

        def one(job):
            out = os.path.join(wd, "out-" + re.sub(r"\W", "_", job["label"]))
            cmd = ["apalache-mc", "check", "--out-dir=" + out, "--length=0", "--inv=" + job["inv"]]
            if job.get("cinit"):
                cmd.append("--cinit=" + job["cinit"])
            cmd.append(module + ".tla")
            t = time.time()
            try:
                p = subprocess.run(cmd, cwd=wd, env=e, stdout=subprocess.PIPE, stderr=subprocess.STDOUT,
                                   timeout=timeout, text=True, errors="replace")
            except subprocess.TimeoutExpired:
                subprocess.run(["pkill", "-f", out], check=False)
                return {"job": job, "outcome": "Timeout", "wall": time.time() - t, "out": ""}
            res = {"job": job, "wall": time.time() - t, "out": p.stdout, "state": None}
            m = re.search(r"The outcome is: (\w+)", p.stdout)
            res["outcome"] = m.group(1) if m else "Failed(rc=%d)" % p.returncode
            if res["outcome"] == "Error":
                for root, _, files in os.walk(out):
                    if "violation1.itf.json" in files:
                        with open(os.path.join(root, "violation1.itf.json")) as f:
                            itf = json.load(f)
                        st = itf["states"][0]
                        res["state"] = {k: unitf(v) for k, v in st.items() if not k.startswith("#")}
                if res["state"] is None:
                    res["outcome"] = "Failed(no counterexample file)"
            return res

        with ThreadPoolExecutor(max_workers=parallel) as ex:
            results = list(ex.map(one, jobs))
        for r in results:
            self.tlc_runs.append({"module": module, "cfg": "apalache --length=0 --inv=%s --cinit=%s" % (
                r["job"]["inv"], r["job"].get("cinit")), "mode": "apalache-symbolic", "generated": 0, "distinct": 0,
                "depth": 0, "wall_s": round(r["wall"], 1), "rc": 0 if r["outcome"] == "NoError" else 12,
                "violated": r["job"]["inv"] if r["outcome"] == "Error" else None})
            self.log("Apalache %s/%s inv=%s cinit=%s: %s %.1fs" % (subdir, module, r["job"]["inv"],
                                                                   r["job"].get("cinit"), r["outcome"], r["wall"]))
            if r["outcome"] not in ("NoError", "Error"):
                raise Infra("Apalache %s on %s inv=%s cinit=%s\n%s" % (
                    r["outcome"], module, r["job"]["inv"], r["job"].get("cinit"), "\n".join(r["out"].splitlines()[-30:])))
        return results

    def write_ndjson(self, name, items):
        path = os.path.join(self.work, name)
        with open(path, "w") as f:
            for it in items:
                f.write(json.dumps(it, separators=(",", ":")) + "\n")
        return path

    # -------------------------------------------------------------------- Go
    def go_test(self, pkg, run=None, env=None, toolchain="go", race=False, timeout=1500, name=None,
                tags="verif", extra=None, allow_fail=False):
        """go test ./<pkg> in the harness module against /repo's working tree.

        The harness writes report-<name>.json into VERIF_OUT; the report is merged into the context.
        A failing `go test` is an infrastructure failure unless the repository code itself crashed.
        """
        out = os.path.join(self.work, "out-%s-%d" % (re.sub(r"\W", "_", name or pkg), len(os.listdir(self.work))))
        os.makedirs(out)
        e = go_env(toolchain)
        e.update({"VERIF_SEED": str(self.seed), "VERIF_TIER": self.tier, "VERIF_OUT": out,
                  "VERIF_REPO": REPO})
        if env:
            e.update({k: str(v) for k, v in env.items()})
        cmd = [toolchain, "test", "-count=1", "-tags", tags, "-timeout", "%ds" % timeout]
        if os.path.realpath(REPO) != "/repo":
            # development aid: run the harness against a scratch worktree (VERIF_REPO) without touching /repo
            alt = os.path.join(self.work, "alt.mod")
            with open(os.path.join(HARNESS, "go.mod")) as f:
                mod = f.read().replace("=> /repo", "=> " + os.path.realpath(REPO))
            with open(alt, "w") as f:
                f.write(mod)
            shutil.copy(os.path.join(REPO, "go.sum"), os.path.join(self.work, "alt.sum"))
            cmd.append("-modfile=" + alt)
        if race:
            cmd.append("-race")
        if run:
            cmd += ["-run", run]
        cmd += (extra or [])
        cmd.append("./" + pkg)
        gosum = os.path.join(HARNESS, "go.sum")
        if not os.path.exists(gosum) or os.path.getmtime(gosum) < os.path.getmtime(os.path.join(REPO, "go.sum")):
            shutil.copy(os.path.join(REPO, "go.sum"), gosum)
        t = time.time()
        for attempt in range(5):
            p = _run_guarded(cmd, HARNESS, e, timeout + 120)
            if p.returncode == -9001:
                raise Infra("go test timeout: %s" % " ".join(cmd))
            if p.returncode == -9002:
                raise Infra("go test exceeded the memory guard (%d GiB resident): %s\n%s" % (
                    MEM_GUARD_GIB, " ".join(cmd), "\n".join(p.stdout.splitlines()[-20:])))
            # a crash inside the Go runtime's own timer code under synctest (seen once in ~100 runs with go1.26.8,
            # SIGSEGV in runtime.(*timer).maybeRunChan) is a toolchain fault, not a verdict: run again
            if p.returncode != 0 and "SIGSEGV: segmentation violation" in p.stdout and "runtime.(*timer)" in p.stdout:
                self.log("go runtime crashed inside its timer code (toolchain fault); retrying (%d)" % (attempt + 1))
                for fn in os.listdir(out):
                    os.remove(os.path.join(out, fn))
                continue
            break
        with open(os.path.join(out, "gotest.out"), "w") as f:
            f.write(p.stdout)
        self.log("go test %s %s rc=%d %.1fs" % (pkg, run or "", p.returncode, time.time() - t))
        reports = []
        for fn in sorted(os.listdir(out)):
            if fn.startswith("report-") and fn.endswith(".json"):
                with open(os.path.join(out, fn)) as f:
                    reports.append(json.load(f))
        if p.returncode != 0:
            tail = "\n".join(p.stdout.splitlines()[-60:])
            crash = self._repo_crash(p.stdout)
            if crash:
                # the repository's own code crashed the process (e.g. panic in a goroutine it started)
                self.violation("crash:" + crash, "process crash inside the repository code: " + crash,
                               {"output_tail": p.stdout.splitlines()[-80:], "cmd": cmd})
            elif "WARNING: DATA RACE" in p.stdout and race:
                fp = self._race_fingerprint(p.stdout)
                self.violation("race:" + fp, "data race reported by the Go race detector: " + fp,
                               {"output_tail": p.stdout.splitlines()[-120:], "cmd": cmd})
            elif not allow_fail:
                raise Infra("go test failed rc=%d: %s\n%s" % (p.returncode, " ".join(cmd), tail))
        elif not reports:
            raise Infra("harness wrote no report (dead driver): %s" % " ".join(cmd))
        for rep in reports:
            self.merge_report(rep)
        return p.stdout, out, reports

    @staticmethod
    def _repo_crash(text):
        m = re.search(r"^(panic: .*|fatal error: .*)$", text, re.M)
        if not m:
            return None
        # first frame that belongs to the repository
        for fm in re.finditer(r"^(github\.com/google/certificate-transparency-go/[^\s(]+)", text[m.end():], re.M):
            return "%s at %s" % (m.group(1)[:120], fm.group(1))
        return None

    @staticmethod
    def _race_fingerprint(text):
        frames = re.findall(r"^\s+(github\.com/google/certificate-transparency-go/[^\s(]+)\(", text, re.M)
        seen = []
        for f in frames:
            if f not in seen:
                seen.append(f)
        return "|".join(sorted(seen[:2])) if seen else "unknown"

    def merge_report(self, rep):
        self.evaluations += rep.get("evaluations", 0)
        self.nontrivial += rep.get("distinct_nontrivial", 0)
        self.traces += rep.get("traces", 0)
        self.replayed += rep.get("replayed", 0)
        if rep.get("rule"):
            self.rules.append("%s: %s" % (rep.get("name"), rep["rule"]))
        for s in rep.get("samples", [])[:3]:
            if len(self.samples) < 8:
                self.samples.append({"from": rep.get("name"), "case": s})
        for v in rep.get("violations", []):
            self.violation(v["fingerprint"], v["what"], v.get("replay"))
        if rep.get("extra"):
            self.notes[rep.get("name", "?")] = rep["extra"]

    # ------------------------------------------------------------ violations
    def violation(self, fingerprint, what, replay=None):
        for v in self.violations:
            if v["fingerprint"] == fingerprint:
                return
        self.violations.append({"fingerprint": fingerprint, "what": what, "replay": replay})

    def known_findings(self):
        path = os.path.join(VERIF, "KNOWN_FINDINGS.json")
        if not os.path.exists(path):
            return []
        with open(path) as f:
            kf = json.load(f)
        return [k for k in kf.get("findings", []) if k.get("property") == self.prop]

    # -------------------------------------------------------------- finishing
    def finish(self):
        known = self.known_findings()
        unknown = []
        for v in self.violations:
            hit = None
            for k in known:
                if k.get("fingerprint") == v["fingerprint"] or (
                        k.get("fingerprint_regex") and re.fullmatch(k["fingerprint_regex"], v["fingerprint"])):
                    hit = k
                    break
            if hit:
                print("KNOWN-FINDING: property=%s %s [%s]" % (self.prop, hit.get("what", v["what"]), v["fingerprint"]))
            else:
                unknown.append(v)
        os.makedirs(os.path.join(EVIDENCE, "replay"), exist_ok=True)
        if len(unknown) > 12:
            print("(%d distinct violations; reporting the first 12)" % len(unknown))
        for i, v in enumerate(unknown[:12]):
            path = os.path.join(EVIDENCE, "replay", "%s-%d-%d.json" % (self.prop, self.seed, i))
            with open(path, "w") as f:
                json.dump({"property": self.prop, "seed": self.seed, "tier": self.tier, **v}, f, indent=1)
            print("VIOLATION property=%s replay=%s" % (self.prop, path))
            print("  what: %s" % v["what"][:600])
        self.write_evidence(len(unknown))
        if os.environ.get("VERIF_KEEP_WORK") != "1":
            shutil.rmtree(self.work, ignore_errors=True)
        return 1 if unknown else 0

    def write_evidence(self, nviol):
        cov = {
            "states": self.states,
            "transitions": self.transitions,
            "traces_validated_against_impl": self.traces + self.replayed,
            "spec_behaviours_replayed_into_impl": self.replayed,
            "impl_traces_accepted_by_trace_spec": self.traces,
            "evaluations": self.evaluations,
            "distinct_nontrivial": self.nontrivial,
            "rule": " | ".join(self.rules) or "see DESIGN.md",
            "samples": self.samples or [{"note": "no sample recorded"}],
            "tlc_runs": self.tlc_runs,
        }
        if isinstance(self.exhaustive, bool):
            cov["exhaustive"] = self.exhaustive
        elif self.exhaustive is not None:
            cov["exhaustive_scope"] = self.exhaustive   # a description of what was enumerated completely
        if self.notes:
            cov["harness_counters"] = self.notes
        ev = {
            "property_id": self.prop,
            "tier": self.tier,
            "seed": self.seed,
            "level": self.level,
            "coverage": cov,
            "assumptions": self.assumptions,
            "wall_s": round(time.time() - self.t0, 1),
            "violations": nviol,
        }
        # X-checks (behaviour beyond the listed properties, see DESIGN.md section 12) keep their records apart from the
        # evidence of the claimed properties
        evdir = EVIDENCE if not self.prop.startswith("X") else os.path.join(VERIF, "evidence-extra")
        os.makedirs(evdir, exist_ok=True)
        tmp = os.path.join(evdir, ".%s.json.tmp" % self.prop)
        with open(tmp, "w") as f:
            json.dump(ev, f, indent=1)
        os.replace(tmp, os.path.join(evdir, "%s.json" % self.prop))


def maximal_behaviours(records):
    """TLC simulation prints the cumulative history at several states; keep maximal ones, de-duplicated."""
    out, seen = [], set()
    for i, h in enumerate(records):
        nxt = records[i + 1] if i + 1 < len(records) else None
        if nxt is not None and len(nxt) > len(h) and nxt[:len(h)] == h:
            continue
        key = json.dumps(h, sort_keys=True)
        if h and key not in seen:
            seen.add(key)
            out.append(h)
    return out


def main(run_fn, prop, level="model_checking"):
    import argparse
    ap = argparse.ArgumentParser()
    ap.add_argument("--tier", default=os.environ.get("VERIF_TIER", "quick"), choices=["quick", "thorough"])
    ap.add_argument("--seed", type=int, default=int(os.environ.get("VERIF_SEED", "1") or 1))
    ap.add_argument("--replay", default=None)
    a = ap.parse_args(sys.argv[2:])
    ctx = Ctx(prop, a.tier, a.seed, level)
    try:
        run_fn(ctx, a.replay)
        rc = ctx.finish()
    except Infra as ex:
        print("INFRASTRUCTURE FAILURE: %s" % ex, flush=True)
        if ctx.violations:
            # violations already observed on the real code stand on their own
            print("(reporting the violations observed before the failure)")
            rc = ctx.finish()
            sys.exit(rc if rc else 2)
        if os.environ.get("VERIF_KEEP_WORK") != "1":
            shutil.rmtree(ctx.work, ignore_errors=True)
        sys.exit(2)
    sys.exit(rc)
