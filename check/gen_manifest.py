#!/usr/bin/env python3
"""Regenerates MANIFEST.json from the table below (kept next to the checks so the two cannot drift)."""
import json
import os

VERIF = os.path.dirname(os.path.dirname(os.path.abspath(__file__)))

CHECKS = {
    "C19": dict(
        category="model_checking",
        text="Witness.tla is model-checked exhaustively by TLC (all reachable witness states x all requests from a "
             "catalogue of honest/forked/stale/mis-signed STHs and correct/wrong proofs); every transition of the "
             "single-log state space and thousands of random walks are replayed into the real witness on sqlite "
             "(Go API and HTTP server) comparing each reply and each stored row; invoke/return traces of concurrent "
             "callers are checked for linearizability against the same spec by TLC (WitnessTrace.tla).",
        design="4/C19",
        note="SHA-256 / ECDSA soundness (tokens in the spec, real keys and trees in the harness); tree sizes <= 4 (6 for "
             "traces), two logs, one fork; sqlite with one connection as impl.Main configures it.",
        technique="TLA+ spec + TLC exhaustive model checking; spec->code replay of a transition cover and simulated "
                  "behaviours; code->spec trace validation (linearizability search) of concurrent runs under -race",
    ),
}

CHECKS["C01"] = dict(
    category="model_checking",
    text="CTFE.tla models add-chain / add-pre-chain over the de-duplicating backend together with clock ticks, batch "
         "sequencing and all read endpoints; TLC checks exhaustively (3-4 certificates, clock 0..3, tree <= 4) that "
         "duplicates repeat the stored timestamp and that every SCT binds the stored entry. Thousands of simulated "
         "behaviours are replayed into a real ctfe.Instance: the QueueLeafRequest (leaf value, identity hash, extra "
         "data) is compared with an independent RFC 6962 encoder applied to an independently de-poisoned TBS, the SCT "
         "id / timestamp / signature are verified with std crypto, RequestLog.IssueSCT/Status are compared.",
    design="4/C01",
    note="reference backend instead of Trillian+SQL; certificate shapes limited to what std x509.CreateCertificate issues "
         "(9 chain shapes incl. pre-issuer, root omitted/included, 4 leaf key types, ECDSA and RSA log keys); hashes and "
         "signatures assumed sound.",
    technique="TLA+ spec + TLC exhaustive model checking; spec->code replay of simulated behaviours with independent "
              "encoders and std crypto as oracle",
)
CHECKS["C06"] = dict(
    category="model_checking",
    text="CTFE.tla: all eight endpoints as actions over an append-only backend; TLC checks AppendOnly, STHFaithful, "
         "SingleIndex, QueueSound exhaustively. Simulated histories (fresh/duplicate submissions, sequencing batches, "
         "every read with in- and out-of-range parameters) are replayed into a real ctfe.Instance: every STH is "
         "verified under the log key and against the backend root (ns->ms), every served consistency / inclusion proof "
         "is verified with the harness' own RFC 9162 verifiers, entries are compared byte for byte, every pair of "
         "served STHs must be linked by a served proof, and every certificate with an SCT must be found by the "
         "client-computed leaf hash at exactly one index.",
    design="4/C06",
    note="reference backend (contract of Trillian's log RPC server v1.7.1) instead of Trillian+SQL; sequential "
         "histories (requests of one behaviour are issued one after another); tree sizes <= 5 in replay.",
    technique="TLA+ spec + TLC exhaustive model checking; spec->code replay with real signature and Merkle proof "
              "verification by independent code",
)

CHECKS["C07"] = dict(
    category="model_checking",
    text="GetEntriesRange.tla states the range law from the property text (SpecRange) and transcribes the handler's int64 "
         "arithmetic on a scaled machine word (CodeRange); TLC checks the laws and CodeRange = SpecRange exhaustively over "
         "boundary clusters near 0 and near MaxInt for batch sizes 1..10 and 1000, alignment on/off. Every case is mapped "
         "through the cluster homomorphism to real int64 parameters and sent to get-entries of a real instance: the "
         "GetLeavesByRangeRequest seen by the backend (or its absence), the status and the served bytes are compared; "
         "malformed parameter strings must be 4xx without a backend call; served entries are decoded with "
         "ct.LogEntryFromLeaf and compared with the submissions; get-entry-and-proof must serve the same bytes. "
         "GetEntriesRangeInt.tla repeats the transcription with the true modulus 2^64 and Apalache (SMT, unbounded integers) "
         "checks the range laws for ALL int64 start / end per batch size (and refutes the pre-repair computation); its "
         "witnesses of 16 boundary classes are sent to the real handler with expectations computed from the property text.",
    design="4/C07",
    note="TLC: scaled-word homomorphism (MaxWord=7807; 2^63-1-MaxWord divisible by every batch size used), values only from "
         "boundary clusters. Apalache: one batch size per run (quick 1, 3, 1000; thorough 15 sizes up to 2^63-1) so that "
         "'% max' stays linear; both bind to the code through the same hand transcription of parseGetEntriesRange, which the "
         "replay ties to the handler on the enumerated cases and witnesses. Reference backend.",
    technique="TLA+ case-analysis spec + TLC exhaustive enumeration + Apalache symbolic check over all int64 values; every "
              "enumerated case and every Apalache witness replayed into the real handler with backend request inspection",
)

CHECKS["C08"] = dict(
    category="fault_enumeration",
    text="CTFEFaults.tla enumerates the complete finite matrix: 7 backend-calling endpoints x (16 gRPC codes + the classes "
         "of malformed reply their RPC admits) x fault position 1..3 in a request sequence x masking on/off, plus every "
         "endpoint x bad-parameter / wrong-method class, each with the status class the property demands (4xx, 429, 503, "
         "504, 5xx, 4xx-without-backend-call). TLC checks that no class maps to success; all 957 cases are executed on a "
         "real ctfe.Instance whose backend replies are rewritten by an interceptor: status class, no panic, no SCT emitted "
         "or recorded, RequestLog.Status, masking of 500 bodies, no backend call for bad requests, neighbouring requests "
         "unaffected.",
    design="4/C08",
    note="malformed replies limited to what a wire decode can produce; direct (in-backend) chain mode; reference backend.",
    technique="TLA+ case-matrix spec + TLC complete enumeration; every case replayed with a fault-injecting backend",
)

CHECKS["C14"] = dict(
    category="model_checking",
    text="ChainStore.tla models the external issuance-chain store: hash-addressed rows, the LRU / noop cache with its "
         "detached write as a separately scheduled action, legacy full-chain entries, storage faults, dropped and damaged "
         "rows (trailing bytes, not DER, truncated, empty, content altered); TLC checks SameAsDirect, FaultIsError, "
         "LegacyUnchanged for the noop cache and LRU capacities unbounded/1/2. Simulated behaviours are replayed on twin "
         "real instances (direct vs external storage, real cache behind a gate that fires the detached cache.Set where the "
         "behaviour says) fed the same submissions: every served entry is compared byte for byte through both read "
         "endpoints, storage faults must give 5xx and never data, storage call counts are compared with the specification's "
         "cache hits/misses; an ungated concurrent run (tiny capacity and TTL) under the race detector compares every read "
         "with the direct mode.",
    design="4/C14",
    note="in-memory IssuanceChainStorage instead of MySQL/PostgreSQL; exhaustive configs bound outstanding cache writes to 2; "
         "TTL expiry only in the concurrent run (law: output equality).",
    technique="TLA+ spec + TLC exhaustive model checking; spec->code replay on twin instances with a gated cache as "
              "scheduler; concurrent differential run under -race",
)

CHECKS["C03"] = dict(
    category="model_checking",
    text="Precert.tla (abstract TBSCertificate, RemoveExt / BuildPrecertTBS / Final, both routes' entries, SCT list framing; laws "
         "ExactlyOne, OthersUntouched, BuildTouchesOnly, Commutes, SameEntry, SCTListRoundTrip) is checked by TLC over the full "
         "enumeration of extension layouts (<=4/5 extensions from 8 kinds, every position of poison / SCT list / AKI, 0-2 occurrences, "
         "criticality patterns), issuer modes (direct, pre-issuer with AKI none/k1/k2, pre-issuer without CT EKU), field-encoding "
         "variants and SCT lists of 1..3; every case (13.8k quick / 48k thorough) is DER-encoded by the harness' own builder, signed "
         "with real keys and replayed into x509.BuildPrecertTBS/RemoveCTPoison/RemoveSCTList, ct.MerkleTreeLeafFromChain/"
         "FromRawChain/ForEmbeddedSCT, ctutil.VerifySCT/LeafHash, x509util SCT list helpers and submission.ASN1MarshalSCTs; results "
         "are compared byte for byte with the builder applied to the model's expected TBS; embedded SCTs signed over the independent "
         "entry must verify, SCTs over another TBS / issuer key hash / log / not embedded must not.",
    design="4/C03",
    note="canonical DER TBSCertificates (RFC 5280 time rule), <=5 extensions, <=1 AKI; trusted base cryptobyte + the harness "
         "builder/RFC 6962 encoders; named clauses for behaviour RFC 6962 leaves open (EmptyExtensionsKept, AkiDropped, "
         "AkiAppended, AkiAbsent); SHA-256/ECDSA/RSA soundness; LeafHash with non-empty SCT extensions left to C04.",
    technique="TLA+ case-analysis spec + TLC exhaustive enumeration with laws as invariants; spec->code replay of every case with real "
              "DER/keys/signatures against an independent builder; seed-randomized materialization of opaque fields; "
              "corrupted-expectation canaries",
)

CHECKS["C05"] = dict(
    category="model_checking",
    text="SigVerify.tla is a case-analysis specification of signature acceptance: a signed object (SCT over X.509/precert "
         "entry, STH, signed log list, DigitallySigned blob) validly signed by a key of some type under some hash, presented "
         "after exactly one mutation (each signed field, other key of the same/another type, declared hash code, declared "
         "signature code, a catalogue of corrupted signature values incl. malformed DER), with the verdict derived from the "
         "property text; plus the verifier-constructor table (key policy x opt-in) and the CreateSignature table. TLC "
         "enumerates the full product, checks the laws of the table on every case and exports every case; each case is "
         "executed with real keys (object encoded and signed with the Go standard library only, mutation applied to real "
         "bytes) against tls.VerifySignature, ct.NewSignatureVerifier, VerifySCTSignature/VerifySTHSignature, "
         "loglist3.NewFromSignedJSON, ctutil.VerifySCT(WithVerifier) (plain, precert, embedded), ctutil.NewLogInfo/"
         "LogInfo.VerifySCTSignature and tls.CreateSignature under recover(); seeded single-bit flips over whole signed "
         "objects must all be rejected.",
    design="4/C05",
    note="'cryptographically valid' is Go's crypto packages (unforgeability/collision resistance assumed; tokens in the "
         "spec). One mutation at a time. Named clauses for behaviour the property leaves open: HashSupport (codes 1..6), "
         "LogListAlgorithms (SHA-256 + scheme of the presented RSA/ECDSA key), StrictDER, CreateKeys. Quick: code-class "
         "representatives, RSA 1024/2048, P-256/384/521, DSA-1024, Ed25519; thorough: all codes 0..255, + RSA-3072, P-224, "
         "DSA-2048. ECDSA (r, n-s) twins and structurally invalid in-memory keys (nil curve / nil modulus) are not asserted.",
    technique="TLA+ decision-table spec + TLC exhaustive enumeration with table laws as invariants; spec->code replay of "
              "every case with real keys and independent std-crypto encoders/signers; oracle-free seeded bit flips",
)
CHECKS["C11"] = dict(
    category="model_checking",
    text="X509Parse.tla models the lenient parser as the pipeline StrictDER -> LaxDER -> TrailingCheck -> FieldParse(spki, names, "
         "extension_1..n) over certificate templates (subsets of 15 extension kinds x 5 name string types x 3 key types x validity "
         "before/after 2050) and 83 named structure-preserving mutations; TLC checks Coherent (the mixed (object, error) outcomes are "
         "unreachable, IsFatal(err) <=> obj = nil) on every state and exports per case the set of allowed outcome classes, plus the "
         "concatenation law of ParseCertificates.  Every case is materialized with crypto/x509 as the conforming encoder and replayed "
         "into the fork: unmutated => no error and field-for-field equality with crypto/x509 on the same bytes, Raw* fields are the exact "
         "sub-slices of the input; mutated => outcome class within the allowed set.  Totality, coherence, raw-slice fidelity and "
         "concatenation are additionally checked, oracle-free, on the repository's testdata and on seeded byte/TLV mutations for all "
         "twelve entry points (recover and a time limit per call).",
    design="4/C11",
    note="crypto/x509 / encoding/asn1 of go1.24 are the trusted reference for well-formed certificates (deliberate difference D1: the "
         "RFC 6962 precert-signing EKU is a known ExtKeyUsage in the fork); one mutation per case, payloads from fixed pools; 'every byte "
         "string' is sampled (corpus + seeded mutations), non-termination = no return within 10 s; CRL/CSR/key parsers are covered by "
         "the oracle-free laws only.",
    technique="TLA+ case-analysis spec + TLC exhaustive enumeration (CASE export); spec->code replay with a differential oracle "
              "(standard library) for well-formed inputs; metamorphic / oracle-free laws on corpus and seeded mutations",
)
CHECKS["C13"] = dict(
    category="model_checking",
    text="Retry.tla (shared back-off state, one action per critical section of PostAndParseWithRetry/backoff, logical time) is "
         "model-checked exhaustively by TLC for 2 callers sharing one client over all response scripts of bounded length incl. "
         "'503 for ever' under context ends (13 safety clauses as action properties, PromptCtx as liveness); TLC-simulated behaviours "
         "with the code's constants are replayed into the real jsonclient/LogClient under testing/synctest virtual time (result, "
         "shared (multiplier, notBefore) via the verif hook and request windows compared); Call/Post/State/Return traces of "
         "seeded random concurrent scenarios recorded under -race are validated by TLC against RetryTrace.tla (ms, MaxMult 8, "
         "128 s, 250 ms); oracle-free monitors of every clause run on each timeline.",
    design="4/C13",
    note="zero-latency scripted RoundTripper inside the bubble (no HTTP transport internals, no response latency); virtual clock; "
         "exhaustive model uses MaxMult 3 / jitter {0,1}, real constants only in simulation, replay and trace validation; no "
         "'408 for ever' script (zero-time loop); redirected POST is retried like a transport error and Retry-After is only read "
         "on 429/503 (named clauses); only the IMF-fixdate form of HTTP-date is exercised.",
    technique="TLA+ spec + TLC exhaustive and liveness checking; spec->code replay of simulated behaviours under virtual time; "
              "code->spec trace validation of concurrent runs (go1.26 synctest, -race); runtime monitors",
)
CHECKS["C15"] = dict(
    category="model_checking",
    text="LogConfig.tla states well-formedness of LogConfig / LogConfigSet / LogMultiConfig as one definition per conjunct of the "
         "property over records of field states, the endpoint set of an instance, and a state machine for the STH an instance serves "
         "while its backend grows; TLC proves the text-derived Valid equal to the decision structure of config.go on every case, "
         "checks the instance invariants exhaustively and exports ~120k single configs (all pairs + selected triples of field groups, "
         "seeded draws from the full product), all 122,728 bounded multi-configs and ~2,600 instance behaviours; the harness "
         "materializes every case as configpb messages and compares ValidateLogConfig/Configs/MultiConfig directly and through the "
         "file loaders in text and binary form (panic = violation), builds every accepted config with SetUpInstance on a fake Trillian "
         "log and replays a behaviour (handler key set, get-sth after every growth / source STH arrival).",
    design="4/C15",
    note="Field states stand for value classes (1-4 spellings each); full product (5.6e7) only sampled beyond pairs/triples; instances "
         "built for the Trillian-gRPC chain-storage backend only; the mirror STH storage honours its contract; a frozen mirror is held "
         "to the frozen-STH sentence only; nil elements of repeated fields and a nil *LogConfig are out of domain.",
    technique="TLA+ case-analysis spec + TLC exhaustive enumeration with CASE export; spec->code replay of every case and of a "
              "transition cover + random walks of the instance state machine; oracle-free monitors for the frozen / mirror clauses",
)

CHECKS["C17"] = dict(
    category="model_checking",
    text="Submission.tla models GetSCTs at goroutine level (one goroutine per (group, log), every mutex-protected block of "
         "safeSubmissionState one action, nondeterministic latencies, hang outcomes, caller cancellation, the per-group and "
         "top-level collectors); TLC checks AtMostOncePerLog, SuccessSound, FailureHonest, NeedsAccount exhaustively and "
         "Terminates / SuccessComplete under weak fairness (the pre-repair variant of the model yields the counterexample "
         "of the repaired defect). Distributor.tla gives the policy totals by lifetime and the eligibility of a log. "
         "Binding: the real GetSCTs runs under testing/synctest virtual time with a scripted Submitter over every outcome x "
         "latency assignment of three group layouts (with and without caller deadline) and every result is judged by the "
         "property clauses; the H4 events emitted under the mutex are validated by TLC against SubmissionTrace.tla (each "
         "event must be the specified effect on groupNeeds / results / cancellable requests, the returned verdict must be "
         "sound and honest); 3078 policy / eligibility cases are replayed into ChromeCTPolicy / AppleCTPolicy.LogsByGroup "
         "and Distributor.AddChain; concurrent submissions, weight changes, root and log-list refreshes run under -race.",
    design="4/C17",
    note="latencies from {0, 0.3, 1.5, 2.5, 10 s}; layouts Chrome-like N=2 / N=3 and Apple-like N=2; exhaustive TLC on the "
         "N=2 layouts (hang + cancellation on the Apple layout); data-race freedom judged by the Go race detector.",
    technique="TLA+ spec + TLC exhaustive safety and liveness; code->spec trace validation of mutex-held events; "
              "property-level replay of enumerated latency/outcome scenarios under virtual time; race detector",
)
CHECKS["C16"] = dict(
    category="model_checking",
    text="Fetcher.tla (range generator, rendezvous channel, N fetch workers, short reads 1..asked, counted transient errors, "
         "Stop/Cancel, continuous mode with a growing tree) and Scanner.tla (flatten, bounded channel, matcher workers, "
         "cert/precert callbacks) are model-checked exhaustively by TLC: exactly-once accounting, nothing out of range, "
         "completeness at termination, initial segment after Stop and when quiet in continuous mode, callbacks once per "
         "selected entry and by type; termination and continuous progress under fairness. Complete TLC runs are replayed as "
         "reply scripts into the real scanner.Fetcher.Run / Scanner.Scan (virtual time, -race) comparing the delivered batches; "
         "traces of randomly configured real runs (and of the replayed ones) are validated against Fetcher.tla by TLC, which "
         "infers which worker made which request; oracle-free monitors check every run (exactly once with the served bytes, "
         "termination, callback kind).",
    design="4/C16",
    note="Model bounds: tree <= 4 (quick) / 5 (thorough) with growth, batch 1..3, 1..2 fetchers, <= 2 errors; scanner model tree <= 3/4, "
         "2 matcher workers; real-code runs: tree <= 16, batch 1..5, 1..4 fetchers, 1..3 matchers. Logs returning 0 or more entries "
         "than asked, BatchSize/ParallelFetch < 1 and nil matchers are outside the domain. Busy livelocks that make no request are "
         "only seen as a test timeout. copier.go / migrillian reuse of the Fetcher is covered through C20.",
    technique="TLA+ spec + TLC exhaustive safety and liveness; spec->code replay of simulated complete runs as reply scripts; "
              "code->spec trace validation with silent-step inference; runtime monitors under testing/synctest + -race",
)
CHECKS["C09"] = dict(
    category="model_checking",
    text="TLSCodec.tla defines Enc/Dec of RFC 5246 section 4 over type descriptors (uintN incl. uint24, enums "
         "size/maxval 1..8 bytes, opaque[n], <min..max> vectors of bytes/integers/structs, nested structs, selects). "
         "TLC checks Dec(Enc(v)++r)=(v,r), Dec(b)=(v,r)=>Enc(v)++r=b and bound agreement on every enumerated "
         "(type shape, value, mutated byte string) and exports each case; the Go harness builds every type with "
         "reflect.StructOf and compares tls.Marshal/Unmarshal[WithParams] bytes, values, rest and accept/reject with "
         "the model, monitors panics, allocation per decode and the re-encoding law, then runs seeded random types, "
         "values and byte strings against a reference codec that the replay ties to the specification.",
    design="4/C09",
    note="Shapes: all pairs of 25 kinds (49 thorough), triples/nesting<=3/vectors of structs over a reduced list, "
         "selects in 4 layouts x 6 arm kinds, vectors at 2^16/2^24; random types nesting<=3. Named clause "
         "EnumBoundIsWidth (enum bounded by width, not maxval). Out of grammar: empty structs, arrays of non-bytes, "
         "maxlen:0. Allocation bound (64+2*sizeof(vector element))*len+8KiB. Out-of-bounds reads = Go panics.",
    technique="TLA+ spec + TLC exhaustive case enumeration with model-level laws; spec->code replay of every case on "
              "run-time generated Go types; differential random testing against a spec-validated reference codec",
)
CHECKS["C04"] = dict(
    category="model_checking",
    text="RFC6962Wire.tla writes MerkleTreeLeaf, SCT, the SCT/STH signature inputs, DigitallySigned, SCT lists and the "
         "extra-data chain structures from RFC 6962 section 3 / RFC 5246 4.7 on top of TLSCodec.tla. TLC checks round "
         "trip, no-trailing-data and bijection laws and exports every boundary case with expected encodings and, for "
         "each mutated encoding, the expected decode / complete-parse verdict; the harness compares tls.Marshal/"
         "Unmarshal on the ct types, SerializeSCTSignatureInput, SerializeSTHSignatureInput, LeafHashForLeaf, "
         "ExtraDataForChain, the x509util SCT-list helpers, RawLogEntryFromLeaf/LogEntryFromLeaf, DigitallySigned "
         "base64/JSON and the add-chain/get-sth messages byte for byte, plus real certificates through the entry parsers.",
    design="4/C04",
    note="Trusted base: the spec's reading of the RFC structs (second independent encoder in harness/ref used for the "
         "real-certificate run). Boundary value sets, not all values. Named deviation JSONEntry (type 32768: raw codec "
         "accepts, signature input and entry parsers refuse). Unasserted: entry parsers on leaves whose version != v1.",
    technique="TLA+ spec + TLC case enumeration with model-level laws; spec->code replay with the model's bytes and "
              "verdicts as expected values; independent-encoder differential run with real X.509 material",
)
CHECKS["C10"] = dict(
    category="model_checking",
    text="Asn1Lax.tla is a decision model of ASN.1 decoding outcomes: TLC enumerates every case [Go type shape (38) x container stack "
         "(struct/SEQUENCE OF/SET OF/EXPLICIT/OPTIONAL, depth<=2) x value variant x one of 32 defects x path x mode] and checks "
         "the laws LaxSuperset, LaxOnlyDocumented, LaxPropagates, StrictEqUpstream (modulo the DeliberateDiff constant), "
         "RoundTrip, RawContentKeeps on the verdict table; every case is realized as bytes (own DER builder) and reflect-built "
         "Go types and executed on the fork (strict, lax) and on encoding/asn1, comparing verdict, decoded value, remainder "
         "and re-marshalled bytes; oracle-free laws (strict=>lax, strict==upstream unless a listed difference explains it, "
         "no panic, bounded allocation) run on millions of seeded byte-level mutations.",
    design="4/C10",
    note="'All byte strings / all types' is decided on the structured family plus its mutations; DeliberateDiff (base-128 "
         "leading 0x80 in OID arcs and high tags accepted, GeneralizedTime fractions rejected, SET OF not sorted on Marshal) is "
         "pinned to the installed toolchain's encoding/asn1; a `lax` struct-field tag (ignored by the code) is recorded, not asserted.",
    technique="TLA+ case-analysis spec + TLC exhaustive enumeration; spec->code replay of every case with upstream as "
              "second implementation; metamorphic differential testing on byte mutations; allocation metering",
)
CHECKS["C18"] = dict(
    category="model_checking",
    text="Temporal.tla holds the window predicate and the three components' decision structures; TLC checks over every shard list "
         "of length <=3 on instants 0..7 (538084 lists, present/absent bounds) that server window, log-list filter and shard index all "
         "equal start<=t<limit, that exactly one shard is chosen inside the overall span and none outside, that routing equals "
         "admission and that the constructor refuses exactly the ill-formed lists; every case is replayed into ctfe.ValidateChain, a "
         "configured ctfe.Instance, client.NewTemporalLogClient/IndexByDate and loglist3 TemporallyCompatible/Compatible at "
         "hour/second/nanosecond distance from each bound.",
    design="4/C18",
    note="instants abstracted to their order (strictly monotone materializations, whole-second anchor because X.509 times have second "
         "resolution); log-list intervals have both ends or are absent; empty list / empty interval refusals recorded as named clauses.",
    technique="TLA+ case-analysis spec + TLC exhaustive enumeration of the bounded domain; spec->code replay of every case into three "
              "real components with sub-second boundary materializations",
)
CHECKS["C02"] = dict(
    category="model_checking",
    text="ChainAdmission.tla states admission from the property text (links, anchoring in the trusted pool, order, leaf filters, poison "
         "kind vs endpoint, allowed validated paths) next to the code-shaped path search, and TLC proves them equal on every state; "
         "states are 28 base chains x every single (thorough: double) perturbation x 7 trusted pools over a hierarchy with two roots, "
         "re-issued/renamed/cross-signed roots, cross-signed and pre-issuer intermediates, forged twins and unparsable certificates, with "
         "all 2160 option combinations x 2 endpoints evaluated per state; every state is replayed into ctfe.ValidateChain/IsPrecertificate "
         "and add-chain/add-pre-chain of configured instances comparing verdict and returned path certificate by certificate.",
    design="4/C02",
    note="signature soundness; hierarchy depth <=5; name constraints/path length/policies are disabled by the code and not modelled; "
         "through HTTP 'now' is only before/after every NotAfter (an instance reads the system clock), boundary 'now' only on "
         "ValidateChain; full option table on two chains per leaf in quick; named clauses NoRepeat, TrustedLeafAlone, TrustedLastEndsPath.",
    technique="TLA+ case-analysis spec + TLC exhaustive enumeration with model-level equivalence of text-shaped and code-shaped "
              "predicates; spec->code replay with std-crypto-generated PKI (mixed algorithms) into the Go API and the HTTP endpoints",
)

CHECKS["C12"] = dict(
    category="model_checking",
    text="LogClient.tla (adversarial server answering every request of the nine client.LogClient methods with [status, body class]; "
         "ideal RFC 6962 client with history variable Returned; invariants OnlyVerifiedSTH, OnlyVerifiedSCT, ErrorsCarryResponse, "
         "NoPartialResults) is model-checked exhaustively by TLC over methods x statuses {200,204,301,400,404,429,500} x body classes, "
         "repeated submissions and sequences of calls; every completed call, two-call sequences and the entry-decoder table are "
         "exported and replayed into real client.LogClient instances (ECDSA P-256 and RSA 2048 keys, DER and PEM) behind a scripted "
         "RoundTripper that renders each class with real keys, chains (incl. precertificates and pre-issuers) and independent encoders; "
         "every returned STH/SCT is re-verified with std crypto against the submitted chain, errors are checked for status and body, "
         "the entry decoder is run on the spec's classes and on seeded mutations with byte-exact re-encoding.",
    design="4/C12",
    note="Signature soundness assumed (tokens in the spec, real keys in the harness). Single-deviation class catalogue plus a few double "
         "ones. Classes on which the property is silent are only held to 'what is returned verifies': JSON followed by junk, missing "
         "optional fields / null on unsigned endpoints, malformed leaves via GetRawEntries, an SCT answer without id, stale fields kept "
         "across retried submissions, whether GetEntries decode errors carry the HTTP response. 301 is answered without Location. Retry "
         "pacing is C13's. TemporalLogClient routing is not exercised.",
    technique="TLA+ spec + TLC exhaustive model checking; case/behaviour export (-workers 1, cover view); spec->code replay with an "
              "independent verification oracle (harness/ref + std crypto); seeded mutation of decoder inputs with re-encoding oracle",
)

CHECKS["C20"] = dict(
    category="model_checking",
    text="Migrillian.tla (source log, pre-ordered destination, controller passes with consistency gate, embedded fetcher with "
         "short reads, submitters with quota back-off, mastership, cancellation/restart, counted fault oracle) is model-checked "
         "exhaustively by TLC for Mirror/Bounded/Gate/NoConflict/QuotaRetried/Complete/VerbatimBad and for Progress under weak "
         "fairness. TLC-simulated behaviours are replayed as fault schedules into the real core.Controller (Run/RunWhenMaster, real "
         "client.LogClient over an in-process source log with real signed STHs, entries and RFC 6962 proofs, reference pre-ordered "
         "backend) under synctest virtual time and -race. Traces of random scenarios are validated by MigrillianTrace.tla with all "
         "invariants on. Every AddSequencedLeaves request and the final destination are judged index by index by reference code.",
    design="4/C20",
    note="Hash/signature soundness (tokens in the spec, real trees/keys in the harness). Source <=4 (+2), batch 1..3, "
         "fetchers/submitters 1..3, <=2 faults exhaustively (3 in simulation and random runs). Unparsable means well-formed TLS "
         "structures with bad certificate bytes. SHA256_LEAF_INDEX little-endian encoding is taken from the code. Source never "
         "smaller than the destination. NoConsistencyCheck off.",
    technique="TLA+ spec + TLC exhaustive safety and liveness; spec->code replay of simulated fault schedules; code->spec trace "
              "validation with silent-step search; oracle-free runtime monitors; testing/synctest virtual time",
)

NOT_YET = {}

# ---- additions of the third session (appended to the entries above at generation time) ----
EXTRA = {
 "C12": dict(
  text=" TemporalClient.tla (temporal log of 1..3 contiguous shards, each with its own key, NotAfter window from common/Temporal.tla and its own adversarial server; AddChain/AddPreChain route by the first element's NotAfter to exactly one shard's LogClient, GetAcceptedRoots fans out and merges in completion order) is model-checked exhaustively (RoutedToOneShard, OnlyVerifiedSCT per routed shard - an SCT valid for a neighbouring shard is refused -, RootsUnion/RootsTerminate, NoCrossTalk/PausesAreLocal, ErrorsCarryResponse, NoPartialResults); every exported routing case, server-class case, submission sequence and roots schedule is replayed into a real client.NewTemporalLogClient under testing/synctest through a RoundTripper routing by host to scripted per-shard servers with real keys and chains at, before and after every shard boundary; gate-controlled completion orders for the fan-out.",
  note=" Temporal client: bounds and instants on whole seconds (sub-second bounds are C18's); named clauses LaxFirstElement and FanOut; order of returned roots and which failed shard's error comes back are not asserted.",
  technique="; shard-list x instant x server-class case export for the temporal client, gate-controlled completion-order replay and virtual-time pacing comparison (go1.26 synctest), TLC liveness for fan-out termination"),
 "C14": dict(
  text=" The storage layer of ChainStore.tla is parameterised by Dialect (memory / mysql / postgresql: de-duplication by rewrite, by swallowed duplicate-key error 1062, by ON CONFLICT DO NOTHING; hard and soft storage error classes) with DedupIsSuccess, FirstAddInserts, AddErrorIs5xx, FindErrorIs5xx, MissingRowIsError, SoftFaultInvisible checked for every dialect; behaviours are replayed with the repository's REAL MySQL and PostgreSQL IssuanceChainStorage (hook H5) on an in-process database/sql driver (harness/sqlfake: dialect placeholders, primary key, the drivers' own error values, per-statement fault injection incl. real context cancellation and driver.ErrBadConn), comparing every storage-layer answer and the database's de-duplication path step by step.",
  note=" SQL servers are replaced by harness/sqlfake (a statement interpreter for the statements each implementation sends; database/sql itself is real): wire protocol, driver encoders and server transactions are out of scope.",
  technique="; the real SQL storage implementations replayed on an in-process database/sql driver with statement-level fault injection"),
 "C15": dict(
  note=" NotAfter bounds are (seconds, nanos) rank pairs with out-of-range classes for both components; all 961 windows are swept over every base configuration and replayed in four monotone concrete spellings (adjacent values, ends of the timestamp range, around the half second, around the int64-nanosecond horizon); merge delays in five int32 scales; named clause ValidatedCarriesWindow (an accepted configuration carries its bounds to the nanosecond)."),
 "C16": dict(
  text=" ScannerFanout.tla: case analysis of complete scans whose outcome does not depend on scheduling (tree <= 24, batch 1..16, reply policies full / cap k / align k / half, 1..4 fetchers, 1..6 matcher workers, channel capacity 0..16, six matchers, PrecertOnly); TLC checks partition and fan-out laws on every case and exports a deterministic cover of (batch length x matcher workers x capacity) classes plus seeded random cases; each runs through the real Scanner.Scan / Fetcher.Run on the log content the specification prescribes and the callbacks must equal the specification's.",
  technique="; TLA+ case-analysis spec of the scanner fan-out with class-cover export and replay of every case"),
 "C19": dict(
  text=" Requests carry a spelling of the log id (configured, trailing bits, CR/LF, unpadded, URL-safe, blank; named clause AliasIsUnknown) and a storage fault (COMMIT fails, INSERT fails, all statements fail, cancelled context); the exhaustive check covers all reachable states x requests x spellings x faults (CosignedHeld, CosignedForward, FaultedStoreRefused, OneHistoryPerLog); faults are injected for real through a second sqlite connection holding SHARED / RESERVED / EXCLUSIVE locks, in replay per request and in concurrent traces as logged fault windows; an independent monitor judges stored rows and cosigned replies per decoded 32-byte log id.",
  note=" Faults limited to what a second sqlite connection or a pre-cancelled context can cause (rollback-journal mode, _busy_timeout=0); named clauses AliasIsUnknown and StorageErrorIsError.",
  technique="; storage-fault actions and id-spelling dimension with real lock-fault injection; oracle-free per-identity history monitor"),
 "C13": dict(
  note=" All three HTTP-date forms (IMF-fixdate, RFC 850, asctime) are materializations of rak=date; a runaway guard ends a submission after 3000 requests (reported as runaway-retries)."),
 "C09": dict(
  note=" Reused-destination law: every successful decode is repeated into a destination that holds another value of the type."),
 "C08": dict(
  note=" Body classes of the submission endpoints include a complete admissible JSON object followed by other non-blank bytes (jsonThenGarbage, jsonTwice)."),
 "C01": dict(
  note=" EntryShapes.tla adds the position of the poison extension (last / directly before the authority key identifier / first) for direct and pre-issuer precertificates."),
 "C11": dict(
  note=" Degenerate-payload mutations (empty BIT STRING, empty SEQUENCEs, emptied extnValue, empty RDN / attribute value) are 'free' cases: any coherent outcome, no panic."),
}
EXTRA2 = {
 "C02": dict(
  technique="; history specification ChainAdmissionLog.tla (a log serving requests while the clock advances; JudgedAlone, NothingRemembered, ConfigFixed, Repeatable, WhenShape), model-checked exhaustively on a small instance and refuted by TLC on two negative instances (clock of the first request pinned; verdict memo keyed by leaf); TLC-simulated walks replayed under virtual time (go1.26 synctest, -race) on fresh instances and on one re-used options value per log: in order, reversed at the final instant, concurrently; argument, options and trusted-pool purity asserted",
  note=" Expiry filters are judged at the instant of each request incl. now == NotAfter on configured instances (named clause PinnedTime); the time/history dimension is sampled (300 walks quick, 3000 thorough); one model instant is one second."),
 "C05": dict(
  technique="; SigVerifyHist.tla: verification as a function of its arguments over sessions (Function, ArgsKept, DestFree) with an explicit coarse-memo model and exposure bookkeeping; sessions replayed on caller objects re-used in place and long-lived verifiers, sequentially, then a sample in parallel and on shared objects under -race",
  note=" The history layer is simulation (TLC random walks; every one-component memo must be exposed by the walk set of each run) plus an exhaustive 2-call configuration in the thorough tier; named clauses LeafTimestampAdjusted (LogInfo.VerifySCTSignature writes the SCT's timestamp into the caller's leaf, as documented) and LeafHashFunction."),
 "C10": dict(
  technique="; TLC-simulated call histories (Asn1LaxHist.tla, destination-slot model) replayed into the fork and encoding/asn1 with re-used destinations and buffers, a sample concurrently under -race; time forms (zone offset x 1950/2050 boundary) in the case space; Marshal agreement with encoding/asn1 on every decoded value",
  note=" Unmarshal/Marshal are checked as functions of their arguments on 600 (thorough 8000) random histories per run; named clauses AbsentOptionalKeeps, TagByWrittenYear / ZoneOffsetRoundTrip, MarshalAgrees (SET OF excepted); nothing is asserted about the destination of a rejected call."),
 "C11": dict(
  technique="; extension ORDER as a case dimension (all permutations for <= 3/4 extensions, six schemes beyond; UnhandledIsOrderFree); history machine (Functional, PerCertificate, ArgsIntact) checked exhaustively on 2-call histories and TLC random walks over equal-layout neighbours in fresh / own / shared buffers replayed serially and on 8 goroutines under -race; oracle-free purity law (b after a in one buffer, twice, later = alone) on all twelve entry points",
  note=" The history law is tautological in the model (no state by construction): its value is the generated sequences, the expected identities and the relation-coverage vacuity guard."),
 "C12": dict(
  technique="; the adversarial server has a memory (replays earlier bodies or signature bytes over other tree heads / chains / kinds: NoCreditForHistory); three-call histories replayed on one long-lived client and on a fresh client per call (results must agree); client key options der / pem / bothSame / bothDifferent (named clause DERWins)"),
 "C15": dict(
  technique="; history layer LogConfigHist.tla: TLC-drawn sessions of validations in one process (frozen STH presented component by component with ideal signatures; ghost-checked exposure of every verdict-relevant component as stale accept and stale reject) replayed sequentially into the three validators, the loaders and SetUpInstance / get-sth; named spellings of a non-verifying frozen STH (timestamp, size, root, signature or key altered, genuine signature bytes)"),
 "C20": dict(
  text=" Empty get-entries pages are a counted fault (emptyPage; named clauses EmptyPageHandedOn / EmptyRequestRefused: the reference destination refuses a request without leaves as Trillian v1.7.1 does), PosCovered (a pass reported successful leaves no hole below the position handed on) is part of Safety, and trace validation names abandoned ranges through the defect step AbandonRanges (convicted by Complete at Return nil and NoGap at the next GetRoot).",
  note=" Over-long pages are not modelled; trace validation also accepts dropping an empty batch and asking again (SkipEmpty)."),
}
EXTRA3 = {
 "C01": dict(
  text=" CTFE.tla now has several front end instances with own clocks set to any value (ClockSet: backward steps, skew between instances), signer faults, refused backend calls and lost replies with retries (DupIgnoresClock, StoredNeverRestamped, SCTOnlyOn200); EntryShapes.tla opens the value-dependent fields of the submitted TBSCertificate (notBefore / notAfter on both sides of 1950 / 2000 / 2050 and in 9999, serial numbers around the sign octet and at 20 octets, a multi-octet OID arc; law FieldsVerbatim) and the validity / serial forms are read back from the served leaf."),
 "C06": dict(
  text=" The log signer is a fault-injecting device obtained through trillian's key-handler registry; the signature cache is modelled per front end (STHVerifies, SignedHeadCoherent, FailedRequestLeavesNothing; non-vacuity shown by CTFESignDefect.cfg, which TLC must refute); concurrent Inv / Call / Ret histories of two instances with staged overlaps are validated by CTFETrace.tla.",
  technique="; code->spec trace validation of concurrent runs of two instances under -race"),
 "C08": dict(
  text=" Schedules: a backend call is parked inside the backend while further (mostly identical) requests arrive, then failed; CTFETrace.tla demands that every reply be explained by the request's own backend call (OwnBackendCall, SharedFetch clause for get-sth). The echoed leaf is opened field by field (version, leaf_type, entry_type incl. 32768, zero-length ASN.1Cert / TBSCertificate vectors, nothing after an unknown leaf_type: 80 well-framed non-leaves x 2 submission endpoints x position x masking).",
  note=" Named unasserted clause EchoVersionUnasserted (only the version octet of the echoed leaf deviates: the front end answers 200; executed and recorded, not judged).",
  technique="; trace validation of gated concurrent fault schedules"),
 "C03": dict(
  technique="; DER primitives (INTEGER by value, lengths, OID subidentifiers) specified with round-trip / minimality laws; serial numbers by value at the two's-complement boundaries (both signs, 1-21 octets), unknown-extension arcs and value lengths at their encoding boundaries; SCT kinds = log key type / hash x signature form (trailing octets after a DER ECDSA value accepted, non-DER / cut / RSA with an extra octet rejected) x signed entry, verdict compared with ctutil.VerifySCT (default key policy) and VerifySCTWithVerifier (opt-in) on both routes"),
 "C04": dict(
  text=" EntryOfChain.tla (on Precert.tla) states the entry of a chain of REAL certificates: route (x509 / precert / embedded) x api (parsed / raw) x issuance incl. three kinds of precertificate signing certificate x how much of the chain is passed x notBefore / notAfter on both sides of 1950 and 2050 x subject / CA key types x poison position x timestamp x SCT extensions (laws ValidityVerbatim, IssuerCoherent, OnlyMarkGone, RoutesAgree, TailIrrelevant, ApiIrrelevant, ExistsIffIssuerPassed); every case is issued with std crypto/x509, derived by ct.MerkleTreeLeafFromChain / FromRawChain / ForEmbeddedSCT and compared component by component with the specification and byte for byte (leaf, leaf hash, SCT signature input) with harness/ref."),
 "C05": dict(
  technique="; shape of the precertificate chain as a case dimension (issuance direct / via a precertificate signing certificate of three kinds x poison or embedded SCT list last / before the AKI / first; ShapeIrrelevant) with the signed TBSCertificate derived by harness/ref; unencodable field values as refused calls; a second explicit non-function Residue (what a refused serialization emitted is taken up by the next call) next to Memo(x), refused presentations and interludes as session steps, the 'glued' value form"),
 "C09": dict(
  technique="; function law over concurrent callers: TLSCodecConc.tla (rounds = solo call | wave | solo call on fresh types; FunctionLaw under the sound per-type-memo disciplines, refuted with class probes for publish-then-fill / fill-while-walking / shared-scratch; liveness Completes), rounds replayed on reflect.StructOf types renamed per execution, without and with -race; executed round classes must cover the exposing classes of every refuted discipline",
  note=" No hooks inside tls: interleavings within a wave are the scheduler's; data races judged by the Go race detector."),
 "C10": dict(
  note=" Tag-class dimension: explicit / implicit x {context, application, private, both} x tag numbers x optional / default on struct members and in the top-level parameter string (both option orders); wire class of every tagged member as an input defect; ReadClass / WriteClass tables re-confirmed against encoding/asn1; ClassQuirk members exempt from RoundTrip.",
  technique="; UnmarshalWithParams / MarshalWithParams with the root node's parameters in fork and encoding/asn1; class-bit byte mutations"),
 "C11": dict(
  technique="; X509ParseKeys.tla: key containers as nested parsers (KeyCoherent, NoTypedNil with the pass-through wrapper refuted by TLC, RejectionSurfaces, FindingPolicy), 981 cases of entry point x key kind x 121 defects replayed into the six key / request parsers with typed nils counted as mixed outcomes in every law; X509ParseFirstUse.tla: sync.Once gate for lazily built package state (ReadsOnlyReady, FirstUseFunctional, BuiltOnce, Termination; the barrier-less fast path refuted), 16 plans of coinciding first uses executed in fresh child processes under the race detector and without",
  note=" Named clauses N5 (secp192r1 is a finding), S1 (EC scalar padding ignored), StdEllipticInit (go1.23 crypto/elliptic's own race on the custom-curve path is counted, not judged)."),
 "C13": dict(
  text=" RetryWire.cfg checks all clauses over every wire kind (redirect chains converting / preserving the POST, loops), body spellings and http.Client redirect policies (Seen(hc, w, sp)); every replayed behaviour / recorded trace carries the client's http.Client configuration and the spelling of each 200 body (the trace spec, not the harness, decides the class seen).",
  note=" http.Client configurations nil / plain / own CheckRedirect (pass, bound, ErrUseLastResponse, refuse) / Jar / Timeout; a refused redirect may be retried or returned as its 3xx (RefusedIsNotOK), a handed-back 3xx is a status (UseLastIsStatus); 10 legal JSON spellings of the correct body are class ok, 11 others (incl. unpadded / URL-alphabet base64, trailing bytes) are unparsable; success must carry the content of that very response."),
 "C17": dict(
  text=" ProxyLifecycle.tla specifies which list a submission runs against (refresher read / compare / parse, LogListManager ticker goroutine and its capacity-1 channels, proxy loop with builder / swap under distMu / Init, one root refresher per distributor generation, submissions reading p.dist, cancellation anywhere); TLC checks TwoLatest, ActiveMonotone, KeepOnFailure, NoneUntilInit, UsesActive, InitOnce, OldRefresherCancelled, PairNotStuck exhaustively on component-wise configurations and Converges / Unblocks / LoopExits / RefreshersStop under fairness; NoTickerLeak, StrictStop, TickerStops are named observations that TLC refutes. TLC-simulated schedules are replayed against the real NewProxy + NewLogListManager + NewCustomLogListRefresher under virtual time with gates at list read / builder / get-roots / add-chain; every recorded run is validated by ProxyLifecycleTrace.tla with quiescence at each observation; an ungated concurrent run under -race is judged by order-based UsesActive / NoneUntilInit monitors.",
  note=" Proxy life-cycle: 3-log catalogue and <= 2-4 emissions in exhaustive runs, 6-log / 5-version catalogue in replay; root knowledge per generation all-or-nothing; loadPendingLogs=false."),
 "C18": dict(
  technique="; every case is materialized in every FRAME exported by the specification: ticks pinned to 0000-01-01, 0001-01-01 (protobuf minimum = zero time.Time), 1950, 1970, 2038, 2050, 2262 and 9999-12-31T23:59:59Z as well as an ordinary instant; the configured-instance route is driven by the spec's ConfigAccepts / ConfiguredAdmits; routing is compared with the configured instance; NotAfterForLog is checked against the window",
  note=" Absent bounds: AbsentBoundExcludesNothing plus the refuted observation CompletionIsWindow (differs exactly at t = Last); named clauses EmptyWindowConfigurable and ChooserInside."),
 "C19": dict(
  technique="; replayed-signature candidates (over field), offered history variable and history cover (offered-before x offered-now), replayed signatures in concurrent traces (ReplayedSigRefused, ReplayedLikeBadSig, HeldWasOffered)"),
 "C02": dict(
  technique="; options as configured (MCChainAdmissionCfg: every EKU list up to 3/4 names incl. 'Any' at every position and duplicates, forbidden-extension lists; laws ListShape / order-free / AnyOpens) replayed through ValidateLogConfig, instance set-up and NewCertValidationOpts; key identifiers and decoy look-alike roots (renamed key / re-keyed name) in 4 decoy pools with the code-shaped candidate lookup proved equal to the property; pools materialized in both orders",
  note=" Named clause KeyIdsAgree (hierarchies whose key identifiers agree as RFC 5280 4.2.1.2 prescribes)."),
}
EXTRA4 = {
 "C12": dict(
  technique="; client construction as part of the specification: 81 key options (key material in every form x either option x interplay) checked against ConstructionLaw, each given to client.New and probed; 48 precertificate chain shapes (signer x poison position x last extension x notAfter form) submitted through add-pre-chain with the expected entry from harness/ref",
  note=" Named clauses LenientMaterial, OnlyKeyItHas; sequences only under the four standard key options."),
 "C14": dict(
  text=" ChainStore.tla now models a process serving several logs (own backend, table and cache each, caches from the repository's constructor with equal options: LogsIndependent, AckedIsStored, AckedServable, CacheStandsForStored), the resubmission after a failed storage.Add, and get-entries pages under four completion orders of the per-leaf work with a leaf garbled by the backend (RangeOrderIrrelevant, GarbledLeafIsError); three named model defects (cacheOnFailedAdd, sharedCache, pageLastWins) are refuted by TLC.  Every cache write is judged against the storage calls of its own request; every stored chain is decoded by an independent DER reader; C01, C06, C07 and C08 run the same replay and page matrix through ctfe_common.external_storage."),
 "C16": dict(
  technique="; case analysis ScanClasses.tla over entry kind x defect sets of a layered catalogue (DER / field / fatal; TolerableComposes), replayed with real DER through Scanner.Scan, all logs of the other stages hold every class; a reduced run of the Migrillian conformance part decides the controller's use of the Fetcher (continuous passes, submitter faults)"),
 "C17": dict(
  technique="; outcome = the pair (sct, err), sessions (positive-weight members) as the quantifier of a race, weight-operation histories (SubmissionWeights.tla: RefusedChangesNothing, GroupsStayViable) replayed on long-lived groups with submissions; wire reply classes replayed through real log clients (BuildLogClient) behind a real Distributor with independent per-SCT verification",
  note=" The pair (SCT, error) is not scripted as a Submitter outcome (no Submitter of the repository returns it; named model clause ErrorWins); restricted sessions exhaustive on Duo / Apple (quick) and Chrome N=2 safety (thorough); 560 wire cases."),
 "C19": dict(
  technique="; header cover (hash byte x signature-algorithm byte, 70 headers) x form of the signature bytes (genuine SHA-256 bytes, garbage, made by the log key over the unhashed content, crafted from the public key alone for an unhashing ECDSA verifier) x ECDSA log and RSA log (ExactHeaderOnly, OtherHeaderRefused, named clause NoHashNoSignature)"),
 "C20": dict(
  text=" The configured range is a scenario dimension: start_index x end_index x one-shot / continuous on a source whose get-entries serves more than its announced STH covers (clause RangeWithinSTH, named clauses ContIgnoresRange and RangeIsTheJob); MigrillianNoClamp.cfg must be refuted by TLC (Bounded); trace validation names overruns through the defect step OverrunRange."),
}
# round 6 / 7 extensions (session 3, late)
EXTRA5 = {
 "C03": dict(
  technique="; reading clause OwnOctetsOnly (what a reader reports about a certificate is a function of its own octets): certificates as records of their OPTIONAL parts, a carrying reader refuted by TLC (MCPrecertBundleRefute.cfg), all bundles of 9 kinds (length <= 3 quick / <= 4 thorough) read through 9 entry points (singular / plural, certificate / TBS, DER / PEM / leaf entry) and compared position by position with the embedded list, ContainsSCT and the same octets read alone",
  note=" Unique identifiers and algorithm parameters are observed only differentially."),
 "C04": dict(
  technique="; sibling entry points as dimensions of RFC6962Wire.tla: stored-leaf builders (ExtraDataForChain, BuildLogLeaf, ExtraDataForChainHash, BuildLogLeafWithChainHash; chains of 0, 1, many certificates; hashes nil .. 257 bytes; alone and behind add-chain / add-pre-chain + get-entries of a real instance in direct and indirect mode) and SCT-list readers (the list alone and carried in a certificate extension as OCTET STRING, with trailing byte, wrong tag, absent; through ParseCertificate(s), ParseTBSCertificate, Certificate(s)FromPEM, ParseSCTsFromCertificate DER / PEM, ParseSCTsFromSCTList, ExtractSCT)",
  note=" Named clauses ChainHashStore, NoHashNoReference, ServedIsRFC; a non-fatal parser error counts as an error."),
 "C17": dict(
  technique="; whole log lists behind one distributor (DistributorList.tla: four logs x state x interval x get-roots answer per refresh history x constructor option x policy x method; families R / T / H exhaustive, 12800 cases, S simulated) replayed on NewDistributor(+options) / RefreshRoots / AddChain | AddPreChain under virtual time",
  note=" Named clauses KnownByLastRefresh, OptionKnowsNothing, PendingLoad; every log answers add-chain at once in the list cases."),
 "C06": dict(
  technique="; spec/client/LogInfoClient.tla: one ctutil.LogInfo shared by goroutines against a growing, failing, lying log (calls = Begin / cache read / get-sth served / store / get-proof-by-hash served / Return, the cached STH replaced between any two steps; NeverMissing, SoundIndex, CacheLaw, FetchOnlyWhenNeeded, Terminates; exhaustive for two goroutines, a model defect refuted), simulated behaviours replayed through gates in the RoundTripper under a real client.LogClient (go1.26 synctest, -race), free runs validated by LogInfoClientTrace.tla",
  note=" Shared-LogInfo schedules: exhaustive for 2 goroutines x 2-3 calls x log <= 3 in the model, bound by seeded simulation with 3 goroutines plus trace validation; named clauses LastSetWins, FetchOnlyWhenNeeded, HandedOutStable."),
 "C15": dict(
  technique="; the connection string as a shape (9 leading-word classes x 0 / 1 / 2+ separators x place of the surplus separator x the driver's view of the DSN; 162 shapes, exhaustive x backend x 4 bases, every concrete spelling validated); 'usable' is decided by the repository's own storage constructors up to dialling (klog.OsExit and the MySQL dial hook intercepted) and cross-checked against the specification's StorageOpens; the validated configuration must carry backend and string verbatim",
  note=" Instances for the external backend are not built; 'usable' stops at the point of dialling."),
 "C01": dict(
  technique="; the extended-key-usage LIST of the signing certificate as written (CT alone / before / after anyExtendedKeyUsage / beside specific purposes; real issuers with anyExtendedKeyUsage or a specific purpose only): law EkuMembershipDecides, pre-issuer-ness read off the DER by the harness; an accepted submission must be found in the backend under the SHA-256 of the submitted leaf certificate in every chain storage mode"),
 "C08": dict(
  technique="; x configuration: InstanceOptions.ErrorMapper none / all-declining / partial / total (DeclinedFallsBack, named clause MapperOverrides, assumption MapperNeverSuccess) incl. an error without gRPC status; get-proof-by-hash replies of 1-3 proofs x index order x subset malformed x node position / size (ProofNeverMalformed; named unasserted clause ServedProofUnasserted); absent-part replies of get-entry-and-proof x request shape (first / later / last leaf x tree of 1, 2, 4, 5 leaves; named clause SingleLeafEmptyPath); wrong methods token by token on every endpoint incl. the letter-case variants of GET and POST",
  note=" Matrix 5285 cases; mapper and proof-list dimensions in direct issuance-chain mode only."),
 "C10": dict(
  technique="; 84 string forms per string tag (BMP surrogates, UTF-8 overlong / surrogate / truncated, repertoire neighbours) with verdict and value computed by TLA+ UTF-8 / UTF-16 / repertoire operators; EXPLICIT x target type (RawValue / Flag / bytes / struct / bool) x empty / primitive wrapper x position (followed / last / top level)",
  note=" Named clauses BMPAsUTF16, BMPTerminator, PrintableAsteriskAmpersand, T61IsOpaque, T61Unassigned, ExplicitOpaque, ExplicitPresence, ExplicitNoChild; quick 53.5k cases, thorough 143k + 223k."),
 "C13": dict(
  technique="; retained-results layer of Retry.tla (process history: sent, retained; ResultsAreValues as an action property; RetainedOwn, OneResultPerCall, IdsDistinct): every returned result (error with status and body, *http.Response, body slice, parsed struct, SCT) is kept as handed out and re-rendered after every later return over histories of 6-8 consecutive clients; Return{id} / Inspect{seen} events judged by RetryTrace.tla",
  note=" Bodies of distinct exchanges differ in text and length across the history; clients of one history are consecutive; the context's error carries no response."),
 "C19": dict(
  technique="; set-up as an action (WitnessSetup.tla): every log configuration of up to 4 (thorough 5) entries over 3 keys (any order, any repetition) x set-up path (witness.New / the built witness binary via impl.Main, buildLogMap) x witness key kind (P-256, P-384, RSA-2048, Ed25519, X25519) x restarts on another configuration; behaviours replayed into real processes over loopback HTTP with kill / restart on the same sqlite file, per-reply std-crypto monitor",
  note=" Named clauses MuteWitnessStoresNothing, DroppedLogNotServed; what a duplicate entry does to the START of the witness is unasserted."),
 "C11": dict(
  technique="; fourth specification X509ParseList.tla (certificate lists as containers of revoked entries: findings of two ranks collected over entries and list extensions; armour: a reader stage per entry point, Total on 22 armours incl. inputs that only begin like a PEM block); 10052 cases quick / 47800 thorough replayed by TestList into the twelve DER and five PEM entry points; two refuted variants (giveUp -> ListCoherent, no block guard -> Total)",
  note=" Named clauses C1, A1, A2, E1, K1; armour table cross-checked against encoding/pem, clean lists against crypto/x509."),
 "C16": dict(
  technique="; the migration controller as Fetcher user under signer lag (Integrate separate from AddSequenced; ghost subm and invariant NoRepeat over every signer schedule, MigrillianLag.cfg; refutation instance MigrillianRewind.cfg; sleeping-signer simulation replayed on the real Controller; lag scenarios traced, RewindRange / NoRepeat by name)",
  note=" 'Without gaps or repeats' across continuous rounds = PosCovered + NoRepeat per run of Controller.Run; named clause RunStartsFromRoot."),
 "C20": dict(
  technique="; signer lag: ghost subm and invariant NoRepeat over every signer schedule (MigrillianLag.cfg, thorough MigrillianLagFull.cfg), refutation instance MigrillianRewind.cfg, sleeping-signer scenarios replayed and traced; configuration SET dimension (MigrillianConfig.tla, 9395 sets of 1..3 migrations over tree ID x deprecated backend name x source URI x the single-config rules; NoConflictingFeeds, OneTreeOneMigration, SaneAccepted, UsableAccepted; refutation instance Key <- KeyWithBackend) replayed into core.ValidateConfig as a value and through core.LoadConfigFromFile as text and binary files",
  note=" Named clause RunStartsFromRoot (a new run may re-submit what is not yet integrated)."),
 "C18": dict(
  technique="; API-variant dimension of the log-list filter (MCLogFilter.tla: TemporallyCompatible, Compatible, RootCompatible alone and composed in both orders x root nil / CA / not CA x roots knowledge none / accepts / rejects x certificate nil / NotAfter at every tick; VariantIsWindow, VariantsAgree): 2653 lists x 75 calls exported by TLC, replayed on lists built directly in two operator layouts and parsed from JSON, roots collection nil / empty / padded, in every frame",
  note=" Named clauses RootClause and NilCertNothing; a nil pool as roots entry is not materialized."),
 "C02": dict(
  technique="; entries as bytes: every certificate of the 33 base chains at every position in 4 encodings (DER, padded serial / version INTEGER re-signed, padded length) x 5 trailers, and a trusted pool holding a padded root; every case realized in 4 frames of the time line (ordinary before / after the wall clock, 500..1950 and 2049..9999 with both ends of the int64-nanosecond range between leaf and CA NotAfter); 324 NotAfter windows as configured (start / limit absent or at 8 instants, 4 rests) x 8 leaves x every frame x 3 routes",
  note=" Named clauses PaddedIntegersRead, PaddedLengthRefused, PaddedPrecertRefused (observation: add-pre-chain refuses a padded precertificate leaf that ValidateChain accepts; fail-closed, the text is silent); laws EntryLaw, FrameFree, WindowIsTheText."),
 "C05": dict(
  technique="; form of the bytes of a signed log list / DigitallySigned blob as signed x as presented (plain, BOM / white space in front, white space / NUL behind, CRLF, letter case, re-serialised JSON: compact, reordered, escaped): exact bytes only, in both directions; normalising verifiers Strip(x) / Add(x) modelled and shown exposed by the table (TLC ASSUME NormExposed); the form is a component of the history layer",
  note=" Named clauses ExactBytes, ListIsJSON (NewFromSignedJSON: verify, then parse; a parse refusal is not a verification failure)."),
 "C09": dict(
  technique="; family 'bound' of MCTLSCodec.tla (1836 cases): every tag bound at both ends of every width class, 0 included, for maxval, the three spellings of a vector tag, []uint16 and minlen = maxlen, as ...WithParams params, as a member, framed, and as a chosen or unchosen select arm; the random generator draws one-byte bounds from 0 and all tag spellings",
  note=" Named clause MaxlenZeroIsWidth (maxlen:0 is read as 'no range given', symmetrically in both directions); the allocation bound adds 256 B per input byte for vectors of structs."),
 "C14": dict(
  technique="; ChainStorePaging.tla: the page dimension (length classes around powers of two and multiples of 4 x start alignment x cache configuration and state x unfixable-leaf position; per-leaf work split among any workers in any order; PageWhole, UnfixableIsError, PlanIrrelevant; defects tailDropped / laterWorkerErrorLost refuted); simulated behaviours replayed on twin instances over a 300-leaf (thorough 700) tree, every entry of every response byte for byte",
  note=" Page lengths 1..270 (thorough 530) by classes, not every length; alignment modelled for the default flag value."),
 "C07": dict(
  technique="; every shape is also read through client.LogClient.GetEntries (the second observation point of the decoding clause); reads over external storage whose request context ends inside the k-th chain lookup are refused or served whole"),
 "C12": dict(
  technique="; the deployment of the shards as a configuration dimension of TemporalClient.tla (per shard: base URI / frontend and configured key - shared URI with different keys, equal keys, no key; 8 deployments, 3-4 in the quick tier): OnlyVerifiedSCT is stated against the key configured for the routed shard, RoutedToOneShard against its frontend; every case replayed into client.NewTemporalLogClient built from the same assignment, the returned SCT re-verified under that shard's key",
  note=" Named clauses SharedFrontend, UnkeyedShard (a shard without a key is not judged on signed data)."),
}
for _pid, _e in EXTRA5.items():
    EXTRA4.setdefault(_pid, {})
    for _k, _v in _e.items():
        EXTRA4[_pid][_k] = EXTRA4[_pid].get(_k, "") + _v
for _pid, _e in EXTRA4.items():
    EXTRA3.setdefault(_pid, {})
    for _k, _v in _e.items():
        EXTRA3[_pid][_k] = EXTRA3[_pid].get(_k, "") + _v
for _pid, _e in EXTRA3.items():
    EXTRA2.setdefault(_pid, {})
    for _k, _v in _e.items():
        EXTRA2[_pid][_k] = EXTRA2[_pid].get(_k, "") + _v
for _pid, _e in EXTRA2.items():
    EXTRA.setdefault(_pid, {})
    for _k, _v in _e.items():
        EXTRA[_pid][_k] = EXTRA[_pid].get(_k, "") + _v
for _pid, _e in EXTRA.items():
    for _k, _v in _e.items():
        CHECKS[_pid][_k] = CHECKS[_pid][_k] + _v

def main():
    props = [json.loads(l) for l in open(os.path.join(VERIF, "properties.jsonl"))]
    checks, na = [], []
    for p in props:
        pid = p["id"]
        if pid in CHECKS:
            c = CHECKS[pid]
            checks.append({
                "property_id": pid,
                "quick_cmd": "python3 check/check.py %s --tier quick" % pid,
                "thorough_cmd": "python3 check/check.py %s --tier thorough" % pid,
                "evidence_file": "/verif/evidence/%s.json" % pid,
                "replay_cmd_template": "python3 check/check.py %s --replay {path}" % pid,
                "engine": "tla-conformance",
                "level_claimed": {"category": c["category"], "text": c["text"], "design_ref": "DESIGN.md section " + c["design"]},
                "level_note": c["note"],
                "technique": c["technique"],
            })
        else:
            na.append({"property_id": pid, "reason": NOT_YET.get(pid, "check not built yet in this session (planned in DESIGN.md section 4); no claim is made until the TLA+ specification and its conformance binding exist and run clean")})
    m = {
        "version": 1,
        "setup_cmd": "sh check/setup.sh",
        "hooks": {
            "guard": "verif",
            "enable": "go build/test -tags verif (the harness module in /verif/harness replaces the repository module with /repo)",
            "baseline_off_cmd": "cd /repo && go build ./... && go test -vet=off -count=1 -timeout 25m ./...",
            "source_commits": [l.strip() for l in open(os.path.join(VERIF, "check", "hook_commits.txt")) if l.strip()],
            "add_only": True,
        },
        "engines": [{
            "name": "tla-conformance",
            "path": "check/check.py",
            "serves_properties": sorted(CHECKS),
            "kind_free_text": "explicit TLA+ specifications (spec/) model-checked with TLC, bound to the Go code by replaying "
                              "TLC-generated behaviours/cases into the real code and validating traces recorded from the real "
                              "code against the specification (harness/, Go; driver check/vlib.py)",
        }],
        "checks": checks,
        "not_applicable": na,
        "notes": "exit 0 held / exit 1 VIOLATION (unknown to KNOWN_FINDINGS.json) / exit 2 infrastructure failure. "
                 "VERIF_SEED seeds TLC simulation and the harness drivers.",
    }
    with open(os.path.join(VERIF, "MANIFEST.json"), "w") as f:
        json.dump(m, f, indent=1)
        f.write("\n")

if __name__ == "__main__":
    main()
