#!/bin/sh
# MANIFEST.setup_cmd: build the framework from files on disk only (offline).
set -e
cd "$(dirname "$0")/.."
export GOFLAGS=-mod=mod GOPROXY=off GOSUMDB=off GOTOOLCHAIN=local CGO_ENABLED=1
cp /repo/go.sum harness/go.sum
mkdir -p evidence .work
# syntax/semantic check of every specification module
fail=0
JTMP=$(mktemp -d)   # SANY leaves SANY<n> directories in java.io.tmpdir
for d in spec/*/; do
  T=$(mktemp -d)     # a module is checked next to the shared modules of spec/common, as the driver runs it
  cp spec/common/*.tla "$T"/ 2>/dev/null || true
  cp "$d"*.tla "$T"/ 2>/dev/null || true
  for f in "$d"*.tla; do
    [ -f "$f" ] || continue
    m=$(basename "$f")
    if ! (cd "$T" && java -Djava.io.tmpdir="$JTMP" -cp /opt/veriftools/tla/tla2tools.jar:/opt/veriftools/tla/CommunityModules-deps.jar tla2sany.SANY "$m" >"$JTMP/sany.out" 2>&1); then
      echo "SANY failed: $f"; tail -5 "$JTMP/sany.out"; fail=1
    fi
  done
  rm -rf "$T"
done
rm -rf "$JTMP"
[ $fail = 0 ] || echo "WARNING: some specification modules do not parse (work in progress); their checks will report exit 2"
# compile the harness (warms the build cache; checks rebuild against /repo on every run anyway)
(cd harness && go vet -tags verif ./... >/dev/null 2>&1 || true)
(cd harness && go test -tags verif -count=1 -run 'TestMerkleCrossCheck' ./ref)
if [ -d harness/vt ]; then (cd harness && go1.26 vet -tags verif ./vt/... >/dev/null 2>&1 || true); fi
echo setup ok
