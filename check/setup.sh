#!/bin/sh
# MANIFEST.setup_cmd: build the framework from files on disk only (offline).
set -e
cd "$(dirname "$0")/.."
export GOFLAGS=-mod=mod GOPROXY=off GOSUMDB=off GOTOOLCHAIN=local CGO_ENABLED=1
cp /repo/go.sum harness/go.sum
mkdir -p evidence .work
# syntax/semantic check of every specification module
fail=0
JTMP=$(mktemp -d)   # SANY leaves SANY<n> directories in java.io.tmpdir
for f in spec/*/*.tla; do
  d=$(dirname "$f"); m=$(basename "$f")
  if ! (cd "$d" && java -Djava.io.tmpdir="$JTMP" -cp /opt/veriftools/tla/tla2tools.jar:/opt/veriftools/tla/CommunityModules-deps.jar tla2sany.SANY "$m" >/tmp/.sany.$$ 2>&1); then
    echo "SANY failed: $f"; tail -5 /tmp/.sany.$$; fail=1
  fi
  rm -f /tmp/.sany.$$
done
rm -rf "$JTMP"
[ $fail = 0 ] || echo "WARNING: some specification modules do not parse (work in progress); their checks will report exit 2"
# compile the harness (warms the build cache; checks rebuild against /repo on every run anyway)
(cd harness && go vet -tags verif ./... >/dev/null 2>&1 || true)
(cd harness && go test -tags verif -count=1 -run 'TestMerkleCrossCheck' ./ref)
if [ -d harness/vt ]; then (cd harness && go1.26 vet -tags verif ./vt/... >/dev/null 2>&1 || true); fi
echo setup ok
