#!/bin/sh
# usage: seedloop5.sh <root> <props...>
root=$1; shift
cd /verif
for p in "$@"; do
  for m in $root/out-$p/m*; do
    [ -f "$m/patch.diff" ] || continue
    n=$(basename $m)
    out=/verif/.work/seed-results/$p-$n.json
    [ -s "$out" ] && continue
    echo "python3 /verif/check/seedtest.py $m $p > $out 2>/verif/.work/seed-results/$p-$n.err"
  done
done | xargs -P 3 -I{} sh -c "{}"
