#!/bin/sh
# loops until /verif/.work/seedloop.stop exists; runs seedtest for every delivered round-3 change not yet tested
while [ ! -f /verif/.work/seedloop.stop ]; do
  SEEDROOT=/tmp/seed3 sh /verif/check/seedbatch.sh $(cat /verif/.work/seedloop.props) > /verif/.work/seed-results/loop.log 2>&1
  sleep 45
done
