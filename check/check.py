#!/usr/bin/env python3
"""check.py <ID> [--tier quick|thorough] [--seed N] [--replay path]

Decides one property of /verif/properties.jsonl on /repo's current working tree.
See vlib.py for the exit codes and DESIGN.md for what each property's check does.
"""
import importlib
import os
import sys

sys.path.insert(0, os.path.dirname(os.path.abspath(__file__)))
import vlib  # noqa: E402


def main():
    if len(sys.argv) < 2:
        print(__doc__)
        sys.exit(2)
    prop = sys.argv[1].upper()
    try:
        mod = importlib.import_module("props." + prop.lower())
    except ImportError as ex:
        print("no check for %s: %s" % (prop, ex))
        sys.exit(2)
    vlib.main(mod.run, prop, getattr(mod, "LEVEL", "model_checking"))


if __name__ == "__main__":
    main()
