"""C01 - an issued SCT binds exactly the submitted entry, the stored leaf and the log key.

spec/ctfe/CTFE.tla (AddChain over the de-duplicating backend; invariants DupStable, SCTBindsStored).  Binding: TLC
behaviours (fresh and repeated submissions interleaved with clock ticks, sequencing and reads) replayed into a real
ctfe.Instance; the QueueLeafRequest seen by the backend, the SCT (id, timestamp, signature) and the RequestLog calls
are compared with the specification and with independent encodings / std crypto.

Histories, clocks, faults: the log is served by two front end instances over one backend (same key), each with its own
clock that the specification sets to any value (ClockSet: forward, backward, behind / ahead of the other instance), so
a duplicate reaches a front end whose clock reads earlier than, equal to or later than the stored timestamp
(DupIgnoresClock, StoredNeverRestamped); a submission can fail at the signer, at a backend that refuses the call, or
after the backend stored the leaf (lost reply), and is then retried through either instance (SCTOnlyOn200).
"""
import json

from props import ctfe_common


def run(ctx, replay=None):
    if replay:
        with open(replay) as f:
            beh = json.load(f)["replay"]["behaviour"]
        path = ctx.write_ndjson("replay.ndjson", [beh])
    else:
        behs = ctfe_common.model_and_behaviours(ctx, 1500, 30000)
        path = ctx.write_ndjson("behaviours.ndjson", behs)
    ctx.go_test("cctfe", run="TestReplay$", env={"VERIF_BEHAVIOURS": path, "VERIF_PROP": "C01"}, timeout=3000)
    if not replay:
        # the certificate token opened: SCT over the independently derived entry for every shape of submission
        # (cross-signed roots, pre-issuers with either AKI form, key types, non-fatal oddities, chain storage modes)
        ctfe_common.entry_shapes(ctx, "C01")
