"""C01 - an issued SCT binds exactly the submitted entry, the stored leaf and the log key.

spec/ctfe/CTFE.tla (AddChain over the de-duplicating backend; invariants DupStable, SCTBindsStored).  Binding: TLC
behaviours (fresh and repeated submissions interleaved with clock ticks, sequencing and reads) replayed into a real
ctfe.Instance; the QueueLeafRequest seen by the backend, the SCT (id, timestamp, signature) and the RequestLog calls
are compared with the specification and with independent encodings / std crypto.

Histories, clocks, faults: the log is served by two front end instances over one backend (same key), each with its own
clock that the specification sets to any value (ClockSet: forward, backward, behind / ahead of the other instance), so
a duplicate reaches a front end whose clock reads earlier than, equal to or later than the stored timestamp
(DupIgnoresClock, StoredNeverRestamped); a submission can fail at the signer, at a backend that refuses the call, or
after the backend stored the leaf (lost reply), and is then retried through either instance (SCTOnlyOn200).

Entry shapes (spec/ctfe/EntryShapes.tla): besides hierarchy, tail, key type, oddities, storage, poison position, the
value-dependent fields of the submitted TBSCertificate - notBefore / notAfter in 1949, 1950, 1999, 2000, 2049, 2050,
2051, 9999 (first / middle / last second; every ordered pair), serial numbers 1, 127, 128, 2^159-1, an extension
identifier with multi-octet arcs - on an X.509 entry, a directly issued precertificate and precertificates behind
both kinds of precertificate signing certificate (law FieldsVerbatim: the SCT is over, and the leaf equals, the entry
with every such field written as the CA wrote it); and the extended key usage LIST of the certificate that signed the
leaf, as written: the CT purpose alone, before / after anyExtendedKeyUsage, before / after a specific purpose, between
anyExtendedKeyUsage and a specific purpose (precertificate signing certificates), and anyExtendedKeyUsage alone, a
specific purpose alone, both (real issuers) - law EkuMembershipDecides: membership of the CT purpose decides whose key
hash, name and authority key identifier the entry carries, neither position nor company; the harness reads the list off
the DER (cryptobyte), not off any certificate parser.
"""
import json

from props import ctfe_common


def run(ctx, replay=None):
    if replay:
        with open(replay) as f:
            beh = json.load(f)["replay"]["behaviour"]
        path = ctx.write_ndjson("replay.ndjson", [beh])
    else:
        behs = ctfe_common.model_and_behaviours(ctx, 1500, 30000)
        path = ctx.write_ndjson("behaviours.ndjson", behs)
    ctx.go_test("cctfe", run="TestReplay$", env={"VERIF_BEHAVIOURS": path, "VERIF_PROP": "C01"}, timeout=3000)
    if not replay:
        # the certificate token opened: SCT over the independently derived entry for every shape of submission
        # (cross-signed roots, pre-issuers with either AKI form, key types, non-fatal oddities, chain storage modes)
        ctx.assumptions += [
            "entry shapes: validity years {1949, 1950, 1999, 2000, 2049, 2050, 2051, 9999} at the first / last (thorough: "
            "also a middle) second, written as a conforming CA (std crypto/x509) writes them - UTCTime exactly for "
            "1950..2049; serial numbers {1, 127, 128, 2^159-1}; one extension identifier 2.999.2147483647.1; these ride "
            "on 4 representative shapes (X.509, precert direct, precert behind a pre-issuer with keyid / full AKI), "
            "P-256 keys, root omitted, in-backend chain mode",
            "extended key usage lists of the signing certificate: purposes {CT, anyExtendedKeyUsage, serverAuth, clientAuth}, "
            "lists of 1-3 members (10 lists, EntryShapes!EkuSeq) on plain P-256 chains with the root omitted / included in "
            "every chain storage mode of the tier; an X.509 submission under the three real issuers of the dimension too"]
        ctfe_common.entry_shapes(ctx, "C01")
        # "carries the validated chain as extra data" when the chain is carried by hash (external issuance chain storage):
        # what is acknowledged is stored in the table of that log - also after a failed storage.Add and a re-submission,
        # and with several logs in one process (ChainStore.tla behaviours on twin instances)
        ctfe_common.external_storage(ctx)
