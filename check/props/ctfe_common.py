"""Shared by the CTFE-family checks (C01, C06): model check CTFE.tla, simulate, replay."""
from vlib import Infra

ASSUME = [
    "SHA-256 collision resistance, ECDSA/RSA unforgeability (hashes and signatures are tokens in CTFE.tla; the harness "
    "re-attaches real keys, an independent RFC 6962 encoder and its own Merkle tree and verifiers)",
    "the backend is the harness' reference log, a transcription of the observable contract of Trillian's log RPC server "
    "v1.7.1 with de-duplication by identity hash (harness/ctfeenv/backend.go); gRPC transport and SQL storage are out of scope",
    "certificate shapes are those std crypto/x509.CreateCertificate issues (5 X.509 and 4 precertificate chain shapes, "
    "P-256/P-384/RSA-2048/Ed25519 leaf keys, ECDSA and RSA log keys)",
]


def model_and_behaviours(ctx, nsim_quick, nsim_thorough, depth=27):
    ctx.assumptions += ASSUME
    # exhaustive: two front ends with their own clocks (set freely: forward, backward, apart) and signed-head memories
    # over one backend, signer faults, refused backend calls, lost replies; and one front end with a longer clock
    for cfg in ctx.pick(("CTFE.cfg", "CTFEOne.cfg"), ("CTFEBig.cfg", "CTFEOneBig.cfg")):
        ctx.tlc("ctfe", "MCCTFE", cfg, timeout=3000)
    # non-vacuity of STHVerifies: with the ordering defect switched on in the model (the tree head is remembered as
    # signed before the signer has answered) TLC must find a served STH whose signature covers another head
    r = ctx.tlc("ctfe", "MCCTFE", "CTFESignDefect.cfg", workers=4, timeout=600, expect_violation=True, count=False)
    if not r.violated:
        raise Infra("CTFESignDefect.cfg: TLC did not find the stale-signature behaviour in the defective model "
                    "(STHVerifies would be vacuous)")
    r = ctx.tlc("ctfe", "MCCTFE", "CTFESim.cfg", simulate=ctx.pick(nsim_quick, nsim_thorough), depth=depth + 3, count=False)
    behs = r.records.get("BEH", [])
    if not behs:
        raise Infra("simulation exported no behaviours")
    return behs


def concurrent_traces(ctx, prop):
    """Concurrent clients of two front end instances under -race with staged overlaps (a backend call parked inside the
    backend while further requests arrive, then failed); the Inv / Call / Ret history is validated by CTFETrace.tla."""
    import os
    out, outdir, _ = ctx.go_test("cctfe", run="TestConcurrent$", race=True, timeout=3000, name="concurrent",
                                 env={"VERIF_TRACES": ctx.pick(8, 60), "VERIF_ROUNDS": ctx.pick(6, 10),
                                      "VERIF_EPISODES": ctx.pick(4, 6), "VERIF_PROP": prop})
    tr = os.path.join(outdir, "traces.ndjson")
    if not os.path.exists(tr) or os.path.getsize(tr) == 0:
        raise Infra("no concurrent trace recorded")
    n = sum(1 for line in open(tr) if '"ev":"Reset"' in line)
    r = ctx.tlc("ctfe", "CTFETrace", "CTFETrace.cfg", workers=1, env={"TRACE_FILE": tr}, count=False, check=False,
                timeout=3000, label="trace", dfs=True)
    stuck = r.records.get("STUCK", [])
    if r.rc != 0 and not stuck and not r.violated:
        raise Infra("trace validation failed to run (rc=%d)\n%s" % (r.rc, "\n".join(r.out.splitlines()[-25:])))
    if stuck or r.violated:
        import json
        lines = open(tr).read().splitlines()
        at = stuck[0]["line"] if stuck else len(lines)
        ev = stuck[0]["event"] if stuck else {}
        what = ("a concurrent history of requests to the real instances is not a behaviour of CTFE.tla: the event %s "
                "does not follow from the state reached in backend order (or an invariant fails there)" % ev.get("ev", "?"))
        fp = "trace:%s:%s" % (ev.get("op", ev.get("ev", r.violated)), ev.get("status", ev.get("method", "")))
        if ev.get("ev") == "Ret":
            # was the reply preceded by a backend call made for this request?
            called = None
            for line in lines[:at - 1]:
                try:
                    e = json.loads(line)
                except ValueError:
                    continue
                if e.get("id") == ev.get("id") and e.get("ev") == "Call":
                    called = e
            if called is None:
                fp += ":without-backend-call-of-its-own"
                what = ("%s answered %s although no backend call was made for this request and no successful call made "
                        "for an overlapping request explains the reply (a reply served from state left behind by earlier "
                        "requests while the backend call it waited for failed)" % (ev.get("op"), ev.get("status")))
            else:
                fp += ":call=" + str(called.get("fault"))
                what = ("%s answered %s; its backend call (outcome: %s) in the state the backend was in demands another "
                        "reply according to CTFE.tla" % (ev.get("op"), ev.get("status"), called.get("fault")))
        ctx.violation(fp, what, {"stuck": stuck, "violated": r.violated, "trace_window": lines[max(0, at - 40):at + 1]})
    else:
        ctx.traces += n


def entry_shapes(ctx, prop):
    """EntryShapes.tla: what a stored entry decodes to, per shape of the submission (case analysis, exported, executed)."""
    r = ctx.tlc("ctfe", "MCEntryShapes", ctx.pick("EntryShapes.cfg", "EntryShapesBig.cfg"), workers=1, count=False)
    cases = r.records.get("CASE", [])
    if not cases:
        raise Infra("EntryShapes exported no cases")
    path = ctx.write_ndjson("shapes.ndjson", cases)
    ctx.go_test("cctfe", run="TestShapes$", env={"VERIF_CASES": path, "VERIF_PROP": prop}, timeout=3000, name="shapes")


def external_storage(ctx, nquick=60, nthorough=800, storage="memory"):
    """ChainStore.tla behaviours on twin instances of a process that serves two logs (each with its own table and its
    own cache from the repository's cache constructor): storage faults followed by the re-submission, detached cache
    writes, restarts with cold caches, get-entries pages with a leaf that cannot be fixed under every completion order
    of the per-leaf work.  What the direct mode serves is what the external-storage mode serves, or an error; what a
    log acknowledges is in the table of that log.  Plus the complete page matrix (TestChainStoreBackendFaults).
    storage: the layer below the external twin - "memory" (default: the in-memory stand-in), "mysql" or "postgresql"
    (the repository's SQL IssuanceChainStorage on the in-process database of harness/sqlfake; ChainStore.tla's Dialect)."""
    suffix = {"memory": "", "mysql": "Mysql", "postgresql": "Postgresql"}[storage]
    behs = []
    for cap in ("Cap0", "Cap1"):
        r = ctx.tlc("ctfe", "MCChainStore", "ChainStoreSim%s%s.cfg" % (cap, suffix), simulate=ctx.pick(nquick, nthorough), depth=40, count=False)
        behs += r.records.get("BEH", [])
    if not behs:
        raise Infra("no ChainStore behaviours")
    path = ctx.write_ndjson("chainstore.ndjson", behs)
    ctx.go_test("cctfe", run="TestChainStore$", env={"VERIF_BEHAVIOURS": path}, timeout=3000, name="externalstorage")
    ctx.go_test("cctfe", run="TestChainStoreBackendFaults$", timeout=600, name="externalstorage-pages")
