"""Shared by the CTFE-family checks (C01, C06): model check CTFE.tla, simulate, replay."""
from vlib import Infra

ASSUME = [
    "SHA-256 collision resistance, ECDSA/RSA unforgeability (hashes and signatures are tokens in CTFE.tla; the harness "
    "re-attaches real keys, an independent RFC 6962 encoder and its own Merkle tree and verifiers)",
    "the backend is the harness' reference log, a transcription of the observable contract of Trillian's log RPC server "
    "v1.7.1 with de-duplication by identity hash (harness/ctfeenv/backend.go); gRPC transport and SQL storage are out of scope",
    "certificate shapes are those std crypto/x509.CreateCertificate issues (5 X.509 and 4 precertificate chain shapes, "
    "P-256/P-384/RSA-2048/Ed25519 leaf keys, ECDSA and RSA log keys)",
]


def model_and_behaviours(ctx, nsim_quick, nsim_thorough, depth=27):
    ctx.assumptions += ASSUME
    ctx.tlc("ctfe", "MCCTFE", ctx.pick("CTFE.cfg", "CTFEBig.cfg"), timeout=3000)
    r = ctx.tlc("ctfe", "MCCTFE", "CTFESim.cfg", simulate=ctx.pick(nsim_quick, nsim_thorough), depth=depth + 3, count=False)
    behs = r.records.get("BEH", [])
    if not behs:
        raise Infra("simulation exported no behaviours")
    return behs


def entry_shapes(ctx, prop):
    """EntryShapes.tla: what a stored entry decodes to, per shape of the submission (case analysis, exported, executed)."""
    r = ctx.tlc("ctfe", "MCEntryShapes", ctx.pick("EntryShapes.cfg", "EntryShapesBig.cfg"), workers=1, count=False)
    cases = r.records.get("CASE", [])
    if not cases:
        raise Infra("EntryShapes exported no cases")
    path = ctx.write_ndjson("shapes.ndjson", cases)
    ctx.go_test("cctfe", run="TestShapes$", env={"VERIF_CASES": path, "VERIF_PROP": prop}, timeout=3000, name="shapes")


def external_storage(ctx, nquick=60, nthorough=800, storage="memory"):
    """ChainStore.tla behaviours (storage faults, detached cache writes, restarts with a cold cache) on twin instances:
    what the direct mode serves is what the external-storage mode serves, or an error.
    storage: the layer below the external twin - "memory" (default: the in-memory stand-in), "mysql" or "postgresql"
    (the repository's SQL IssuanceChainStorage on the in-process database of harness/sqlfake; ChainStore.tla's Dialect)."""
    suffix = {"memory": "", "mysql": "Mysql", "postgresql": "Postgresql"}[storage]
    behs = []
    for cap in ("Cap0", "Cap1"):
        r = ctx.tlc("ctfe", "MCChainStore", "ChainStoreSim%s%s.cfg" % (cap, suffix), simulate=ctx.pick(nquick, nthorough), depth=34, count=False)
        behs += r.records.get("BEH", [])
    if not behs:
        raise Infra("no ChainStore behaviours")
    path = ctx.write_ndjson("chainstore.ndjson", behs)
    ctx.go_test("cctfe", run="TestChainStore$", env={"VERIF_BEHAVIOURS": path}, timeout=3000, name="externalstorage")
