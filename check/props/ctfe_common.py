"""Shared by the CTFE-family checks (C01, C06): model check CTFE.tla, simulate, replay."""
from vlib import Infra

ASSUME = [
    "SHA-256 collision resistance, ECDSA/RSA unforgeability (hashes and signatures are tokens in CTFE.tla; the harness "
    "re-attaches real keys, an independent RFC 6962 encoder and its own Merkle tree and verifiers)",
    "the backend is the harness' reference log, a transcription of the observable contract of Trillian's log RPC server "
    "v1.7.1 with de-duplication by identity hash (harness/ctfeenv/backend.go); gRPC transport and SQL storage are out of scope",
    "certificate shapes are those std crypto/x509.CreateCertificate issues (5 X.509 and 4 precertificate chain shapes, "
    "P-256/P-384/RSA-2048/Ed25519 leaf keys, ECDSA and RSA log keys)",
]


def model_and_behaviours(ctx, nsim_quick, nsim_thorough, depth=27):
    ctx.assumptions += ASSUME
    ctx.tlc("ctfe", "MCCTFE", ctx.pick("CTFE.cfg", "CTFEBig.cfg"), timeout=3000)
    r = ctx.tlc("ctfe", "MCCTFE", "CTFESim.cfg", simulate=ctx.pick(nsim_quick, nsim_thorough), depth=depth + 3, count=False)
    behs = r.records.get("BEH", [])
    if not behs:
        raise Infra("simulation exported no behaviours")
    return behs
