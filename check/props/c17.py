"""C17 - multi-log submission returns a policy-satisfying SCT set or says it did not.

spec/submit/Submission.tla: one goroutine per (group, log), every mutex-protected block of safeSubmissionState as an
action, nondeterministic latencies, hang outcomes, caller cancellation; safety (AtMostOncePerLog, SuccessSound,
FailureHonest, NeedsAccount) exhaustively, Terminates / SuccessComplete as liveness under weak fairness.
spec/submit/Distributor.tla: policy totals by lifetime and eligibility of a log for a certificate.
Binding: real submission.GetSCTs under virtual time with a scripted Submitter over every outcome x latency assignment
(property clauses checked on every result), H4 events (emitted under the mutex) validated by SubmissionTrace.tla,
Distributor.AddChain cases replayed, and the race detector on concurrent submissions / weight changes / refreshes.

Outcomes, sessions, weights (round 5): Submission.tla's outcome is the PAIR SubmitToLog returns - (sct,nil), (nil,err),
(sct,err), (nil,nil), hang; only an outcome without error is an SCT (OnlyAnswersCount) - and a group race runs over the
group's submission SESSION (sess; ViableSessions), not its members.  SubmissionWeights.tla is the history machine above
it: SetLogWeight / SetLogWeights - accepted and refused - interleaved with submissions (RefusedChangesNothing,
GroupsStayViable, the verdict a submission must give for the sessions reached); its simulated histories are replayed on
long-lived ctpolicy.LogGroupInfo objects.  Distributor.tla's wire cases put three real log clients (submission.BuildLogClient,
key from the log list) behind a real Distributor: the reply classes of a log on the wire, of which only a valid SCT under
the listed key over the submitted entry is an SCT.

spec/submit/DistributorList.tla (round 6): a WHOLE log list behind one distributor - four logs (state, temporal interval,
answer to every get-roots of a refresh history), constructor-option set, policy, method, pending load, chain with / without
its root; named clauses KnownByLastRefresh, OptionKnowsNothing, PendingLoad; families R / T / H exhaustive, S simulated;
replayed by TestDistributorList against NewDistributor(+options) / RefreshRoots* / AddChain|AddPreChain under virtual time.

spec/submit/ProxyLifecycle.tla: WHICH log list a submission runs against - the refresher (read / compare / parse), the
LogListManager's ticker goroutine and its two capacity-1 channels, the proxy loop (builder, swap under distMu, Init), one
root refresher per distributor generation, submissions reading p.dist, cancellation; safety exhaustively on small constants
(several configurations, each leaving one component out), liveness under fairness, three named observations that TLC is
expected to refute.  Binding: behaviours simulated by TLC (MCProxyLifecycleSim) are replayed against the real
NewProxy + NewLogListManager + NewCustomLogListRefresher under virtual time with gates at the list read, the builder,
get-roots and add-chain; everything recorded is validated by ProxyLifecycleTrace.tla (silent steps for the critical
sections that cannot be seen, quiescence demanded at every observation); an ungated concurrent run under the race
detector is judged by order-based monitors.
"""
import json
import os
from concurrent.futures import ThreadPoolExecutor

from vlib import Infra

POLICIES = ["Chrome2", "Apple", "Chrome3"]


def run(ctx, replay=None):
    ctx.assumptions += [
        "latencies drawn from {0, 0.3, 1.5, 2.5, 10 s} against the 1 s stagger; goroutines released at the same virtual "
        "instant are scheduled by the Go runtime (each scenario is repeated)",
        "group layouts: Chrome-like (1 Google + 2 other logs, N=2; 2+2 logs, N=3) and Apple-like (3 logs, N=2); exhaustive "
        "TLC runs use the N=2 layouts, hang outcomes and cancellation are model-checked on the Apple layout",
        "data-race freedom is judged by the Go race detector on the concurrent scenarios of TestRaces",
        "weights: offered values {-1, 0, 1, 2}, one stranger URL, histories of 8 steps (operations and submissions) on the "
        "three layouts; a submission after a history has no hangs and no deadline; sessions smaller than the groups are "
        "model-checked exhaustively on the two-log / two-group layout and the Apple layout in the quick tier (Chrome N=2 "
        "safety in the thorough tier)",
        "wire cases: three logs (one Google), at most one reply that is not a valid SCT, or two from {other key, HTTP 400, "
        "503}; the log list's keys are ECDSA P-256 and RSA-2048",
    ]
    if replay:
        with open(replay) as f:
            rp = json.load(f)
        beh = rp.get("replay") or {}
        if isinstance(beh, dict) and "steps" in beh and "gates" in beh:
            proxy_replay(ctx, [beh])
            return
        if isinstance(beh, dict) and isinstance(beh.get("c"), dict) and beh["c"].get("t") == "list":
            ctx.go_test("vt/c17", run="TestDistributorList$", toolchain="go1.26", timeout=3000, name="dist-list",
                        env={"VERIF_LIST_CASES": ctx.write_ndjson("lcases.ndjson", [beh])})
            return
        ctx.log("replay file carries no proxy behaviour; running the whole check")
    # 0. the log-list / distributor life-cycle of the proxy
    only = os.environ.get("VERIF_C17_ONLY", "")     # development aid: "proxy" / "proxybind" / "submission" / "dist" run a part
    if only == "dist":
        distributor_cases(ctx)
        return
    if only != "submission":
        proxy_lifecycle(ctx, model=(only != "proxybind"))
    if only in ("proxy", "proxybind"):
        return
    # 1. goroutine-level model: safety exhaustively, liveness on the smallest layouts; the four shapes of the outcome pair
    #    (Outcomes), sessions smaller than the groups (Sessions), the weight-history machine exhaustively over its weight
    #    states; the histories the harness replays are simulated alongside
    jobs = [("MCSubmission", "SubmissionChrome2Safety.cfg", 8), ("MCSubmission", "SubmissionAppleSafety.cfg", 4),
            ("MCSubmission", "SubmissionApple.cfg", 4), ("MCSubmission", "SubmissionAppleOutcomes.cfg", 4),
            ("MCSubmission", "SubmissionAppleSessions.cfg", 2), ("MCSubmission", "SubmissionDuoSessions.cfg", 4),
            ("MCSubmissionWeights", "SubmissionWeightsChrome2Small.cfg", 2), ("MCSubmissionWeights", "SubmissionWeightsApple.cfg", 2),
            ("MCSubmissionWeights", "SubmissionWeightsChrome3.cfg", 2)]
    if ctx.thorough():
        jobs += [("MCSubmission", "SubmissionChrome2.cfg", 8), ("MCSubmission", "SubmissionChrome3Safety.cfg", 8),
                 ("MCSubmission", "SubmissionChrome2OutcomesSafety.cfg", 8), ("MCSubmission", "SubmissionChrome2SessionsSafety.cfg", 8),
                 ("MCSubmission", "SubmissionDuoSessionsCancel.cfg", 6), ("MCSubmissionWeights", "SubmissionWeightsChrome2.cfg", 4)]
    sims = [("sim", lay, ctx.pick(150, 1200)) for lay in POLICIES]

    def one(job):
        if job[0] == "sim":
            return job, ctx.tlc("submit", "MCSubmissionWeights", "SubmissionWeightsSim%s.cfg" % job[1], simulate=job[2], depth=40,
                                count=False, timeout=3000)
        return job, ctx.tlc("submit", job[0], job[1], workers=job[2], count=False, timeout=ctx.pick(3000, 14000))

    with ThreadPoolExecutor(max_workers=ctx.pick(3, 2)) as ex:
        results = list(ex.map(one, jobs + sims))
    wbehs = []
    for job, r in results:
        if job[0] == "sim":
            behs = r.records.get("BEH", [])
            if not behs:
                raise Infra("the weight-history simulation exported no behaviours for " + job[1])
            wbehs += [dict(b, policy=job[1]) for b in behs]
        else:
            ctx.states += r.distinct
            ctx.transitions += r.generated
    if ctx.thorough():
        # the verdict as GetSCTs is written (the conjunction of what the group races returned) is not the verdict of the
        # shared state once sessions are smaller than the groups: TLC refutes FailureHonest on that variant of the model
        r = ctx.tlc("submit", "MCSubmission", "SubmissionDuoSessionsOld.cfg", workers=4, count=False, expect_violation=True, timeout=3000)
        if r.violated != "FailureHonest":
            raise Infra("SubmissionDuoSessionsOld: TLC was expected to refute FailureHonest but reported %r" % r.violated)
        ctx.notes["submission-observations"] = {"DuoSessionsOld": "FailureHonest refuted by TLC for RecomputeVerdict = FALSE (verdicts of the races instead of the shared state)"}
    wpath = ctx.write_ndjson("weight-histories.ndjson", wbehs)
    # 2. policy / eligibility / wire cases, whole log lists
    distributor_cases(ctx)
    # 3. GetSCTs scenarios under virtual time, with H4 traces (several processes in the thorough tier: each draws
    #    another sample of the latency assignments, and a toolchain crash costs one chunk only)
    #    The race detector is applied to a smaller sample in a separate process: under -race the go1.26.8 runtime
    #    occasionally crashes inside synctest's timer code (see vlib.go_test), without it never (0 of 12 vs 2 of 12 runs).
    for chunk in range(ctx.pick(1, 8)):
        out, outdir, _ = ctx.go_test("vt/c17", run="TestGetSCTs$", toolchain="go1.26", race=False, timeout=6000,
                                     name="getscts%d" % chunk,
                                     env={"VERIF_CASES_PER_POLICY": ctx.pick(400, 600), "VERIF_REPEAT": 2, "VERIF_SALT": chunk,
                                          "VERIF_WEIGHT_BEHS": chunk_file(ctx, wbehs, chunk, ctx.pick(1, 8))})
        validate(ctx, outdir)
    ctx.go_test("vt/c17", run="TestGetSCTs$", toolchain="go1.26", race=True, timeout=6000, name="getscts-race",
                env={"VERIF_CASES_PER_POLICY": 80, "VERIF_REPEAT": 1, "VERIF_SALT": 99,
                     "VERIF_WEIGHT_BEHS": ctx.write_ndjson("weight-histories-race.ndjson", wbehs[::5])})
    # 4. data races
    ctx.go_test("vt/c17", run="TestRaces$", toolchain="go1.26", race=True, timeout=3000, name="races")


def distributor_cases(ctx):
    ctx.tlc("submit", "MCDistributor", "Distributor.cfg", workers=4)
    r = ctx.tlc("submit", "MCDistributor", "DistributorExport.cfg", workers=1, count=False)
    dcases = r.records.get("CASE", [])
    if not dcases or not any(c["c"]["t"] == "wire" for c in dcases):
        raise Infra("no distributor / wire cases")
    path = ctx.write_ndjson("dcases.ndjson", dcases)
    lpath = ctx.write_ndjson("lcases.ndjson", list_cases(ctx))
    ctx.go_test("vt/c17", run="TestDistributor$|TestWire$|TestDistributorList$", env={"VERIF_CASES": path, "VERIF_LIST_CASES": lpath},
                toolchain="go1.26", timeout=3000, name="dist")


def list_cases(ctx):
    """DistributorList.tla: a whole log list behind one distributor.  The families R (root-refresh dimension), T
    (constructor option x temporal interval) and H (two-refresh histories) exhaustively, the cross product of all
    dimensions (S) sampled by the simulator."""
    ctx.assumptions += [
        "log-list cases: four logs (two Google, two other operators); families R (every state x get-roots answer, one "
        "refresh), T (every state x interval under every option set, both methods) and H (every pair of answers over two "
        "refreshes, four usable logs) exhaustively up to the symmetry of same-operator-class logs; the cross product with refresh histories of length 0..2, all interval positions, 2 or 3 "
        "SCTs demanded, pending load and chains sent without their root is sampled by the simulator; every log answers a "
        "submission with an SCT at once",
    ]
    # the sanity invariants of the specification are checked in the same runs that export the cases (DistributorList.cfg
    # is the same model without the export, for -coverage)
    runs = [dict(cfg="DistributorListExport.cfg", workers=1),
            dict(cfg="DistributorListSim.cfg", simulate=ctx.pick(1500, 20000), depth=5, count=False)]
    with ThreadPoolExecutor(max_workers=2) as ex:
        res = list(ex.map(lambda kw: ctx.tlc("submit", "MCDistributorList", kw.pop("cfg"), timeout=3000, **kw), runs))
    core, sim = res[0].records.get("LCASE", []), res[1].records.get("LCASE", [])
    fams = {f: sum(1 for c in core + sim if c["c"]["fam"] == f) for f in "RTHS"}
    if not all(fams.values()):
        raise Infra("log-list cases: a family is empty: %r" % fams)
    # vacuity: the classes the dimensions were added for must be among the cases
    def some(pred):
        return any(pred(c["c"], c["expect"]) for c in core + sim)
    need = {
        "unknown-root logs suffice while as many logs answered get-roots as there are usable ones":
            lambda c, e: c["fam"] == "R" and e["success"] and c["refreshes"] and
            len(e["known"]) >= sum(1 for l in c["logs"].values() if l["state"] == "usable") and
            not any(c["cert"]["root"] in {"RA": ["RA"], "RB": ["RB"], "RAB": ["RA", "RB"]}[c["refreshes"][-1][s]] for s in e["known"]),
        "option set, a usable log outside its interval, success without it":
            lambda c, e: c["noRootCheck"] and e["success"] and len(e["eligible"]) < sum(1 for l in c["logs"].values() if l["state"] == "usable"),
        "no refresh yet": lambda c, e: not c["refreshes"] and e["success"],
        "two refreshes, a log known by the first only": lambda c, e: len(c["refreshes"]) == 2 and not c["noRootCheck"] and any(
            c["refreshes"][0][s] != "fail" and c["refreshes"][1][s] == "fail" and c["logs"][s]["state"] == "usable" for s in c["logs"]),
    }
    for name, pred in need.items():
        if not some(pred):
            raise Infra("log-list cases: no case of the class '%s'" % name)
    ctx.notes["distributor-list-cases"] = fams
    return core + sim


def chunk_file(ctx, behs, chunk, nchunks):
    return ctx.write_ndjson("weight-histories-%d.ndjson" % chunk, behs[chunk::nchunks])


def validate(ctx, outdir):
    for pol in POLICIES:
        tr = os.path.join(outdir, "traces-%s.ndjson" % pol)
        if not os.path.exists(tr) or os.path.getsize(tr) == 0:
            raise Infra("no H4 trace for " + pol)
        n = sum(1 for line in open(tr) if '"ev":"Reset"' in line)
        r = ctx.tlc("submit", "MCSubmissionTrace", "SubmissionTrace%s.cfg" % pol, workers=1, env={"TRACE_FILE": tr},
                    count=False, check=False, timeout=3000, label="trace-" + pol)
        stuck = r.records.get("STUCK", [])
        if r.rc != 0 and not stuck and not r.violated:
            raise Infra("trace validation failed to run for %s (rc=%d)\n%s" % (pol, r.rc, "\n".join(r.out.splitlines()[-25:])))
        if stuck or r.violated:
            ev = stuck[0]["event"] if stuck else {}
            lines = open(tr).read().splitlines()
            at = stuck[0]["line"] if stuck else len(lines)
            lo = at
            while lo > 1 and '"ev":"Reset"' not in lines[lo - 1]:
                lo -= 1
            ctx.violation("trace:%s:%s" % (pol, ev.get("ev", r.violated)),
                          "an execution of GetSCTs (%s layout) is not a behaviour of Submission.tla: the event %s does not "
                          "follow from the shared state reached (or an invariant of the specification fails there)"
                          % (pol, ev.get("ev", r.violated)),
                          {"stuck": stuck, "violated": r.violated, "trace_window": lines[lo - 1:at + 1]})
        else:
            ctx.traces += n


# ------------------------------------------------------------------------------------------------------------------
# the proxy life-cycle (spec/submit/ProxyLifecycle.tla)

PL_SAFETY = (["CoreN", "CoreU", "Roots", "Subs2", "Sub1"], ["RootsT3", "RootsBig", "Roots3", "Sub1T2", "Subs2Big"])
PL_LIVE = (["Live"], ["LiveCancel", "LiveRoots", "LiveCancelRoots", "LiveBig"])
# named observations: what the code does and the specification says it does; TLC must REFUTE the stricter statement
PL_OBS = ([("ObsLeak", "NoTickerLeak"), ("ObsStrictStop", "StrictStop")], [("ObsTickerStops", "TickerStops")])


def proxy_lifecycle(ctx, model=True):
    ctx.assumptions += [
        "proxy life-cycle: log-list versions A, B (C) good, U unparsable, N refused by the DistributorBuilder; time in "
        "units of the log-list refresh interval, root refresh every 1-2 units; exhaustive runs bound the number of "
        "emissions (2-4), leave out either the root refreshers or the submissions, and use the 3-log catalogue",
        "proxy replay: the harness acts only when every goroutine is blocked (synctest.Wait); interleavings inside one such "
        "step are the Go scheduler's; every recorded run must be a behaviour of ProxyLifecycle.tla with quiescence at each "
        "observation",
    ]
    jobs = [("safety", c, None) for c in PL_SAFETY[0]] + [("live", c, None) for c in PL_LIVE[0]] + \
           [("obs", c, v) for c, v in PL_OBS[0]]
    if ctx.thorough():
        jobs += [("safety", c, None) for c in PL_SAFETY[1]] + [("live", c, None) for c in PL_LIVE[1]] + \
                [("obs", c, v) for c, v in PL_OBS[1]]

    def one(job):
        kind, cfg, want = job
        r = ctx.tlc("submit", "MCProxyLifecycle", "ProxyLifecycle%s.cfg" % cfg, workers=4, count=False,
                    expect_violation=(kind == "obs"), timeout=ctx.pick(1500, 7200))
        return job, r

    with ThreadPoolExecutor(max_workers=3) as ex:
        results = list(ex.map(one, jobs if model else []))
    for (kind, cfg, want), r in results:
        if kind == "obs":
            if r.violated != want and ("Temporal property %s was violated" % want) not in r.out:
                raise Infra("named observation %s: TLC was expected to refute %s but reported %r" % (cfg, want, r.violated))
            ctx.notes.setdefault("proxy-lifecycle-observations", {})[cfg] = "refuted by TLC, as the code behaves (not asserted)"
        else:
            ctx.states += r.distinct
            ctx.transitions += r.generated
    # behaviours -> real proxy -> trace validation
    r = ctx.tlc("submit", "MCProxyLifecycleSim", "ProxyLifecycleSim.cfg", simulate=ctx.pick(250, 4000), depth=3000,
                count=False, timeout=3000)
    behs = r.records.get("BEH", [])
    cat = r.records.get("CAT", [])
    if not behs or not cat:
        raise Infra("the simulation exported no behaviours / no catalogue")
    if ctx.thorough():   # longer behaviours: up to 12 emissions, 48 steps
        r2 = ctx.tlc("submit", "MCProxyLifecycleSim", "ProxyLifecycleSimLong.cfg", simulate=1200, depth=6000, count=False, timeout=3000)
        if not r2.records.get("BEH"):
            raise Infra("the long simulation exported no behaviours")
        behs = behs + r2.records["BEH"]
    proxy_replay(ctx, behs, cat[0])
    # ungated concurrent runs under the race detector
    race_test(ctx, "TestProxyConcurrent$", "proxy-concurrent",
              {"VERIF_PROXY_CAT": catalogue_file(ctx, cat[0]), "VERIF_PROXY_ROUNDS": ctx.pick(6, 40)})
    if ctx.thorough():
        # a sample of the replayed behaviours once more, under the race detector (no trace validation here)
        path = ctx.write_ndjson("proxy-behaviours-race.ndjson", behs[:400])
        race_test(ctx, "TestProxyReplay$", "proxy-replay-race",
                  {"VERIF_PROXY_CAT": catalogue_file(ctx, cat[0]), "VERIF_PROXY_BEHS": path, "VERIF_PROXY_RECHECK": 1})


def race_test(ctx, run, name, env):
    """go test -race under synctest with go1.26.8: the race runtime occasionally aborts ("ThreadSanitizer: CHECK failed",
    SIGSEGV inside the timer code) - a toolchain fault, not a verdict; such a run is repeated."""
    for attempt in range(6):
        nv = len(ctx.violations)
        out, _, reps = ctx.go_test("vt/c17", run=run, toolchain="go1.26", race=True, timeout=3000,
                                   name="%s%d" % (name, attempt), env=env, allow_fail=True)
        if reps or len(ctx.violations) > nv or ctx._repo_crash(out) or "WARNING: DATA RACE" in out:
            return
        if "ThreadSanitizer: CHECK failed" in out or "SIGSEGV: segmentation violation" in out:
            ctx.log("race runtime aborted (toolchain fault); retrying (%d)" % (attempt + 1))
            continue
        raise Infra("%s failed without a report\n%s" % (run, "\n".join(out.splitlines()[-40:])))
    raise Infra("%s: the race runtime aborted six times in a row" % run)


def catalogue_file(ctx, cat):
    path = os.path.join(ctx.work, "proxy-catalogue.json")
    with open(path, "w") as f:
        json.dump(cat, f)
    return path


def proxy_replay(ctx, behs, cat=None):
    if cat is None:
        r = ctx.tlc("submit", "MCProxyLifecycleSim", "ProxyLifecycleSim.cfg", simulate=1, depth=3000, count=False)
        cat = r.records.get("CAT", [None])[0]
        if cat is None:
            raise Infra("no catalogue exported")
    path = ctx.write_ndjson("proxy-behaviours.ndjson", behs)
    out, outdir, _ = ctx.go_test("vt/c17", run="TestProxyReplay$", toolchain="go1.26", race=False, timeout=3000, name="proxy-replay",
                                 env={"VERIF_PROXY_CAT": catalogue_file(ctx, cat), "VERIF_PROXY_BEHS": path})
    tr = os.path.join(outdir, "proxy-traces.ndjson")
    if not os.path.exists(tr) or os.path.getsize(tr) == 0:
        if ctx.violations:
            return  # the process died on a crash inside the repository code; that is the verdict
        raise Infra("no proxy trace recorded")
    lines = open(tr).read().splitlines()
    n = sum(1 for line in lines if '"ev":"Reset"' in line)
    r = ctx.tlc("submit", "ProxyLifecycleTrace", "ProxyLifecycleTrace.cfg", workers=1, env={"TRACE_FILE": tr}, count=False,
                dfs=True, check=False, timeout=3000, label="trace-proxy")
    stuck = r.records.get("STUCK", [])
    if r.rc != 0 and not stuck and not r.violated:
        raise Infra("proxy trace validation failed to run (rc=%d)\n%s" % (r.rc, "\n".join(r.out.splitlines()[-25:])))
    if stuck or r.violated:
        ev = stuck[0]["event"] if stuck else {}
        at = stuck[0]["line"] if stuck else len(lines)
        lo = at
        while lo > 1 and '"ev":"Reset"' not in lines[lo - 1]:
            lo -= 1
        k = sum(1 for line in lines[:lo] if '"ev":"Reset"' in line) - 1
        fields = ",".join("%s=%s" % (f, ev[f]) for f in ("res", "ok", "dead") if f in ev)
        if ev.get("ev") == "Obs":
            # what the code did (or failed to do) right before the observation that no state of the specification matches
            prev = [json.loads(x) for x in lines[lo - 1:at - 1] if '"ev":"Obs"' not in x]
            if prev:
                fields = "after=" + prev[-1]["ev"] + "".join("/%s=%s" % (f, prev[-1][f]) for f in ("res", "ok", "dead") if f in prev[-1])
        ctx.violation("proxy-trace:%s%s" % (ev.get("ev", r.violated), (":" + fields) if fields else ""),
                      "a run of the real proxy is not a behaviour of ProxyLifecycle.tla: the recorded event %s cannot "
                      "happen in (or, for an observation: does not match / is not quiescent in) any state the "
                      "specification can be in after the events before it" % json.dumps(ev),
                      {"gates": behs[k]["gates"] if 0 <= k < len(behs) else [], "steps": behs[k]["steps"] if 0 <= k < len(behs) else [],
                       "stuck": stuck, "violated": r.violated, "trace_window": lines[max(lo - 1, at - 60):at + 2]})
    else:
        ctx.traces += n
