"""C17 - multi-log submission returns a policy-satisfying SCT set or says it did not.

spec/submit/Submission.tla: one goroutine per (group, log), every mutex-protected block of safeSubmissionState as an
action, nondeterministic latencies, hang outcomes, caller cancellation; safety (AtMostOncePerLog, SuccessSound,
FailureHonest, NeedsAccount) exhaustively, Terminates / SuccessComplete as liveness under weak fairness.
spec/submit/Distributor.tla: policy totals by lifetime and eligibility of a log for a certificate.
Binding: real submission.GetSCTs under virtual time with a scripted Submitter over every outcome x latency assignment
(property clauses checked on every result), H4 events (emitted under the mutex) validated by SubmissionTrace.tla,
Distributor.AddChain cases replayed, and the race detector on concurrent submissions / weight changes / refreshes.
"""
import os

from vlib import Infra

POLICIES = ["Chrome2", "Apple", "Chrome3"]


def run(ctx, replay=None):
    ctx.assumptions += [
        "latencies drawn from {0, 0.3, 1.5, 2.5, 10 s} against the 1 s stagger; goroutines released at the same virtual "
        "instant are scheduled by the Go runtime (each scenario is repeated)",
        "group layouts: Chrome-like (1 Google + 2 other logs, N=2; 2+2 logs, N=3) and Apple-like (3 logs, N=2); exhaustive "
        "TLC runs use the N=2 layouts, hang outcomes and cancellation are model-checked on the Apple layout",
        "data-race freedom is judged by the Go race detector on the concurrent scenarios of TestRaces",
    ]
    # 1. goroutine-level model: safety exhaustively, liveness on the smallest layouts
    ctx.tlc("submit", "MCSubmission", "SubmissionChrome2Safety.cfg", timeout=3000)
    ctx.tlc("submit", "MCSubmission", "SubmissionAppleSafety.cfg", timeout=3000)
    ctx.tlc("submit", "MCSubmission", "SubmissionApple.cfg", workers=8, timeout=3000)
    if ctx.thorough():
        ctx.tlc("submit", "MCSubmission", "SubmissionChrome2.cfg", workers=8, timeout=6000)
        ctx.tlc("submit", "MCSubmission", "SubmissionChrome3Safety.cfg", timeout=10000)
    # 2. policy / eligibility cases
    ctx.tlc("submit", "MCDistributor", "Distributor.cfg", workers=4)
    r = ctx.tlc("submit", "MCDistributor", "DistributorExport.cfg", workers=1, count=False)
    dcases = r.records.get("CASE", [])
    if not dcases:
        raise Infra("no distributor cases")
    path = ctx.write_ndjson("dcases.ndjson", dcases)
    ctx.go_test("vt/c17", run="TestDistributor$", env={"VERIF_CASES": path}, toolchain="go1.26", timeout=3000, name="dist")
    # 3. GetSCTs scenarios under virtual time, with H4 traces (several processes in the thorough tier: each draws
    #    another sample of the latency assignments, and a toolchain crash costs one chunk only)
    #    The race detector is applied to a smaller sample in a separate process: under -race the go1.26.8 runtime
    #    occasionally crashes inside synctest's timer code (see vlib.go_test), without it never (0 of 12 vs 2 of 12 runs).
    for chunk in range(ctx.pick(1, 8)):
        out, outdir, _ = ctx.go_test("vt/c17", run="TestGetSCTs$", toolchain="go1.26", race=False, timeout=6000,
                                     name="getscts%d" % chunk,
                                     env={"VERIF_CASES_PER_POLICY": ctx.pick(400, 600), "VERIF_REPEAT": 2, "VERIF_SALT": chunk})
        validate(ctx, outdir)
    ctx.go_test("vt/c17", run="TestGetSCTs$", toolchain="go1.26", race=True, timeout=6000, name="getscts-race",
                env={"VERIF_CASES_PER_POLICY": 80, "VERIF_REPEAT": 1, "VERIF_SALT": 99})
    # 4. data races
    ctx.go_test("vt/c17", run="TestRaces$", toolchain="go1.26", race=True, timeout=3000, name="races")


def validate(ctx, outdir):
    for pol in POLICIES:
        tr = os.path.join(outdir, "traces-%s.ndjson" % pol)
        if not os.path.exists(tr) or os.path.getsize(tr) == 0:
            raise Infra("no H4 trace for " + pol)
        n = sum(1 for line in open(tr) if '"ev":"Reset"' in line)
        r = ctx.tlc("submit", "MCSubmissionTrace", "SubmissionTrace%s.cfg" % pol, workers=1, env={"TRACE_FILE": tr},
                    count=False, check=False, timeout=3000, label="trace-" + pol)
        stuck = r.records.get("STUCK", [])
        if r.rc != 0 and not stuck and not r.violated:
            raise Infra("trace validation failed to run for %s (rc=%d)\n%s" % (pol, r.rc, "\n".join(r.out.splitlines()[-25:])))
        if stuck or r.violated:
            ev = stuck[0]["event"] if stuck else {}
            lines = open(tr).read().splitlines()
            at = stuck[0]["line"] if stuck else len(lines)
            lo = at
            while lo > 1 and '"ev":"Reset"' not in lines[lo - 1]:
                lo -= 1
            ctx.violation("trace:%s:%s" % (pol, ev.get("ev", r.violated)),
                          "an execution of GetSCTs (%s layout) is not a behaviour of Submission.tla: the event %s does not "
                          "follow from the shared state reached (or an invariant of the specification fails there)"
                          % (pol, ev.get("ev", r.violated)),
                          {"stuck": stuck, "violated": r.violated, "trace_window": lines[lo - 1:at + 1]})
        else:
            ctx.traces += n
