"""C16 - a scan delivers every entry of its range exactly once.

spec/client/Fetcher.tla (range generator, rendezvous channel, fetch workers, short reads, counted transient errors,
Stop / Cancel, continuous mode), Scanner.tla (flatten + matcher workers + callbacks), MCFetcher / MCScanner
(exhaustive safety, liveness under fairness, simulation of complete runs exported as reply scripts),
FetcherTrace.tla (trace validation; TLC infers which worker made which request), ScannerFanout.tla (case analysis of
complete scans whose outcome does not depend on scheduling: tree size, start / end, batch size 1..16, reply policy of the
log, fetchers, matcher workers 1..6, channel capacity, matcher; laws checked exhaustively; expected batches and callbacks
exported per case together with the (batch length : matcher workers : capacity) classes it exercises), ScanSelect.tla /
ScanClasses.tla (the CONTENT dimension of "every entry its matcher selects": an entry is described by the defects its
(pre-)certificate carries, each belonging to a layer - "der": strict decoding of the outer structure fails and lenient
decoding reads it; "field": a field breaks its own syntax; "fatal": no certificate can be read -; named clause
TolerableComposes: tolerable defects of one layer or of several layers at once never make an entry unreadable; case analysis
over every set of defects of the catalogue x entry kind).

Binding (harness/vt/c16, go1.26 testing/synctest virtual time, -race): a scripted scanner.LogClient under the real
scanner.Fetcher.Run / scanner.Scanner.Scan.
  spec -> code: TLC runs drive the client; the multiset of delivered batches must equal the specification's.
  spec -> code: every exported case of ScannerFanout.tla (a deterministic cover of batch length x matcher workers plus
                seeded random draws from the full product) runs through Scanner.Scan / Fetcher.Run on the log content the
                specification prescribes; the callbacks made must be exactly the specification's Calls.
  spec -> code: every case of ScanClasses.tla (460: kind x defect sets) is built with real DER (edits of the DER tree of
                certificates issued by the standard library), laid out in logs and scanned by Scanner.Scan with Matcher- and
                LeafMatcher-type matchers; the callbacks made must be the owed ones.  The logs of all other stages hold
                entries of every class too (one layer, one layer twice, both layers at once, fatal alone / in company).
  code -> spec: traces of randomly configured runs (and of the replayed ones) are validated by FetcherTrace.tla.
  oracle-free monitors on every run: exactly once with the served bytes, nothing outside, termination, continuous-mode
  initial segment when quiet, callbacks once per selected entry and by entry type.
The migration controller (trillian/migrillian/core/controller.go, an anchor) is the Fetcher's user whose rounds must carry on
"without gaps or repeats": spec/migrate/Migrillian.tla (shared with C20) with the signer-lag dimension - the pre-ordered
destination moves its root in a separate Integrate step, arbitrarily later than the submissions, while the source grows
between the rounds; invariants PosCovered (no gaps) + NoRepeat (ghost subm: no index submitted twice within one run) checked
over every schedule of the signer (MigrillianLag.cfg), refutation instance MigrillianRewind.cfg, simulated behaviours with a
sleeping signer (MigrillianSimLag.cfg) and lag scenarios replayed / traced on the real core.Controller over the real
Fetcher (harness/vt/c20), trace validation by MigrillianTrace.tla (defect step RewindRange, invariant NoRepeat).
"""
import json
import os

from vlib import Infra

ASSUME = [
    "the log answers a get-entries request for [s, e] with k entries starting at s, 1 <= k <= e-s+1, or with an error; "
    "servers returning no entries or more than asked are outside the property's domain and are not generated",
    "transient errors (429, 5xx, network, Unavailable, and requests failing with a deadline / cancellation of their own "
    "while the run's context is alive) are counted (an error budget per run), never timed; BatchSize >= 1, ParallelFetch >= 1, StartIndex >= 0",
    "tree heads follow the published size (monotone); entries are tokens in the specification, the harness attaches real "
    "X.509 / precertificate leaves built with harness/ref and compares bytes",
    "migration controller (an anchored user of the Fetcher): 'in continuous mode it carries on ... without gaps or repeats' is demanded "
    "of one run of Controller.Run, whatever the lag of the destination's signer (the root moves in a separate Integrate step, arbitrarily "
    "later than the submission; lag 0..5 root requests in the runs, every schedule in the model); named clause RunStartsFromRoot: a new run "
    "(after a failed pass, lost mastership, restart) knows only the root and may submit again what is not integrated yet; a batch answered "
    "ResourceExhausted was not submitted",
    "log content: an entry is its kind and the set of defects its (pre-)certificate carries, from a catalogue of 12 (3 of the DER "
    "layer: padded serial / version INTEGER, empty extension OID; 5 of the field layer: 3-octet iPAddress, empty AIA / SIA, empty EKU "
    "value, '@' in a PrintableString of the subject; 4 fatal: cut, trailing octet, month 13, SET for SEQUENCE), at most two per tolerable "
    "layer and one fatal per entry; named clause TolerableComposes (the property does not define 'selects' for defective certificates: "
    "the code's reader yields every certificate whose defects are tolerable one by one, so a scan owes such an entry its callback "
    "whatever the combination; a Matcher-type matcher is never asked about an entry with a fatal defect, a LeafMatcher always is); "
    "signatures are not re-made after an edit (a scan verifies none)",
    "model bounds: exhaustive for tree sizes <= 4 (quick) / 5 (thorough) with growth, batch 1..3, 1..2 fetchers, <= 2 errors; "
    "scanner model tree sizes <= 3 / 4, 2 matcher workers; runs against the real code use tree sizes <= 16, batch 1..5, "
    "1..4 fetchers, 1..6 matcher workers; ScannerFanout cases: tree sizes <= 24, batch 1..16, 1..4 fetchers, 1..6 matcher workers, "
    "channel capacity 0..16, reply policies full / at most k / up to the next multiple of k / half (reply length a function of "
    "the request alone, so that the delivered batches do not depend on scheduling)",
]

W = int(os.environ.get("VERIF_TLC_WORKERS", "0")) or None
CHUNK = 300   # runs per trace file handed to TLC


def run(ctx, replay=None):
    ctx.assumptions += ASSUME
    if replay:
        with open(replay) as f:
            rp = json.load(f)
        data = rp.get("replay") or {}
        if "cfg" in data and not data.get("config"):
            # a scenario of the migration controller (step 5): re-executed by the probe of harness/vt/c20
            probe = {k: data[k] for k in ("cfg", "faults", "restarts") if k in data}
            ctx.go_test("vt/c20", run="TestProbe$", env={"VERIF_PROBE": json.dumps(probe)}, toolchain="go1.26", race=True, name="c20probe")
            return
        case = {"Config": data.get("config"), "Run": data.get("run"), "World": data.get("world"), "Entries": data.get("entries")}
        if not case["Config"]:
            raise Infra("replay file carries no configuration")
        path = ctx.write_ndjson("case.ndjson", [case])
        _, outdir, _ = ctx.go_test("vt/c16", run="TestOne$", env={"VERIF_C16_CASE": path}, toolchain="go1.26", race=True,
                                   name="c16one")
        validate_traces(ctx, os.path.join(outdir, "traces.ndjson"), [case["Run"]] if case["Run"] else None)
        return

    # 1. the model: exhaustive safety, liveness under fairness (fetcher and scanner)
    if os.environ.get("VERIF_C16_SKIP_MC") != "1":   # development aid: the model does not depend on the repository
        ctx.tlc("client", "MCFetcher", ctx.pick("FetcherSmall.cfg", "Fetcher.cfg"), workers=W, timeout=3000)
        ctx.tlc("client", "MCFetcher", ctx.pick("FetcherLiveSmall.cfg", "FetcherLive.cfg"), workers=W, timeout=3000)
        ctx.tlc("client", "MCScanner", ctx.pick("ScannerSmall.cfg", "Scanner.cfg"), workers=W, timeout=3000)
        ctx.tlc("client", "MCScanner", "ScannerLive.cfg", workers=W, timeout=3000)
        ctx.exhaustive = True

    # 2. spec -> code: complete runs of the specification as reply scripts
    r = ctx.tlc("client", "MCFetcher", "FetcherSim.cfg", simulate=ctx.pick(400, 4000), depth=600, count=False, timeout=3000)
    runs = r.records.get("RUN", [])
    if not runs:
        raise Infra("simulation exported no runs")
    nontrivial = sum(1 for x in runs if x["delivered"])
    ctx.log("runs: %d exported, %d deliver something" % (len(runs), nontrivial))
    path = ctx.write_ndjson("runs.ndjson", runs)
    _, outdir, _ = ctx.go_test("vt/c16", run="TestReplay$", env={"VERIF_SCRIPTS": path}, toolchain="go1.26", race=True,
                               timeout=ctx.pick(900, 3000), name="c16replay")
    validate_traces(ctx, os.path.join(outdir, "traces.ndjson"), runs)

    # 2b. spec -> code: the fan-out case space (batch length x matcher workers x channel capacity x reply policy ...)
    fanout(ctx)

    # 2c. spec -> code: the content dimension (entry kind x sets of defects of the catalogue, layer by layer)
    classes(ctx)

    # 3. code -> spec: randomly configured runs of the real code
    _, outdir, _ = ctx.go_test("vt/c16", run="TestTrace$", env={"VERIF_TRACES": ctx.pick(400, 4000)}, toolchain="go1.26",
                               race=True, timeout=ctx.pick(900, 3000), name="c16trace")
    validate_traces(ctx, os.path.join(outdir, "traces.ndjson"), None)

    # 4. continuous mode started beyond the end of its range
    ctx.go_test("vt/c16", run="TestBeyondTree$", toolchain="go1.26", race=True, timeout=900, name="c16beyond")

    # 5. the migration controller (trillian/migrillian/core/controller.go, an anchor of C16) as a user of the Fetcher:
    #    continuous passes, submitter faults and restarts must not lose or repeat ranges.  Decided by Migrillian.tla
    #    (PosCovered / NoGap / NoRepeat / Complete / Mirror) on the real core.Controller; a reduced run of C20's conformance part.
    #    "Without gaps or repeats" across rounds has a dimension of its own on the Trillian side: SIGNER LAG - a pre-ordered
    #    log queues what AddSequencedLeaves brings and moves its signed root in a separate Integrate step, arbitrarily later,
    #    while the source log grows between the rounds.  MigrillianLag.cfg checks NoRepeat + PosCovered (every index
    #    submitted exactly once across the rounds of a run) over every schedule of the signer; MigrillianRewind.cfg (a
    #    migrator that takes the root for its position) must violate NoRepeat; the conformance step carries the dimension to
    #    the real Controller (simulated behaviours with a sleeping signer, lag scenarios among the random runs, guard
    #    against vacuity) and trace validation names the defect (step RewindRange, invariant NoRepeat).
    from props import c20 as _c20
    if os.environ.get("VERIF_C16_SKIP_MC") != "1":
        _c20.lag_model(ctx)
    _c20.conformance(ctx, f=0.35)


SPLITS = ("fewer", "equal", "multiple", "rem-lt2", "rem-ge2")


def fanout(ctx):
    """ScannerFanout.tla: laws on every case (TLC, exhaustive), export of the cover and of seeded random cases, every
    exported case through the real Scanner.Scan / Fetcher.Run (TestFanout), a fifth of the runs also through FetcherTrace."""
    r = ctx.tlc("client", "ScannerFanoutMC", ctx.pick("ScannerFanoutSmall.cfg", "ScannerFanout.cfg"), workers=W, timeout=3000)
    world = r.records.get("WORLD", [])
    cases = r.records.get("CASE", [])
    if len(world) != 1 or not cases:
        raise Infra("ScannerFanout exported no WORLD record / no cover")
    r = ctx.tlc("client", "ScannerFanoutMC", "ScannerFanoutSim.cfg", simulate=ctx.pick(1500, 15000), depth=3, count=False,
                timeout=3000)
    cases += r.records.get("CASE", [])
    # vacuity: every split class must be exercised for every number of matcher workers >= 2 by a case that owes callbacks
    seen = set()
    for c in cases:
        if c["calls"]:
            for k in c["classes"]:
                seen.add((k["m"], k["split"]))
    missing = [(m, s) for m in range(2, 7) for s in SPLITS if (m, s) not in seen]
    if missing:
        raise Infra("ScannerFanout cases do not exercise the classes %s" % missing)
    ctx.log("fan-out cases: %d exported, %d owe callbacks, %d (matcher workers, split) classes" % (
        len(cases), sum(1 for c in cases if c["calls"]), len(seen)))
    cpath = ctx.write_ndjson("fanout-cases.ndjson", cases)
    wpath = ctx.write_ndjson("fanout-world.ndjson", world)
    _, outdir, _ = ctx.go_test("vt/c16", run="TestFanout$", env={"VERIF_FANOUT_CASES": cpath, "VERIF_FANOUT_WORLD": wpath},
                               toolchain="go1.26", race=True, timeout=ctx.pick(900, 3000), name="c16fanout")
    validate_traces(ctx, os.path.join(outdir, "traces.ndjson"), None)


def classes(ctx):
    """ScanClasses.tla: laws on every description of an entry (TLC, exhaustive), every case built with real DER and
    scanned by the real Scanner.Scan (TestClasses), a third of the scans also through FetcherTrace."""
    r = ctx.tlc("client", "ScanClasses", "ScanClasses.cfg", workers=1, timeout=3000)
    cat = r.records.get("CATALOGUE", [])
    cases = r.records.get("CASE", [])
    if len(cat) != 1 or not cases:
        raise Infra("ScanClasses exported no CATALOGUE record / no cases")
    # vacuity: readable entries with defects of both layers at once, of one layer twice, and fatal ones in tolerable
    # company must be among the cases, for both kinds
    need = {(cl, kd) for cl in ("clean", "der", "field", "der+field", "der+der", "field+field", "der+field+field", "der+der+field",
                                 "fatal", "fatal+der", "fatal+field", "fatal+der+field") for kd in ("x509", "precert")}
    have = {(c["class"], c["kind"]) for c in cases}
    if need - have:
        raise Infra("ScanClasses cases lack the classes %s" % sorted(need - have))
    for c in cases:
        if (c["parse"] == "fatal") == c["askedMatcher"] or not c["askedLeaf"]:
            raise Infra("ScanClasses case %s contradicts ScanSelect.tla" % c)
    ctx.log("class cases: %d exported, %d classes, %d readable with defects of both layers" % (
        len(cases), len({c["class"] for c in cases}),
        sum(1 for c in cases if c["parse"] == "nonfatal" and "der" in c["class"] and "field" in c["class"])))
    cpath = ctx.write_ndjson("class-cases.ndjson", cases)
    kpath = ctx.write_ndjson("class-catalogue.ndjson", cat)
    _, outdir, reps = ctx.go_test("vt/c16", run="TestClasses$", env={"VERIF_CLASS_CASES": cpath, "VERIF_CLASS_CATALOGUE": kpath},
                                  toolchain="go1.26", race=True, timeout=ctx.pick(900, 3000), name="c16classes")
    # vacuity: unless the run reported violations, every readable case must have reached a callback through a Matcher-type matcher
    readable = sum(1 for c in cases if c["askedMatcher"])
    for rep in reps:
        got = (rep.get("extra") or {}).get("cases_delivered_to_matcher", 0)
        if not rep.get("violations") and got < readable:
            raise Infra("TestClasses delivered %d of the %d readable cases to a Matcher-type matcher" % (got, readable))
    validate_traces(ctx, os.path.join(outdir, "traces.ndjson"), None)


def validate_traces(ctx, tr, runs):
    if not os.path.exists(tr) or os.path.getsize(tr) == 0:
        raise Infra("no trace recorded: " + tr)
    lines = open(tr).read().splitlines()
    starts = [i for i, ln in enumerate(lines) if '"ev":"Reset"' in ln]
    if not starts or starts[0] != 0:
        raise Infra("trace file does not start with a Reset event")
    starts.append(len(lines))
    for c in range(0, len(starts) - 1, CHUNK):
        lo, hi = starts[c], starts[min(c + CHUNK, len(starts) - 1)]
        chunk = os.path.join(os.path.dirname(tr), "chunk-%d.ndjson" % c)
        with open(chunk, "w") as f:
            f.write("\n".join(lines[lo:hi]) + "\n")
        n = min(c + CHUNK, len(starts) - 1) - c
        r = ctx.tlc("client", "FetcherTrace", "FetcherTrace.cfg", workers=1, env={"TRACE_FILE": chunk}, count=False, dfs=True,
                    check=False, timeout=3000, label="trace")
        stuck = r.records.get("STUCK", [])
        if r.rc != 0 and not stuck and not r.violated:
            raise Infra("trace validation failed to run (rc=%d)\n%s" % (r.rc, "\n".join(r.out.splitlines()[-30:])))
        if r.violated or stuck:
            sub = lines[lo:hi]
            win, reset = window(sub, stuck)
            ev = (stuck[0].get("event") or {}) if stuck else {}
            what = ("a recorded run of the real Fetcher/Scanner is not a behaviour of Fetcher.tla: no placement of the silent "
                    "steps explains event %s" % json.dumps(ev, sort_keys=True)) if stuck else (
                    "a state the real run passed through violates %s of Fetcher.tla" % r.violated)
            cfg = json.loads(reset["rc"]) if reset and reset.get("rc") else None
            run_ = None
            if reset and runs is not None and isinstance(reset.get("script"), int) and 0 <= reset["script"] < len(runs):
                run_ = runs[reset["script"]]
            fp = "trace:rejected:%s" % (ev.get("ev", "invariant-" + str(r.violated)))
            if cfg:
                fp += ":%s%s" % (cfg.get("Mode"), ":cont" if cfg.get("Cont") else "")
            ctx.violation(fp, what, {"config": cfg, "run": run_, "stuck": stuck, "violated": r.violated, "trace_window": win,
                                     "tlc": r.out.splitlines()[-12:]})
        else:
            ctx.traces += n


def window(lines, stuck):
    if not stuck:
        return lines[-40:], None
    n = stuck[0].get("line", 1)
    lo = min(n, len(lines))
    while lo > 1 and '"ev":"Reset"' not in lines[lo - 1]:
        lo -= 1
    reset = None
    try:
        reset = json.loads(lines[lo - 1])
    except Exception:  # noqa
        pass
    return lines[lo - 1:n + 3], reset
