"""C06 - the log front end presents one verifiable, append-only history.

spec/ctfe/CTFE.tla (all eight endpoints over the backend; AppendOnly, STHFaithful, SingleIndex).  Binding: TLC
behaviours replayed into a real ctfe.Instance; every STH is verified under the log key and compared with the backend
root, every consistency / inclusion proof is verified with the harness' own RFC 9162 verifiers, served entries are
compared byte for byte with the independent encoding of the submission, every pair of served STHs is linked by a
served proof, and every certificate with an SCT is found by the client-computed leaf hash at a single index.
"""
import json

from props import ctfe_common


def run(ctx, replay=None):
    if replay:
        with open(replay) as f:
            beh = json.load(f)["replay"]["behaviour"]
        path = ctx.write_ndjson("replay.ndjson", [beh])
    else:
        behs = ctfe_common.model_and_behaviours(ctx, 1500, 30000)
        path = ctx.write_ndjson("behaviours.ndjson", behs)
    ctx.go_test("cctfe", run="TestReplay$", env={"VERIF_BEHAVIOURS": path, "VERIF_PROP": "C06"}, timeout=3000)
