"""C06 - the log front end presents one verifiable, append-only history.

spec/ctfe/CTFE.tla (all eight endpoints over the backend; AppendOnly, STHFaithful, SingleIndex).  Binding: TLC
behaviours replayed into a real ctfe.Instance; every STH is verified under the log key and compared with the backend
root, every consistency / inclusion proof is verified with the harness' own RFC 9162 verifiers, served entries are
compared byte for byte with the independent encoding of the submission, every pair of served STHs is linked by a
served proof, and every certificate with an SCT is found by the client-computed leaf hash at a single index.

Faults and schedules: the log signer is a device that can fail (the instance gets it through trillian's crypto/keys
handler registry as a PKCS#11-configured key; harness/ctfeenv registers the handler), the backend can refuse a call or
lose a reply, two front end instances with own clocks and own signed-head memory serve the log.  STHVerifies /
SignedHeadCoherent / FailedRequestLeavesNothing: whatever failed before, every STH served afterwards verifies
(CTFESignDefect.cfg shows TLC finds the stale-signature behaviour when the model remembers a head before signing it).
Concurrent runs are recorded as Inv / Call / Ret events and validated by CTFETrace.tla (see ctfe_common).
"""
import json

from props import ctfe_common


def run(ctx, replay=None):
    if replay:
        with open(replay) as f:
            beh = json.load(f)["replay"]["behaviour"]
        path = ctx.write_ndjson("replay.ndjson", [beh])
    else:
        behs = ctfe_common.model_and_behaviours(ctx, 1500, 30000)
        path = ctx.write_ndjson("behaviours.ndjson", behs)
    ctx.go_test("cctfe", run="TestReplay$", env={"VERIF_BEHAVIOURS": path, "VERIF_PROP": "C06"}, timeout=3000)
    if replay:
        return
    # the repository's own client library and ctutil.LogInfo as the client side of the same behaviours
    ctx.go_test("cctfe", run="TestClientLoop$", env={"VERIF_BEHAVIOURS": path, "VERIF_LOOP_BEHAVIOURS": ctx.pick(300, 5000)},
                timeout=3000, name="clientloop")
    # concurrent clients of two front ends under -race, staged overlaps with failing backend calls: Inv / Call / Ret
    # histories validated by CTFETrace.tla (backend call order = linearization order)
    ctfe_common.concurrent_traces(ctx, "C06")
    # the certificate token of CTFE.tla opened: what the stored entry decodes to, per shape of submission
    ctfe_common.entry_shapes(ctx, "C06")
    # every entry stays served when issuance chains live outside the backend, across storage faults and cold caches
    ctfe_common.external_storage(ctx)
