"""C06 - the log front end presents one verifiable, append-only history.

spec/ctfe/CTFE.tla (all eight endpoints over the backend; AppendOnly, STHFaithful, SingleIndex).  Binding: TLC
behaviours replayed into a real ctfe.Instance; every STH is verified under the log key and compared with the backend
root, every consistency / inclusion proof is verified with the harness' own RFC 9162 verifiers, served entries are
compared byte for byte with the independent encoding of the submission, every pair of served STHs is linked by a
served proof, and every certificate with an SCT is found by the client-computed leaf hash at a single index.

Faults and schedules: the log signer is a device that can fail (the instance gets it through trillian's crypto/keys
handler registry as a PKCS#11-configured key; harness/ctfeenv registers the handler), the backend can refuse a call or
lose a reply, two front end instances with own clocks and own signed-head memory serve the log.  STHVerifies /
SignedHeadCoherent / FailedRequestLeavesNothing: whatever failed before, every STH served afterwards verifies
(CTFESignDefect.cfg shows TLC finds the stale-signature behaviour when the model remembers a head before signing it).
Concurrent runs are recorded as Inv / Call / Ret events and validated by CTFETrace.tla (see ctfe_common).

The second observation point, a SHARED ctutil.LogInfo against the growing log (spec/client/LogInfoClient.tla): goroutines
calling VerifyInclusion / VerifyInclusionLatest / VerifyInclusionAt / SetSTH / LastSTH / VerifySCTSignature on one LogInfo,
each call as Begin / cache read / get-sth answered / store / get-proof-by-hash answered / Return, the cached STH replaced
between any two steps, a log that grows, fails and lies.  NeverMissing (a certificate in the tree the call's STH describes,
served the honest path, is reported included at its index whatever happened to the cache meanwhile), SoundIndex, CacheLaw
(the cache is whatever was last set), FetchOnlyWhenNeeded; LogInfoClientDefect.cfg: with the root looked up in the cache
when the path arrives TLC refutes NeverMissing.  Binding: harness/vt/c06 (go1.26 testing/synctest) replays simulated
behaviours through gates in the http.RoundTripper under a real client.LogClient and validates free runs against
LogInfoClientTrace.tla.
"""
import os
import json

from props import ctfe_common
from vlib import Infra

ASSUME_LOGINFO = [
    "shared LogInfo: the log behind it is the harness' own (honest RFC 6962 tree of harness/ref, STHs signed with a real ECDSA P-256 "
    "or RSA-2048 key, get-proof-by-hash answered from the tree; it may answer 500, another path or another index) behind an "
    "http.RoundTripper under the repository's client.LogClient; the LogInfo is built by NewLogInfo, by LogInfoByKeyHash or as a "
    "literal; entries are X.509 and precertificate entries with opaque content (what the bytes decode to is EntryShapes.tla's subject)",
    "shared LogInfo: the caller passes a leaf object that carries ANOTHER timestamp than the one passed (the documented adjustment "
    "is part of every case); heads a caller brings in (SetSTH, VerifyInclusionAt) are the log's own up to its current size, heads of "
    "the same sizes over other leaves, or none",
    "shared LogInfo, replay regime: between two schedulable steps (a call begins, the log answers, the log grows) every goroutine "
    "runs until it waits for the log or has returned (testing/synctest.Wait); the exhaustive TLC runs interleave the internal steps "
    "freely, the free runs validated by LogInfoClientTrace.tla meet whatever the Go scheduler does under seeded virtual delays",
    "shared LogInfo, NAMED CLAUSE FetchOnlyWhenNeeded: VerifyInclusionLatest asks for an STH only when none is cached and caches "
    "the one it got; a failed get-sth leaves the cache alone.  NAMED CLAUSE HandedOutStable: an STH object handed out by LastSTH or "
    "given to SetSTH / VerifyInclusionAt is never written to afterwards",
]


def loginfo(ctx, only=None):
    """ctutil.LogInfo shared by several goroutines against the growing log: LogInfoClient.tla checked, simulated behaviours
    replayed through gates, free runs validated by LogInfoClientTrace.tla."""
    ctx.assumptions += ASSUME_LOGINFO
    if only is not None:
        path = ctx.write_ndjson("loginfo-replay.ndjson", [only])
        ctx.go_test("vt/c06", run="TestReplay$", toolchain="go1.26", race=True, env={"VERIF_BEHAVIOURS": path}, name="loginfo-replay")
        return
    if os.environ.get("VERIF_C06_SKIP_MC") != "1":   # development aid for mutation runs: the model does not depend on /repo
        # safety on every interleaving of the internal steps: two goroutines and two calls in the quick tier; liveness (fair
        # goroutines, a server that answers), three calls and a longer log in the thorough tier (three goroutines: simulation)
        small = ["-Xmx4g"]      # (small state spaces: a JVM that does not grow to the default heap on a shared machine)
        ctx.tlc("client", "MCLogInfoClient", "LogInfoClientQuick.cfg", workers=4, timeout=1800, java_opts=small)
        if ctx.thorough():
            ctx.tlc("client", "MCLogInfoClient", "LogInfoClientLive.cfg", workers=4, timeout=1800, java_opts=small)
            for cfg in ("LogInfoClientSmall.cfg", "LogInfoClientMid.cfg"):
                ctx.tlc("client", "MCLogInfoClient", cfg, workers=8, timeout=3000, java_opts=small)
        r = ctx.tlc("client", "MCLogInfoClient", "LogInfoClientDefect.cfg", workers=4, timeout=600, expect_violation=True, count=False,
                    java_opts=small)
        if r.violated != "NeverMissing":
            raise Infra("LogInfoClientDefect.cfg: TLC did not refute NeverMissing in the model with the aliasing defect (the law would be vacuous)")
    r = ctx.tlc("client", "MCLogInfoClient", "LogInfoClientSim.cfg", simulate=ctx.pick(400, 6000), depth=120, count=False)
    behs = r.records.get("BEH", [])
    if not behs:
        raise Infra("LogInfoClientSim.cfg exported no behaviour")
    path = ctx.write_ndjson("loginfo-behaviours.ndjson", [{"idx": i, "steps": b} for i, b in enumerate(behs)])
    ctx.go_test("vt/c06", run="TestReplay$", toolchain="go1.26", race=True, env={"VERIF_BEHAVIOURS": path}, timeout=3000, name="loginfo-replay")
    # free runs: the Go scheduler under seeded virtual delays, judged by the trace specification
    before = len(ctx.violations)
    _, outdir, reps = ctx.go_test("vt/c06", run="TestFree$", toolchain="go1.26", race=True, timeout=3000, name="loginfo-free",
                                  env={"VERIF_TRACES": ctx.pick(40, 400), "VERIF_CALLS": ctx.pick(6, 8)})
    tr = os.path.join(outdir, "loginfo-traces.ndjson")
    if not reps and len(ctx.violations) > before:
        return      # the run itself ended in a verdict (data race, crash inside the repository code): there is no trace to judge
    if not os.path.exists(tr) or os.path.getsize(tr) == 0:
        raise Infra("no LogInfo trace recorded")
    lines = open(tr).read().splitlines()
    n = sum(1 for line in lines if '"ev":"Reset"' in line)
    r = ctx.tlc("client", "LogInfoClientTrace", "LogInfoClientTrace.cfg", workers=1, env={"TRACE_FILE": tr}, count=False, check=False,
                timeout=3000, label="loginfo-trace", dfs=True)
    stuck = r.records.get("STUCK", [])
    if r.rc != 0 and not stuck and not r.violated:
        raise Infra("LogInfo trace validation failed to run (rc=%d)\n%s" % (r.rc, "\n".join(r.out.splitlines()[-25:])))
    if stuck or r.violated:
        at = stuck[0]["line"] if stuck else len(lines)
        ev = stuck[0]["event"] if stuck else {}
        names = {"VI": "VerifyInclusion", "VIL": "VerifyInclusionLatest", "VIAt": "VerifyInclusionAt", "Set": "SetSTH",
                 "Last": "LastSTH", "SCT": "VerifySCTSignature"}
        if ev.get("ev") == "Return":
            fp = "trace:Return:%s:%s" % (names.get(ev.get("m"), ev.get("m")), "included" if ev.get("ok") else "error")
            what = ("free run: %s of goroutine %s returned %s (index %s, head %s); no placement of the unobservable steps (cache read, "
                    "store, SetSTH / LastSTH effect) makes that the verdict LogInfoClient.tla gives for what the log served to this call"
                    % (names.get(ev.get("m")), ev.get("g"), "success" if ev.get("ok") else "an error", ev.get("idx"), ev.get("sth")))
        elif ev.get("ev") == "Serve":
            fp = "trace:Serve:%s:%s" % (ev.get("kind"), ev.get("eff"))
            what = ("free run: the log received a %s request of goroutine %s (size %s, certificate %s) that the call, as specified, "
                    "does not make in any placement of the unobservable steps" % (ev.get("kind"), ev.get("g"), ev.get("size"), ev.get("cert")))
        else:
            fp = "trace:%s" % (ev.get("ev") or r.violated)
            what = "free run: the recorded history is not a behaviour of LogInfoClient.tla (%s)" % (ev or r.violated)
        ctx.violation("C06:loginfo:" + fp, what, {"stuck": stuck, "violated": r.violated, "trace_window": lines[max(0, at - 60):at + 1]})
    else:
        ctx.traces += n


def run(ctx, replay=None):
    if replay:
        with open(replay) as f:
            doc = json.load(f)
        rp = doc.get("replay")
        rp = rp if isinstance(rp, dict) else {}
        fp = str(doc.get("fingerprint", ""))
        if "loginfo_behaviour" in rp:
            loginfo(ctx, only=rp["loginfo_behaviour"])
            return
        if fp.startswith("C06:loginfo:") or "ctutil" in fp:
            ctx.log("the replay file carries a free-run verdict of the shared LogInfo; running that part of the check")
            os.environ["VERIF_C06_SKIP_MC"] = "1"
            loginfo(ctx)
            return
    if not replay and os.environ.get("VERIF_C06_ONLY") == "loginfo":     # development aid: the shared-LogInfo part alone
        loginfo(ctx)
        return
    if replay and "behaviour" not in rp:
        ctx.log("the replay file carries no behaviour; running the whole check")
        replay = None
    if replay:
        beh = rp["behaviour"]
        path = ctx.write_ndjson("replay.ndjson", [beh])
    else:
        behs = ctfe_common.model_and_behaviours(ctx, 1500, 30000)
        path = ctx.write_ndjson("behaviours.ndjson", behs)
    ctx.go_test("cctfe", run="TestReplay$", env={"VERIF_BEHAVIOURS": path, "VERIF_PROP": "C06"}, timeout=3000)
    if replay:
        return
    # the repository's own client library and ctutil.LogInfo as the client side of the same behaviours
    ctx.go_test("cctfe", run="TestClientLoop$", env={"VERIF_BEHAVIOURS": path, "VERIF_LOOP_BEHAVIOURS": ctx.pick(300, 5000)},
                timeout=3000, name="clientloop")
    # concurrent clients of two front ends under -race, staged overlaps with failing backend calls: Inv / Call / Ret
    # histories validated by CTFETrace.tla (backend call order = linearization order)
    ctfe_common.concurrent_traces(ctx, "C06")
    # one ctutil.LogInfo shared by several goroutines against the growing log (the second observation point)
    loginfo(ctx)
    # the certificate token of CTFE.tla opened: what the stored entry decodes to, per shape of submission
    ctfe_common.entry_shapes(ctx, "C06")
    # every entry stays served when issuance chains live outside the backend, across storage faults and cold caches
    ctfe_common.external_storage(ctx)
