"""C06 - the log front end presents one verifiable, append-only history.

spec/ctfe/CTFE.tla (all eight endpoints over the backend; AppendOnly, STHFaithful, SingleIndex).  Binding: TLC
behaviours replayed into a real ctfe.Instance; every STH is verified under the log key and compared with the backend
root, every consistency / inclusion proof is verified with the harness' own RFC 9162 verifiers, served entries are
compared byte for byte with the independent encoding of the submission, every pair of served STHs is linked by a
served proof, and every certificate with an SCT is found by the client-computed leaf hash at a single index.
"""
import json
import os

from props import ctfe_common
from vlib import Infra


def run(ctx, replay=None):
    if replay:
        with open(replay) as f:
            beh = json.load(f)["replay"]["behaviour"]
        path = ctx.write_ndjson("replay.ndjson", [beh])
    else:
        behs = ctfe_common.model_and_behaviours(ctx, 1500, 30000)
        path = ctx.write_ndjson("behaviours.ndjson", behs)
    ctx.go_test("cctfe", run="TestReplay$", env={"VERIF_BEHAVIOURS": path, "VERIF_PROP": "C06"}, timeout=3000)
    if replay:
        return
    # the repository's own client library and ctutil.LogInfo as the client side of the same behaviours
    ctx.go_test("cctfe", run="TestClientLoop$", env={"VERIF_BEHAVIOURS": path, "VERIF_LOOP_BEHAVIOURS": ctx.pick(300, 5000)},
                timeout=3000, name="clientloop")
    # concurrent clients under -race: backend call order = linearization order, validated by CTFETrace.tla
    out, outdir, _ = ctx.go_test("cctfe", run="TestConcurrent$", race=True, timeout=3000, name="concurrent",
                                 env={"VERIF_TRACES": ctx.pick(8, 80), "VERIF_ROUNDS": ctx.pick(6, 10)})
    tr = os.path.join(outdir, "traces.ndjson")
    if not os.path.exists(tr) or os.path.getsize(tr) == 0:
        raise Infra("no concurrent trace recorded")
    n = sum(1 for line in open(tr) if '"ev":"Reset"' in line)
    r = ctx.tlc("ctfe", "CTFETrace", "CTFETrace.cfg", workers=1, env={"TRACE_FILE": tr}, count=False, check=False,
                timeout=3000, label="trace")
    stuck = r.records.get("STUCK", [])
    if r.rc != 0 and not stuck and not r.violated:
        raise Infra("trace validation failed to run (rc=%d)\n%s" % (r.rc, "\n".join(r.out.splitlines()[-25:])))
    if stuck or r.violated:
        lines = open(tr).read().splitlines()
        at = stuck[0]["line"] if stuck else len(lines)
        ev = stuck[0]["event"] if stuck else {}
        ctx.violation("trace:%s:%s" % (ev.get("ev", r.violated), ev.get("status", "")),
                      "a concurrent history of requests to the real instance is not a behaviour of CTFE.tla: the reply to "
                      "%s does not follow from the state reached in backend order (or an invariant fails there)" % ev.get("ev", "?"),
                      {"stuck": stuck, "violated": r.violated, "trace_window": lines[max(0, at - 25):at + 1]})
    else:
        ctx.traces += n
    # the certificate token of CTFE.tla opened: what the stored entry decodes to, per shape of submission
    ctfe_common.entry_shapes(ctx, "C06")
    # every entry stays served when issuance chains live outside the backend, across storage faults and cold caches
    ctfe_common.external_storage(ctx)
