"""C04 - RFC 6962 wire structures, signature inputs and leaf hashes are byte-exact.

spec/codec/RFC6962Wire.tla (the structures of RFC 6962 section 3 and DigitallySigned of RFC 5246 4.7 as
TLSCodec type descriptors; EncMerkleTreeLeaf, EncSCT, EncSCTSignatureInput, EncSTHSignatureInput,
EncDigitallySigned, EncSCTList, EncCertificateChain, EncPrecertChainEntry, LeafHashInput; complete
parses; the JSON messages of 4.1 / 4.3), MCRFC6962Wire.tla (field values at the boundaries, mutated
encodings).  TLC checks the model-level laws and exports every case; harness/c04 executes each case
against the repository's types and functions (TestReplay) and feeds the entry parsers real
certificates encoded by the independent encoders of harness/ref (TestRealEntries).
"""
import json

from vlib import Infra

LEVEL = "model_checking"

ASSUME = [
    "the specification's reading of RFC 6962 section 3 / RFC 5246 section 4 is the trusted base (short, written "
    "from the RFC's struct definitions; harness/ref holds a second independent encoder used for the real-certificate run)",
    "field values: timestamps and tree sizes {0, 1, 2^32, 2^63, 2^64-1}; extensions {0, 1, 255, 256, 65535, 65536} bytes; "
    "certificate / TBS {0, 1, 255, 256, 65535, 65536, 2^24-1, 2^24} bytes; entry types {0, 1, 2, 32768, 65535}; leaf type "
    "{0, 1}; versions {0, 1, 255}; hash codes {0..7, 255} x signature codes {0..4, 255}; signatures {0, 1, 71, 255, 256, "
    "65535, 65536} bytes; chains of 0..3 certificates up to a 2^24-1 / 2^24 byte body; SCT lists with bodies of 3 .. "
    "65335, 65336, 65535, 65536 bytes; byte strings: each encoding, +1 byte, truncations, every header / length byte +-1",
    "named deviation JSONEntry: entry type 32768 (experimental add-json) is accepted by the raw TLS codec and refused by "
    "the signature input and by the entry parsers",
    "unasserted: what the entry parsers do with a MerkleTreeLeaf whose version byte is not v1 (the raw codec is asserted)",
    "SHA-256 is the standard library's",
]


def run(ctx, replay=None):
    ctx.assumptions += ASSUME
    if replay:
        with open(replay) as f:
            rp = json.load(f)
        data = rp.get("replay") or {}
        if "case" in data:
            path = ctx.write_ndjson("replay.ndjson", [data["case"]])
            ctx.go_test("c04", run="TestReplay$", env={"VERIF_CASES": path})
        else:
            ctx.go_test("c04", run="TestRealEntries$")
        return
    # 1. TLC: model-level laws (round trip, no trailing data, bijection on every mutated input, JSON round trip),
    #    every case exported with the expected encodings / decodings / parse verdicts
    r = ctx.tlc("codec", "MCRFC6962Wire", ctx.pick("MCRFC6962Wire.cfg", "MCRFC6962WireThorough.cfg"), workers=1,
                timeout=ctx.pick(900, 3000))
    cases = r.records.get("CASE", [])
    if len(cases) < 200:
        raise Infra("TLC exported only %d cases" % len(cases))
    ctx.exhaustive = True
    ctx.log("cases: %d structures, %d byte strings" % (len(cases), sum(len(c.get("ins", [])) for c in cases)))
    path = ctx.write_ndjson("cases.ndjson", cases)
    del cases
    # 2. every case against the repository
    ctx.go_test("c04", run="TestReplay$", env={"VERIF_CASES": path}, timeout=ctx.pick(900, 3000))
    # 3. real certificates through the entry parsers
    ctx.go_test("c04", run="TestRealEntries$", name="c04real")
