"""C04 - RFC 6962 wire structures, signature inputs and leaf hashes are byte-exact.

spec/codec/RFC6962Wire.tla (the structures of RFC 6962 section 3 and DigitallySigned of RFC 5246 4.7 as
TLSCodec type descriptors; EncMerkleTreeLeaf, EncSCT, EncSCTSignatureInput, EncSTHSignatureInput,
EncDigitallySigned, EncSCTList, EncCertificateChain, EncPrecertChainEntry, LeafHashInput; complete
parses; the JSON messages of 4.1 / 4.3), MCRFC6962Wire.tla (field values at the boundaries, mutated
encodings).  TLC checks the model-level laws and exports every case; harness/c04 executes each case
against the repository's types and functions (TestReplay) and feeds the entry parsers real
certificates encoded by the independent encoders of harness/ref (TestRealEntries).  Two families of sibling entry
points are dimensions of the case space: the builders of the stored leaf (StoredLeaf / ExtraForm: ExtraDataForChain,
BuildLogLeaf, ExtraDataForChainHash, BuildLogLeafWithChainHash, and both issuance-chain modes of a real ctfe.Instance)
and the readers of an SCT list (ListFromCert / SCTsFromCert: the list on its own and inside the extension of a
certificate, through the x509 / x509util parsers, DER and PEM).

spec/codec/EntryOfChain.tla (on Precert.tla): the entry RFC 6962 3.1 / 3.2 prescribes for a chain of real
certificates - whose key is hashed, whose name and key identifier the TBSCertificate carries, how the validity is
written (RFC 5280 4.1.2.5: UTCTime through 2049), which extensions remain - as a function of route (x509 / precert /
embedded SCT), api, issuance (directly, deeper, through three kinds of precertificate signing certificate), how much
of the chain is passed, notBefore / notAfter on both sides of 1950 and 2050, key types, poison position, timestamp,
SCT extensions.  MCEntryOfChain.tla checks the laws and exports every case; harness/c04 TestEntryOfChain issues each
with std crypto/x509 and compares ct.MerkleTreeLeafFromChain / FromRawChain / ForEmbeddedSCT, tls.Marshal,
LeafHashForLeaf, SerializeSCTSignatureInput, VerifySCTSignature with the specification's expectation and byte for
byte with harness/ref and with the final CA's own TBSCertificate.
"""
import json

from vlib import Infra

LEVEL = "model_checking"

ASSUME = [
    "the specification's reading of RFC 6962 section 3 / RFC 5246 section 4 is the trusted base (short, written "
    "from the RFC's struct definitions; harness/ref holds a second independent encoder used for the real-certificate run)",
    "field values: timestamps and tree sizes {0, 1, 2^32, 2^63, 2^64-1}; extensions {0, 1, 255, 256, 65535, 65536} bytes; "
    "certificate / TBS {0, 1, 255, 256, 65535, 65536, 2^24-1, 2^24} bytes; entry types {0, 1, 2, 32768, 65535}; leaf type "
    "{0, 1}; versions {0, 1, 255}; hash codes {0..7, 255} x signature codes {0..4, 255}; signatures {0, 1, 71, 255, 256, "
    "65535, 65536} bytes; chains of 0..3 certificates up to a 2^24-1 / 2^24 byte body; SCT lists with bodies of 3 .. "
    "65335, 65336, 65535, 65536 bytes; byte strings: each encoding, +1 byte, truncations, every header / length byte +-1",
    "named deviation JSONEntry: entry type 32768 (experimental add-json) is accepted by the raw TLS codec and refused by "
    "the signature input and by the entry parsers",
    "unasserted: what the entry parsers do with a MerkleTreeLeaf whose version byte is not v1 (the raw codec is asserted)",
    "named clauses of the stored-leaf builders: ChainHashStore (ExtraDataForChainHash / BuildLogLeafWithChainHash write "
    "opaque issuance_chain_hash<0..256>, alone or after pre_certificate - storage-private, not in the RFC); "
    "NoHashNoReference (BuildLogLeafWithChainHash without a hash writes the RFC structure with an empty chain); "
    "ServedIsRFC (whatever the issuance-chain mode keeps, get-entries serves CertificateChain / PrecertChainEntry); "
    "the value of the side store's key is unasserted (only the shape of the reference)",
    "SCT lists inside a certificate: the carrier is an end-entity certificate issued by std crypto/x509 under a two-level "
    "CA; the extension value is one OCTET STRING, the same followed by a byte, a SEQUENCE, or absent; an entry point that "
    "returns a certificate or SCTs with a nil error promises the complete parse - a non-fatal error counts as an error; "
    "what a certificate parser leaves in Certificate.SCTList next to an error is unasserted",
    "SHA-256 is the standard library's",
    "entries from real certificates (EntryOfChain.tla): certificates are DER as a conforming CA (std crypto/x509) writes "
    "them - validity through 2049 as UTCTime, GeneralizedTime before 1950 and from 2050; years {1949, 1950, 1999, 2000, "
    "2049, 2050, 2051, 9999} x {first, a middle, last second}; subject keys {p256, p384, rsa2048, ed25519}; CA keys "
    "{p256, p384, rsa2048}; extensions KU, BC, AKI, SAN with the poison / SCT list last, before the AKI or first; "
    "what the functions do with certificates that are not DER (a re-encoded validity) is unasserted",
    "named clause NoIssuerNoEntry: a precert entry is refused when the certificate of the CA that issues the final "
    "certificate is not passed (leaf alone; precertificate signing certificate without its issuer)",
]


def run(ctx, replay=None):
    ctx.assumptions += ASSUME
    if replay:
        with open(replay) as f:
            rp = json.load(f)
        data = rp.get("replay") or {}
        if "case" in data:
            path = ctx.write_ndjson("replay.ndjson", [data["case"]])
            ctx.go_test("c04", run="TestReplay$", env={"VERIF_CASES": path})
        elif "entrycase" in data:
            path = ctx.write_ndjson("replay-entry.ndjson", [data["entrycase"]])
            ctx.go_test("c04", run="TestEntryOfChain$", env={"VERIF_ENTRY_CASES": path})
        else:
            ctx.go_test("c04", run="TestRealEntries$")
        return
    # 1. TLC: model-level laws (round trip, no trailing data, bijection on every mutated input, JSON round trip),
    #    every case exported with the expected encodings / decodings / parse verdicts
    r = ctx.tlc("codec", "MCRFC6962Wire", ctx.pick("MCRFC6962Wire.cfg", "MCRFC6962WireThorough.cfg"), workers=1,
                timeout=ctx.pick(900, 3000))
    cases = r.records.get("CASE", [])
    if len(cases) < 200:
        raise Infra("TLC exported only %d cases" % len(cases))
    # the entry-point dimensions must all be there: builder x form of the stored leaf (alone and behind the front end),
    # the ways an SCT list sits in a certificate x the verdicts
    forms = {(c["builder"], c["form"], len(c["certs"]) if c["builder"] in ("ExtraDataForChain", "BuildLogLeaf") else c["hash"]["present"])
             for c in cases if c["kind"] == "logleaf"}
    need = {(b, "rfc", n) for b in ("ExtraDataForChain", "BuildLogLeaf") for n in (0, 1, 3)} | {
        ("ExtraDataForChainHash", "hash", True), ("ExtraDataForChainHash", "hash", False),
        ("BuildLogLeafWithChainHash", "hash", True), ("BuildLogLeafWithChainHash", "rfc", False)}
    if not need <= forms:
        raise Infra("stored-leaf cases do not cover %s" % sorted(need - forms, key=str))
    fes = {(c["mode"], c["isPre"], c["n"], c["storedform"]) for c in cases if c["kind"] == "frontend"}
    if len(fes) != 10 or {f[3] for f in fes} != {"rfc", "hash"}:
        raise Infra("front-end cases do not cover both modes: %s" % sorted(fes, key=str))
    wraps = {(w["wrap"], w["list"]["ok"], w["scts"]["ok"]) for c in cases if c["kind"] == "sctlist" for i in c["ins"] for w in i["carried"]}
    if not {("octet", True, True), ("octet", True, False), ("octet", False, False), ("octet+trail", False, False),
            ("notoctet", False, False), ("absent", True, True)} <= wraps:
        raise Infra("SCT-list cases do not cover the ways a list sits in a certificate: %s" % sorted(wraps, key=str))
    ctx.exhaustive = True
    ctx.log("cases: %d structures, %d byte strings" % (len(cases), sum(len(c.get("ins", [])) for c in cases)))
    path = ctx.write_ndjson("cases.ndjson", cases)
    del cases
    # 2. every case against the repository
    ctx.go_test("c04", run="TestReplay$", env={"VERIF_CASES": path}, timeout=ctx.pick(900, 3000))
    # 3. real certificates through the entry parsers
    ctx.go_test("c04", run="TestRealEntries$", name="c04real")
    # 4. the entry of a chain of real certificates: laws of EntryOfChain.tla on every case, every case issued with the
    #    standard library and derived by the repository's functions
    r = ctx.tlc("codec", "MCEntryOfChain", ctx.pick("MCEntryOfChain.cfg", "MCEntryOfChainThorough.cfg"), workers=1,
                timeout=ctx.pick(600, 3000))
    entries = r.records.get("ENTRY", [])
    if len(entries) < 800:
        raise Infra("TLC exported only %d entry cases" % len(entries))
    for dim, vals in (("route", 3), ("iss", 5), ("cut", 4), ("order", 3), ("key", 4), ("ikey", 3), ("api", 2), ("ts", 5), ("ext", 3)):
        if len({e["c"][dim] for e in entries}) != vals:
            raise Infra("entry cases do not cover dimension %s" % dim)
    years = {(e["c"]["nb"]["y"], e["c"]["na"]["y"]) for e in entries}
    if not {(2000, 2049), (2000, 2050), (2000, 2051), (1949, 1950), (2050, 2050), (2049, 2050)} <= years:
        raise Infra("entry cases do not cover the validity boundaries")
    ctx.log("entry cases: %d (%d without an entry)" % (len(entries), sum(1 for e in entries if not e["expect"]["ok"])))
    path = ctx.write_ndjson("entrycases.ndjson", entries)
    del entries
    ctx.go_test("c04", run="TestEntryOfChain$", env={"VERIF_ENTRY_CASES": path}, name="c04entry", timeout=ctx.pick(900, 3000))
