"""X02 (extra coverage) - the personalities of a CTFE instance and the mirror pipeline.

spec/ctfe-modes/CTFEModes.tla: one instance in the mode its LogConfig gives it (regular, read-only, frozen STH with and
without is_readonly, mirror, mirror with a frozen STH), every endpoint in every mode, and the environment of a mirror:
the source log growing and publishing STHs, the operator channelling them into the MirrorSTHStorage, the migration job
integrating source entries into the backend behind the source, the storage answering GetMirrorSTH(max) with the best
eligible STH, an older one, or an error.  Laws (each from a sentence of config.proto / sth.go / instance.go, see
spec/ctfe-modes/README.md): MirrorNeverAhead, ServedStaysBacked, MirrorServesSourceSTH, MirrorAsksWithBackendSize,
NoWritesWhereReadOnly, AddNotServedWhereReadOnly, FrozenIsConstant, ErrorsCarryNoSTH, StorageErrorIsError,
ReadsAreBacked, WritesOnlyByAddChain, EndpointsReadOnly.

Binding (harness/cmodes): TLC behaviours (transition cover + weighted random walks) are replayed into REAL
ctfe.Instances built through ctfeenv.New -> ctfe.ValidateLogConfig -> ctfe.NewInstanceForVerif with the mode's
LogConfig, over the reference backend, with a contract-honouring MirrorSTHStorage fake that does what the step says,
source STHs signed by a harness key with std crypto; an independent client turns every reply into the abstract reply of
the specification (served STH byte-identical to a published source STH / to the frozen STH / verifying under the log
key; consistency and inclusion proofs and entries verified under the SERVED tree heads with the harness' RFC 9162
verifiers; the bound the storage was asked with; backend write-call counters; Instance.STHGetter against get-sth).
Second direction: steps chosen by the harness on larger trees are recorded and validated line by line by
CTFEModesTrace.tla.  Not a listed property: evidence goes to evidence-extra/X02.json.
"""
import json
import os

from vlib import Infra

LEVEL = "model_checking"

ASSUME = [
    "SHA-256 collision resistance, ECDSA/RSA unforgeability (trees are sizes and STHs are (kind, size, ts) tokens in "
    "CTFEModes.tla; the harness re-attaches real entries, its own Merkle tree and verifiers, real P-256 / RSA-2048 keys)",
    "the backend is the harness' reference log (harness/ctfeenv/backend.go); a mirror's backend is filled with the source's "
    "entries in order (the migration job is the environment: Integrate), never beyond the source",
    "the MirrorSTHStorage honours the contract of the interface relative to the bound it is asked with (TreeSize <= "
    "maxTreeSize; best effort: the best eligible STH, an older eligible one, or an error) and holds only STHs the source "
    "log published; what a mirror does with a storage that breaks the contract is observed (TestProbes) and unasserted",
    "documentation silent, observed and unasserted: whether a log with frozen_sth and without is_readonly takes "
    "submissions (it does: FrozenAloneTakesWrites; a refusal would end the behaviour without verdict); the exact 4xx / 5xx "
    "codes (status classes are asserted); that a mirror's served STHs may go back in size (best effort)",
    "backend faults are modelled for get-sth only (the mode-specific path); the other read endpoints are mode-independent "
    "and their fault behaviour belongs to C08",
]


def run(ctx, replay=None):
    ctx.assumptions += ASSUME
    if replay:
        with open(replay) as f:
            beh = json.load(f)["replay"]["behaviour"]
        path = ctx.write_ndjson("replay.ndjson", [beh])
        ctx.go_test("cmodes", run="TestReplay$", env={"VERIF_BEHAVIOURS": path}, timeout=600)
        return
    # 1. exhaustive: every mode, every environment step, every request with every argument, every storage answer
    ctx.tlc("ctfe-modes", "MCCTFEModes", ctx.pick("CTFEModes.cfg", "CTFEModesBig.cfg"), workers=ctx.pick(4, 8), timeout=3000)
    # non-vacuity: a mirror that asks its storage without the bound serves an STH ahead of its backend tree in the model
    r = ctx.tlc("ctfe-modes", "MCCTFEModes", "CTFEModesDefect.cfg", workers=2, timeout=600, expect_violation=True, count=False)
    if r.violated != "MirrorNeverAhead":
        raise Infra("CTFEModesDefect.cfg: TLC did not find the STH ahead of the backend tree in the defective model "
                    "(MirrorNeverAhead would be vacuous): %s" % r.violated)
    # 2. behaviours: transition cover (every state reachable in Depth-1 steps x every step) and weighted random walks
    r = ctx.tlc("ctfe-modes", "MCCTFEModes", ctx.pick("CTFEModesCover.cfg", "CTFEModesCoverBig.cfg"), workers=1, count=False,
                timeout=3000)
    cover = r.records.get("BEH", [])
    if not cover:
        raise Infra("cover run exported no behaviours")
    sim = []
    for cfg in ("CTFEModesSim.cfg", "CTFEModesSimMirror.cfg"):
        r = ctx.tlc("ctfe-modes", "MCCTFEModes", cfg, simulate=ctx.pick(500, 8000), depth=20, count=False, timeout=3000)
        got = r.records.get("BEH", [])
        if not got:
            raise Infra("simulation %s exported no behaviours" % cfg)
        sim += got
    behs = cover + sim
    ahead = sum(1 for b in behs for s in b if s["op"] == "GetSTH" and s["pre"]["mode"] == "mirror" and s["args"]["bf"] == "none"
                and s["reply"]["asked"] >= 0)
    served = sum(1 for b in behs for s in b if s["op"] == "GetSTH" and s["pre"]["mode"] == "mirror" and s["reply"]["status"] == "ok")
    lag = sum(1 for b in behs for s in b if s["op"] == "GetSTH" and s["pre"]["mode"] == "mirror" and s["reply"]["status"] == "ok"
              and s["reply"]["sth"]["size"] < s["pre"]["bsize"])
    if not served or not lag:
        raise Infra("the behaviours never make a mirror serve an STH (served=%d, behind the backend=%d)" % (served, lag))
    ctx.log("behaviours: %d cover + %d simulated; mirror get-sth: %d storage consultations, %d STHs served, %d of them "
            "smaller than the backend tree" % (len(cover), len(sim), ahead, served, lag))
    path = ctx.write_ndjson("behaviours.ndjson", behs)
    ctx.go_test("cmodes", run="TestReplay$", env={"VERIF_BEHAVIOURS": path}, timeout=3000)
    # 3. code -> specification: steps chosen by the harness, larger trees, validated line by line
    out, outdir, _ = ctx.go_test("cmodes", run="TestTrace$", timeout=3000, name="cmodestrace",
                                 env={"VERIF_TRACES": ctx.pick(60, 1200), "VERIF_TRACE_STEPS": ctx.pick(40, 60),
                                      "VERIF_TRACE_MAXSIZE": 8})
    tr = os.path.join(outdir, "traces.ndjson")
    if not os.path.exists(tr) or os.path.getsize(tr) == 0:
        raise Infra("no trace recorded")
    validate_traces(ctx, tr)
    # 4. a mirror without a storage; dishonest storages (observed, unasserted)
    ctx.go_test("cmodes", run="TestProbes$", timeout=600, name="cmodesprobes")


def validate_traces(ctx, tr):
    lines = open(tr).read().splitlines()
    n = sum(1 for line in lines if '"op":"Reset"' in line)
    r = ctx.tlc("ctfe-modes", "CTFEModesTrace", "CTFEModesTrace.cfg", workers=1, env={"TRACE_FILE": tr}, count=False,
                check=False, timeout=3000, label="trace")
    stuck = r.records.get("STUCK", [])
    if r.rc != 0 and not stuck and not r.violated:
        raise Infra("trace validation failed to run (rc=%d)\n%s" % (r.rc, "\n".join(r.out.splitlines()[-30:])))
    if stuck or r.violated:
        at = stuck[0]["line"] if stuck else len(lines)
        ev = stuck[0]["event"] if stuck else {}
        st = stuck[0].get("state") if stuck else None
        lo = at
        while lo > 1 and '"op":"Reset"' not in lines[lo - 1]:
            lo -= 1
        mode = ev.get("pre", {}).get("mode", "?")
        rep = ev.get("reply", {})
        fp = "trace:%s:%s:got=%s%s" % (mode, ev.get("op", r.violated), rep.get("status"),
                                       ("/" + rep["sth"]["kind"]) if rep.get("sth", {}).get("kind", "none") != "none" else "")
        if r.violated and not stuck:
            fp = "trace:law:%s" % r.violated
        ctx.violation(fp, "a recorded run of a real %s instance is not a behaviour of CTFEModes.tla: %s %s was answered %s "
                      "(write calls so far: %s) in the state %s%s" % (
                          mode, ev.get("op"), json.dumps(ev.get("args")), json.dumps(rep), ev.get("writes"), json.dumps(st),
                          ("; law violated: " + r.violated) if r.violated else ""),
                      {"stuck": stuck, "violated": r.violated, "trace_window": lines[lo - 1:at + 1][-60:],
                       "tlc": r.out.splitlines()[-12:]})
    else:
        ctx.traces += n
