"""C15 - configuration validation is total and the instance matches its configuration.

spec/ctfe/LogConfig.tla: a configuration is a record of field states, Valid / ValidSet / ValidMulti are the conjunction of
the property text (one definition per conjunct), Handlers(cfg) the endpoint set, and a small state machine says which STH an
instance serves while its backend grows.  MCLogConfig.tla enumerates the cases (exhaustive over pairs / triples of field
groups, all multi-configs of the bounded shape, seeded draws from the full product) and exports them with the model's
verdict; the Go harness (harness/c15) materializes every case as configpb messages and compares trillian/ctfe's behaviour.

The external-storage connection string is a SHAPE (LogConfig.tla: leading word in nine classes - none, the three schemes the
storage layer knows, a known scheme with something appended, in another letter case, cut short, any other word - x number of
"://" separators 0 / 1 / 2+ x where the surplus separator sits (scheme written twice, user, password, address, path,
parameters) x what the driver's own parser makes of the data source name: accepted, empty, refused; 162 shapes).  Usable =
the storage layer, given the string, gets as far as dialling (UsableMeansStorageOpens; the decision structure of
storage.NewIssuanceChainStorage / mysql open / postgresql open + first connection is a second definition, TLC checks the two
coincide).  ConnSweep presents every shape with either backend over every base; harness/c15/conn.go gives every shape 2-40
concrete spellings (MySQL DSNs, PostgreSQL URLs and keyword/value forms), validates every spelling, and runs the REAL
storage constructors on every spelling (klog.OsExit and the MySQL driver's dial hook intercepted: nothing is dialled, the
process survives the constructors' klog.Exitf): they must open exactly the spellings of usable shapes.

History layer (spec/ctfe/LogConfigHist.tla): validation is a FUNCTION of the configuration.  A session is a sequence of
validations in one process; consecutive configurations differ in one component (a plain field, the public key among two
keys of one kind, one component of the frozen STH: timestamp, tree size, root hash, signature value, hash length), with
repetition and return (valid - altered - valid).  Every call must return what it returns alone and hand on the key / frozen
STH / window of the configuration presented to it.  A ghost variable tells which coarse memos (a cache that leaves one
component out of its key) a history distinguishes from the function; the driver demands that the walks drawn by TLC expose
every component that can change a verdict, as stale accept and as stale reject.  harness/c15 TestHistory replays the
sessions on one goroutine of a fresh process, on the same keys and the same signature bytes throughout a session.
"""
import json
import random

from vlib import Infra

LEVEL = "model_checking"

ASSUME = [
    "field states stand for classes of concrete values (one to four concrete spellings per state are materialized); "
    "a NotAfter bound is a pair of ranks (seconds in 6 classes, nanos in 5) read in four strictly monotone spellings "
    "(adjacent values, ends of the timestamp range, around the half second, around the int64-nanosecond horizon), a merge "
    "delay one of four ranks read in five scales up to the ends of int32; "
    "ECDSA P-256 / RSA-2048 keys and SHA-256 trees are real, generated per run",
    "the connection string is a shape (leading word class, number and place of '://' separators, the driver parser's view of the "
    "data source name), each shape materialized in 2-40 concrete spellings; 'the driver's parser' is go-sql-driver/mysql ParseDSN and "
    "pgconn.ParseConfig as linked into the harness (the catalogue of accepted / refused data source names is checked against them on "
    "every run); 'usable' is decided by the repository's own storage constructors up to the point of dialling (nothing is dialled: "
    "the MySQL driver's dial hook and klog.OsExit are intercepted; a PostgreSQL string is parsed by its driver at the first statement, "
    "whose connect to 127.0.0.1:9 / a socket path that does not exist fails at once); PG* environment variables are unset",
    "nil elements inside repeated fields and a nil *LogConfig argument are outside the domain (not producible by decoding a file)",
    "instances are built for the Trillian-gRPC chain storage backend only (the external backend dials a database in SetUpInstance); "
    "the mirror's STH storage honours its interface contract (largest held STH not above the size it is asked for)",
    "a frozen mirror is held to the frozen-STH sentence only (the property's two sentences contradict each other when the "
    "frozen STH is larger than the backend tree)",
    "history layer: sessions are random walks drawn by TLC's simulator (400 of 14 validations quick, 4000 of 24 thorough) over "
    "neighbouring configurations; their sufficiency is part of the specification (every verdict-relevant component exposed in "
    "both directions) and checked on every run; signatures are ideal in the specification (a value is the tuple it was made "
    "over) and real in the harness (P-256 / RSA-2048, each tuple signed once per run); sessions run one after the other in "
    "one process, overlapping validations are not explored",
]

ENV = {"VERIF_MAXSIZE": 4, "VERIF_FROZENSIZE": 2}


def kind_of_cfg(c):
    return (bool(c["isMirror"]), bool(c["isReadonly"]), c["frozenSth"] == "okSigned")


def kind_of_beh(b):
    k = b["kind"]
    return (bool(k["isMirror"]), bool(k["isReadonly"]), bool(k["frozen"]))


def history_walks(ctx):
    """TLC draws the sessions, checks the laws of the history on every state and tells which memos each walk exposes."""
    n = ctx.pick(400, 4000)
    walks, exposed, required = [], set(), set()
    seed0 = ctx.seed
    for attempt in range(3):
        # (the walks are random: should a draw lack a neighbour pair the specification requires, more are drawn)
        ctx.seed = seed0 + 7919 * attempt
        try:
            r = ctx.tlc("ctfe", "LogConfigHistMC", ctx.pick("LogConfigHist.cfg", "LogConfigHistDeep.cfg"), workers=1,
                        simulate=n, depth=60, timeout=3000, count=False, java_opts=["-XX:ParallelGCThreads=2"])
        finally:
            ctx.seed = seed0
        got = r.records.get("WALK", [])
        if len(got) != n:
            raise Infra("TLC exported %d sessions, %d asked for" % (len(got), n))
        walks += got
        for w in got:
            exposed.update(tuple(e) for e in w["exposed"])
            required.update(tuple(e) for e in w["required"])
        missing = sorted(required - exposed)
        if required and not missing:
            break
        ctx.log("sessions lack %s; drawing more" % missing)
    else:
        raise Infra("the sessions do not tell the function from every coarse memo: never exposed: %s" % missing)
    ctx.log("history: %d sessions, %d validations; every verdict-relevant component (%d) exposed as stale accept and as stale reject" % (
        len(walks), sum(len(w["calls"]) for w in walks), len(required) // 2))
    return [{"calls": w["calls"]} for w in walks]


def run(ctx, replay=None):
    ctx.assumptions += ASSUME
    if replay:
        return run_replay(ctx, replay)
    big = ctx.thorough()
    # 1. the instance state machine, exhaustively: frozen => only the frozen STH, mirror => never ahead of its backend
    ctx.tlc("ctfe", "MCLogConfig", ctx.pick("LogConfigInst.cfg", "LogConfigInstBig.cfg"), workers=4)
    # 2. case analysis: Valid (property text) = CodeAccepts (decision structure of config.go) on every case; export
    r = ctx.tlc("ctfe", "MCLogConfig", "LogConfigSingle.cfg", workers=1, timeout=1200)
    cases = r.records.get("CASE", [])
    base = (r.records.get("BASE") or [None])[0]
    if not cases or not base:
        raise Infra("single-config run exported no cases")
    r = ctx.tlc("ctfe", "MCLogConfig", "LogConfigDraw.cfg", simulate=ctx.pick(4000, 400000), depth=2, count=False, timeout=1200)
    seen = set(json.dumps(c["c"], sort_keys=True) for c in cases)
    drawn = 0
    for c in r.records.get("CASE", []):
        k = json.dumps(c["c"], sort_keys=True)
        if k not in seen:
            seen.add(k)
            cases.append(c)
            drawn += 1
    if drawn == 0:
        raise Infra("the seeded draw added no case")
    r = ctx.tlc("ctfe", "MCLogConfig", "LogConfigSet.cfg", workers=1)
    sets = r.records.get("SETCASE", [])
    r = ctx.tlc("ctfe", "MCLogConfig", "LogConfigMulti.cfg", workers=1, timeout=1200)
    multis = r.records.get("MULTICASE", [])
    if not sets or not multis:
        raise Infra("set / multi-config run exported no cases")
    for m in multis:   # the log configs of a multi-config are Base with four fields overridden
        m["m"]["logs"] = [dict(base, **l) for l in m["m"]["logs"]]
    nvalid = sum(1 for c in cases if c["valid"])
    ctx.log("cases: %d single (%d drawn, %d valid), %d sets, %d multi (%d valid)" % (
        len(cases), drawn, nvalid, len(sets), len(multis), sum(1 for m in multis if m["valid"])))
    ctx.exhaustive = ("every pair and selected triples of field groups in full product over four base configurations, the full "
                      "product of NotAfter bound states (31 x 31: absent or (seconds, nanos) rank pairs incl. out-of-range components) "
                      "over every base, every named spelling of a frozen STH that does not verify (one of timestamp / tree size / root hash / signature value / key differs "
                      "from what was signed, each in four concrete readings) x key states x log kind over every base, every shape of the connection string (162: leading word x separators x place of the surplus separator x data source name) x backend over every base with every concrete spelling validated and given to the storage constructors (%d single configs; a window with both bounds is validated in all four spellings), all lists of <= 2 configs over 18 variants, all multi-configs with <= 2 backends "
                      "(name, spec in 3 states each) x <= 2 logs (4 varying fields) x Backends/LogConfigs absent (%d); the full "
                      "product of field states (3.4e9) is sampled by seeded draws" % (len(cases) - drawn, len(multis)))
    # 3. behaviours of the instance machine: transition cover + random walks
    r = ctx.tlc("ctfe", "MCLogConfig", ctx.pick("LogConfigInstCover.cfg", "LogConfigInstCoverBig.cfg"), workers=1, count=False, timeout=1200)
    behs = r.records.get("BEH", [])
    r = ctx.tlc("ctfe", "MCLogConfig", ctx.pick("LogConfigInstSim.cfg", "LogConfigInstSimBig.cfg"), simulate=ctx.pick(400, 20000), depth=30, count=False)
    behs += r.records.get("BEH", [])
    if not behs:
        raise Infra("no instance behaviour exported")
    # pair every accepted configuration with a behaviour of its kind and every behaviour with an accepted configuration
    rng = random.Random(ctx.seed)
    by_kind_c, by_kind_b = {}, {}
    for c in cases:
        if c["valid"] and c["c"]["backend"] == "trillian":
            by_kind_c.setdefault(kind_of_cfg(c["c"]), []).append(c)
    for b in behs:
        by_kind_b.setdefault(kind_of_beh(b), []).append(b)
    jobs = []
    for k, bs in sorted(by_kind_b.items()):
        cs = by_kind_c.get(k)
        if not cs:
            raise Infra("no accepted configuration of kind %s to build an instance from" % (k,))
        rng.shuffle(cs)
        rng.shuffle(bs)
        for i in range(max(len(cs), len(bs))):
            c = cs[i % len(cs)]
            jobs.append({"cfg": c["c"], "handlers": c["handlers"], "variant": i, "beh": bs[i % len(bs)]})
    ctx.log("instance replays: %d (%d behaviours, %d kinds)" % (len(jobs), len(behs), len(by_kind_b)))
    env = dict(ENV, VERIF_MAXSIZE=ctx.pick(4, 5))
    env.update(
               VERIF_CASES=ctx.write_ndjson("cases.ndjson", cases),
               VERIF_SETCASES=ctx.write_ndjson("setcases.ndjson", sets),
               VERIF_MULTICASES=ctx.write_ndjson("multicases.ndjson", multis),
               VERIF_JOBS=ctx.write_ndjson("jobs.ndjson", jobs))
    ctx.go_test("c15", run="TestReplay$", env=env, timeout=3000)
    # 4. the history layer: sessions of validations in one process (a process of its own: nothing the case replay left behind)
    if big:
        ctx.tlc("ctfe", "LogConfigHistMC", "LogConfigHistPairs.cfg", timeout=3000)
    walks = history_walks(ctx)
    ctx.go_test("c15", run="TestHistory$", name="c15-history", env=dict(ENV, VERIF_WALKS=ctx.write_ndjson("walks.ndjson", walks)),
                timeout=3000)


def run_replay(ctx, replay):
    with open(replay) as f:
        rp = json.load(f)["replay"]
    env = dict(ENV)
    kind = rp.get("kind")
    if kind == "instance":
        if len(rp["job"]["beh"]["steps"]) and max(s["backend"] for s in rp["job"]["beh"]["steps"]) > 4:
            env["VERIF_MAXSIZE"] = 5
        env["VERIF_JOBS"] = ctx.write_ndjson("jobs.ndjson", [rp["job"]])
    elif kind == "history":
        # a history finding: the session again, alone, in a fresh process
        env["VERIF_WALKS"] = ctx.write_ndjson("walks.ndjson", [dict(rp["walk"], idx=rp.get("idx", 0))])
        ctx.go_test("c15", run="TestHistory$", name="c15-history", env=env)
        return
    elif kind in ("single", "set", "multi"):
        case = dict(rp["case"], variant=rp.get("variant", 0))
        if "spelling" in rp:
            case["spelling"] = rp["spelling"]
        name = {"single": "VERIF_CASES", "set": "VERIF_SETCASES", "multi": "VERIF_MULTICASES"}[kind]
        env[name] = ctx.write_ndjson("case.ndjson", [case])
    else:
        raise Infra("replay file of unknown kind %r" % kind)
    ctx.go_test("c15", run="TestReplay$", env=env)
