"""C05 - signature verification accepts exactly the valid log signatures.

spec/codec/SigVerify.tla is a case-analysis specification: a signed object (SCT over an X.509 / precert entry,
STH, signed log list, DigitallySigned blob) validly signed by a key of some type under some hash, presented
after exactly one mutation (a signed field, the key, the declared hash or signature code, the signature value),
with the verdict "ok" / "error" derived from the property text; plus the verifier-constructor table (key policy
and the opt-in for non-compliant keys) and the CreateSignature table.  TLC enumerates the full product, checks
the laws of the table (acceptance only for the unmutated object and for bytes trailing a DER value; a declared
algorithm that does not match the key is an error; no third outcome; policy monotone in the opt-in) and exports
every case.  harness/c05 executes each case with real keys: object encoded and signed with std crypto only,
mutation applied to real bytes, every entry point of the repository called under recover().
"""
import json

from vlib import Infra

LEVEL = "model_checking"

ASSUME = [
    "unforgeability of RSASSA-PKCS1-v1_5 / DSA / ECDSA and collision resistance of the digests: a signature value is "
    "a token in the specification, 'cryptographically valid' is decided by Go's crypto packages in the harness "
    "(independent of the repository's tls/asn1 packages)",
    "named clauses for behaviour the property text leaves open: HashSupport (codes 1..6 = md5..sha512 select a hash, "
    "0 and 7..255 none), LogListAlgorithms (a signed log list implies SHA-256 and the scheme of the presented RSA/ECDSA "
    "key), StrictDER (non-minimal INTEGER / length encodings are not DER), CreateKeys (CreateSignature signs with RSA "
    "and ECDSA keys only)",
    "one mutation at a time; key sizes RSA 1024/2048 (3072 thorough), P-256/384/521 (P-224 thorough), DSA L1024N160 "
    "(L2048N256 thorough), Ed25519; constructor table additionally RSA 512/2047/4096 moduli, X25519, nil",
    "quick tier: declared-algorithm mutations use representatives of every code class (all supported hashes, 0, 7, 8, "
    "128, 255; signature codes 0..4, 7, 64, 255); thorough tier: every code 0..255",
]


def run(ctx, replay=None):
    ctx.assumptions += ASSUME
    if replay:
        with open(replay) as f:
            rp = json.load(f)
        r = rp.get("replay") or {}
        case = r.get("case")
        if not case:
            # a bit-flip finding: re-run the flips of that seed up to the failing one
            n = max(int(r.get("flip", 0)) + 1, 3000)
            ctx.go_test("c05", run="TestReplay$", env={"VERIF_CASES": ctx.write_ndjson("cases.ndjson", []),
                                                        "VERIF_FLIPS": n}, timeout=3000)
            return
        if "idx" in r:
            case = dict(case, idx=r["idx"])
        path = ctx.write_ndjson("cases.ndjson", [case])
        ctx.go_test("c05", run="TestReplay$", env={"VERIF_CASES": path}, timeout=3000)
        return
    # 1. the decision table: TLC enumerates every case, checks the laws, exports the cases
    r = ctx.tlc("codec", "MCSigVerify", ctx.pick("SigVerify.cfg", "SigVerifyFull.cfg"), workers=1, timeout=3000,
                java_opts=["-XX:ParallelGCThreads=2"])
    cases = r.records.get("CASE", [])
    if not cases or len(cases) != r.distinct:
        raise Infra("TLC exported %d cases for %d states" % (len(cases), r.distinct))
    ctx.exhaustive = True
    kinds = {}
    for c in cases:
        kinds[c["c"]["kind"]] = kinds.get(c["c"]["kind"], 0) + 1
    ctx.log("cases: %s" % ", ".join("%s=%d" % kv for kv in sorted(kinds.items())))
    ok = [c for c in cases if c["c"]["kind"] not in ("Ctor", "Create") and c["expect"] == "ok"]
    if not ok or any(c["c"]["mut"]["m"] not in ("none", "value") for c in ok):
        raise Infra("decision table vacuous or accepting a mutated object")
    # 2. every case against the real code, plus seeded single-bit flips
    path = ctx.write_ndjson("cases.ndjson", cases)
    ctx.go_test("c05", run="TestReplay$", env={"VERIF_CASES": path, "VERIF_FLIPS": ctx.pick(3000, 60000)}, timeout=3000)
