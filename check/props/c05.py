"""C05 - signature verification accepts exactly the valid log signatures.

spec/codec/SigVerify.tla is a case-analysis specification: a signed object (SCT over an X.509 / precert entry,
STH, signed log list, DigitallySigned blob) validly signed by a key of some type under some hash, presented
after exactly one mutation (a signed field, the key, the declared hash or signature code, the signature value),
with the verdict "ok" / "error" derived from the property text; plus the verifier-constructor table (key policy
and the opt-in for non-compliant keys) and the CreateSignature table.  TLC enumerates the full product, checks
the laws of the table (acceptance only for the unmutated object and for bytes trailing a DER value; a declared
algorithm that does not match the key is an error; no third outcome; policy monotone in the opt-in) and exports
every case.  harness/c05 executes each case with real keys: object encoded and signed with std crypto only,
mutation applied to real bytes, every entry point of the repository called under recover().

History layer (spec/codec/SigVerifyHist.tla): verification is a FUNCTION of its arguments.  A session is one signed
object and a sequence of calls presenting it (valid, one mutation, valid again, the same call twice, the opt-in
toggled); the laws are Function (every call returns what it returns alone), ArgsKept (arguments are not modified)
and DestFree (nothing depends on what the caller's re-used objects held before).  The spec models the non-functions
explicitly - Memo(x), an implementation that answers from its last call whenever the arguments agree on everything
but component x - and TLC records which of them every exported walk exposes; the driver refuses a set of walks that
does not expose every independently changeable component of every object kind in both directions.  harness/c05
(TestHistory) replays the sessions on ONE set of caller objects rewritten in place, one session after the other on
one goroutine; TestHistoryConcurrent runs a sample in parallel and on shared objects under the race detector.

Two further dimensions (round 5).  (a) The SHAPE of the certificate chain a precertificate SCT is verified against
(clause EntryFromChain; the Issuance / Orders of spec/ctfe/EntryShapes.tla): issued directly or by a precertificate
signing certificate (key-id AKI, keyid+issuer+serial AKI, CT usage listed second) x the RFC 6962 extension that is
taken out (poison; SCT list of the embedded form) last / directly before the authority key identifier / first.  The
verdict must not depend on it (ShapeIrrelevant); the signed TBSCertificate of every shape is derived by harness/ref from
the verbatim DER elements and signed with std crypto, so ctutil.VerifySCT -> x509.BuildPrecertTBS / RemoveSCTList is
compared with an independent oracle.  (b) ERRORS inside a session (clause Unencodable): a field value outside the domain
of its RFC 5246 field (extensions > 65535 bytes, empty / over-long certificate or TBSCertificate, undefined entry type)
has no signed bytes: the call is refused - and leaves nothing behind.  SigVerifyHist.tla models the non-function
Residue (what a refused call had emitted is taken up by the next call that builds signed bytes) next to Memo(x): refused
presentations of the session's own object and Interludes (an unencodable object of another kind, same goroutine, same
verifiers) are session steps, the value form "glued" is a genuine signature over residue || canonical bytes, and the
driver demands that the walks expose Residue in both directions for every kind that builds signed bytes.

The FORM of the bytes (round 9; clauses ExactBytes, ListIsJSON).  A signed log list and a DigitallySigned blob are handed
to the verifier as bytes: "exactly the canonical signed bytes" are the signer's, octet for octet.  The same document D
written another way - a UTF-8 byte order mark or white space in front, white space / a final newline / NUL behind, CRLF
for LF, letter case a tolerant reader ignores, the same JSON value serialised again (compact, members reordered, backslash-u
escapes) - is other bytes.  The table crosses the form an object was SIGNED in with the form it is PRESENTED in (the
signature value untouched): equal forms verify, different forms do not, whichever of the two is the plain one.  The
specification models the non-functions of the bytes explicitly - Strip(x) / Add(x): a verifier that reads form x as
plain / plain as form x before it verifies - and TLC checks (NormExposed) that the table holds a false accept and a false
reject for each.  loglist3.NewFromSignedJSON additionally parses: signed bytes that are not a JSON text (BOM, NUL) are
refused by the parser, and must not be reported as a failed verification.  Sessions sign in any form and present
the others on the same buffers ("dataform" is a component every walk set must expose in both directions).
"""
import json

from vlib import Infra

LEVEL = "model_checking"

ASSUME = [
    "unforgeability of RSASSA-PKCS1-v1_5 / DSA / ECDSA and collision resistance of the digests: a signature value is "
    "a token in the specification, 'cryptographically valid' is decided by Go's crypto packages in the harness "
    "(independent of the repository's tls/asn1 packages)",
    "named clauses for behaviour the property text leaves open: HashSupport (codes 1..6 = md5..sha512 select a hash, "
    "0 and 7..255 none), LogListAlgorithms (a signed log list implies SHA-256 and the scheme of the presented RSA/ECDSA "
    "key), StrictDER (non-minimal INTEGER / length encodings are not DER), CreateKeys (CreateSignature signs with RSA "
    "and ECDSA keys only)",
    "one mutation at a time; key sizes RSA 1024/2048 (3072 thorough), P-256/384/521 (P-224 thorough), DSA L1024N160 "
    "(L2048N256 thorough), Ed25519; constructor table additionally RSA 512/2047/4096 moduli, X25519, nil",
    "quick tier: declared-algorithm mutations use representatives of every code class (all supported hashes, 0, 7, 8, "
    "128, 255; signature codes 0..4, 7, 64, 255); thorough tier: every code 0..255",
    "history layer: sessions are random walks drawn by TLC's simulator (600 of 10 calls quick, 2000 of 14 calls thorough), "
    "not an enumeration; what they must contain is fixed by the specification (every one-component-coarse one-entry memo "
    "exposed in both directions per object kind) and checked on every run; quick tier without P-521 keys; algorithm-code "
    "mutations inside sessions use representatives of the code classes in both tiers",
    "named clause LeafTimestampAdjusted: ctutil.LogInfo.VerifySCTSignature writes the SCT's timestamp into the caller's "
    "leaf (documented as 'adjusted for the timestamp in the SCT'); that field at that entry point is exempt from ArgsKept",
    "ctutil.LeafHash/LeafHashB64 are checked as functions only (equal arguments equal hash, different (certificate, issuer "
    "key, timestamp) different hash); the value is C04's",
    "named clause EntryFromChain: the signed TBSCertificate of a precertificate chain is the precertificate's with exactly "
    "the poison taken out and, behind a precertificate signing certificate, the final issuer's name and authority key "
    "identifier in place (RFC 6962 3.2), computed by harness/ref from the verbatim DER; one-call table: the 11 non-standard "
    "shapes (issuance direct/viaP/viaPf/viaPm x poison or SCT list last/before the AKI/first) are crossed with SHA-256 and "
    "the mutations that touch the signed bytes (none, every signed field, unencodable fields, another key, glued value); "
    "sessions draw any shape with any mutation.  Not asserted: a precertificate without an authority key identifier "
    "behind a signing certificate that has one (and the converse), where RFC 6962 does not say what the final certificate carries",
    "named clause Unencodable: extensions of 65536 bytes and more, an empty certificate / TBSCertificate (one of 2^24 bytes "
    "in the thorough tier), an entry type other than 0 / 1 have no encoding, hence no signed bytes: refused with an error. "
    "Go-level malformations of the caller's LogEntry (nil TimestampedEntry, nil arm pointers) are not presented",
    "named clause ExactBytes: the bytes of a log list / blob in the forms plain, bom-prefix (EF BB BF), ws-prefix (space, tab, LF, "
    "CRLF), ws-suffix (LF, CRLF, space, tab), nul-suffix, crlf (every LF as CRLF), case (log list: member names, which Go's JSON "
    "decoder matches case-insensitively; blob: ASCII letters), compact / reordered / escaped (log list: the same JSON value "
    "serialised again); signed-form x presented-form is crossed under SHA-256 with no other mutation; objects signed in the plain "
    "form take the form change as one more single mutation under every hash; other normalisations (Unicode normalisation, "
    "other encodings of the text, duplicate members) are not presented",
    "named clause ListIsJSON: loglist3.NewFromSignedJSON returns a list iff the signature is valid over exactly the bytes and "
    "they are a JSON text (RFC 8259: surrounding white space allowed, BOM and NUL not); for validly signed non-JSON bytes the "
    "refusal must not be worded as a failed signature verification (the text 'verify signature' of its error is looked for; "
    "a reworded error makes this one observation silent, never a false alarm)",
    "Residue (history): the glued value signs (prefix || canonical bytes) where the prefix is what an RFC 5246 encoder has "
    "emitted of the refused CertificateTimestamp when it meets the unencodable field (arbitrary bytes when nothing was "
    "refused before); an implementation leaving other residue is caught in the stale-reject direction only",
]


def history_walks(ctx):
    """TLC draws the sessions, checks the laws of the history on every state and tells which memos each walk exposes."""
    n = ctx.pick(600, 2000)
    kinds = ("SCTx509", "SCTprecert", "STH", "LogList", "Blob")
    walks, exposed, required, count = [], {}, {}, {}
    seed0 = ctx.seed
    for attempt in range(3):
        # (the walks are random: should a draw lack a neighbour pair the specification requires, more are drawn)
        ctx.seed = seed0 + 7919 * attempt
        try:
            r = ctx.tlc("codec", "MCSigVerifyHist", ctx.pick("SigVerifyHist.cfg", "SigVerifyHistFull.cfg"), workers=1,
                        simulate=n, timeout=3000, java_opts=["-XX:ParallelGCThreads=2"])
        finally:
            ctx.seed = seed0
        got = r.records.get("WALK", [])
        if len(got) != n:
            raise Infra("TLC exported %d walks, %d asked for" % (len(got), n))
        walks += got
        for w in got:
            k = w["base"]["kind"]
            count[k] = count.get(k, 0) + 1
            exposed.setdefault(k, set()).update(tuple(e) for e in w["exposed"])
            required.setdefault(k, set()).update(tuple(e) for e in w["required"])
        missing = {k: sorted(required.get(k, {("no session",)}) - exposed.get(k, set())) for k in kinds}
        missing = {k: v for k, v in missing.items() if v}
        if not missing:
            break
        ctx.log("walks lack %s; drawing more" % missing)
    else:
        raise Infra("the walks do not tell the function from every coarse memo: never exposed: %s" % missing)
    ctx.log("sessions: %s; every component of every kind exposed as stale accept and as stale reject" % ", ".join(
        "%s=%d" % kv for kv in sorted(count.items())))
    ctx.notes["history_exposed"] = {k: sorted("%s/%s" % e for e in v) for k, v in exposed.items()}
    return [{"base": w["base"], "calls": w["calls"]} for w in walks]


def run(ctx, replay=None):
    ctx.assumptions += ASSUME
    if replay:
        with open(replay) as f:
            rp = json.load(f)
        r = rp.get("replay") or {}
        if r.get("walk"):
            # a history finding: the session again, alone (what earlier sessions left behind is not reproduced)
            path = ctx.write_ndjson("walks.ndjson", [dict(r["walk"], idx=r.get("idx", 0))])
            if r.get("concurrent"):
                ctx.go_test("c05", run="TestHistoryConcurrent$", env={"VERIF_WALKS": path}, race=True, timeout=3000,
                            name="c05-history-concurrent")
            else:
                ctx.go_test("c05", run="TestHistory$", env={"VERIF_WALKS": path}, timeout=3000, name="c05-history")
            return
        case = r.get("case")
        if not case:
            # a bit-flip finding: re-run the flips of that seed up to the failing one
            n = max(int(r.get("flip", 0)) + 1, 3000)
            ctx.go_test("c05", run="TestReplay$", env={"VERIF_CASES": ctx.write_ndjson("cases.ndjson", []),
                                                        "VERIF_FLIPS": n}, timeout=3000)
            return
        if "idx" in r:
            case = dict(case, idx=r["idx"])
        path = ctx.write_ndjson("cases.ndjson", [case])
        ctx.go_test("c05", run="TestReplay$", env={"VERIF_CASES": path}, timeout=3000)
        return
    # 1. the decision table: TLC enumerates every case, checks the laws, exports the cases
    r = ctx.tlc("codec", "MCSigVerify", ctx.pick("SigVerify.cfg", "SigVerifyFull.cfg"), workers=1, timeout=3000,
                java_opts=["-XX:ParallelGCThreads=2"])
    cases = r.records.get("CASE", [])
    if not cases or len(cases) != r.distinct:
        raise Infra("TLC exported %d cases for %d states" % (len(cases), r.distinct))
    ctx.exhaustive = True
    kinds = {}
    for c in cases:
        kinds[c["c"]["kind"]] = kinds.get(c["c"]["kind"], 0) + 1
    ctx.log("cases: %s" % ", ".join("%s=%d" % kv for kv in sorted(kinds.items())))
    ok = [c for c in cases if c["c"]["kind"] not in ("Ctor", "Create") and c["expect"] == "ok"]
    if not ok or any(c["c"]["mut"]["m"] not in ("none", "value") for c in ok):
        raise Infra("decision table vacuous or accepting a mutated object")
    # the form dimension (ExactBytes): for every kind handed over as bytes, every ordered pair of different forms is a
    # case that must fail, and every form is a case that verifies as signed
    for kind, nforms in (("LogList", 10), ("Blob", 7)):
        fc = [c for c in cases if c["c"]["kind"] == kind and c["c"]["mut"]["m"] in ("none", "norm")]
        pairs = {(c["c"]["dform"], c["pform"]) for c in fc}
        forms = {a for a, _ in pairs}
        accepted = {(c["c"]["dform"], c["pform"]) for c in fc if c["expect"] == "ok"}
        if len(forms) != nforms or len(pairs) != nforms * nforms or accepted != {(f, f) for f in forms}:
            raise Infra("form dimension of %s incomplete: %d forms, %d (signed, presented) pairs, accepted %s" % (
                kind, len(forms), len(pairs), sorted(accepted)))
    ctx.notes["forms"] = sorted({c["c"]["dform"] for c in cases})
    # 2. the history layer: TLC draws sessions over the same table (every session of two calls exhaustively in the
    #    thorough tier: the laws of the history as invariants)
    if ctx.thorough():
        ctx.tlc("codec", "MCSigVerifyHist", "SigVerifyHistPairs.cfg", timeout=3000)
    walks = history_walks(ctx)
    # 3. every case against the real code, plus seeded single-bit flips (TestReplay, in parallel); then, in the same
    #    process but alone on one goroutine, every session on re-used caller objects (TestHistory)
    path = ctx.write_ndjson("cases.ndjson", cases)
    wpath = ctx.write_ndjson("walks.ndjson", walks)
    ctx.go_test("c05", run="TestReplay$|TestHistory$", timeout=3000,
                env={"VERIF_CASES": path, "VERIF_FLIPS": ctx.pick(3000, 60000), "VERIF_WALKS": wpath})
    # 4. a sample of the sessions in parallel and on shared objects, under the race detector
    spath = ctx.write_ndjson("walks-sample.ndjson", walks[:ctx.pick(100, 300)])
    ctx.go_test("c05", run="TestHistoryConcurrent$", env={"VERIF_WALKS": spath}, race=True, timeout=3000,
                name="c05-history-concurrent")
