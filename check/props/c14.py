"""C14 - storing issuance chains outside the backend is invisible to readers.

spec/ctfe/ChainStore.tla: submissions, sequencing, legacy full-chain entries, reads, the detached cache write as a
separate action, storage faults / dropped / damaged rows, for the noop cache and LRU capacities unbounded / 1 / 2, and
for three storage layers below the cache (constant Dialect): "memory", "mysql" (INSERT; duplicate key = error 1062,
swallowed by Add), "postgresql" (INSERT ... ON CONFLICT DO NOTHING).  Per dialect the specification states the
de-duplication path, what a re-Add does to the row that is there, the error classes of a SQL connection and what the
storage layer hands to the service.
Binding: behaviours replayed on twin real instances (direct and external storage; the real cache behind a gate that
lets the harness fire the detached cache.Set where the behaviour says), every served entry compared byte for byte;
storage call counts compared with the specification's hit/miss.  One process serves several logs (constant Logs):
every log has its own backend, its own storage table and its own cache, every cache built by the repository's
constructor (cache.NewIssuanceChainCache) from the same options (LogsIndependent; AckedIsStored: what a log acknowledges
is in the table of THAT log).  A failed storage.Add leaves no trace - in particular no cache write, now or later - and
the re-submission (same leaf, or another leaf of the same issuer) stores the chain before it is acknowledged; every
cache write that arrives at the gate is judged: it is sound only if its own request got that chain into or out of the
storage under that hash.  get-entries pages: the completion order of the per-leaf work (Orders, materialized as
latencies of the storage lookups) and a leaf the backend returns garbled (GarbleClasses x position) never change that
a page with a leaf that cannot be fixed is an error (RangeWhole, GarbledLeafIsError, RangeOrderIrrelevant).  Named
defects switched on in the model only (cacheOnFailedAdd, sharedCache, pageLastWins) must be refuted by TLC
(non-vacuity of AckedServable / RangeWhole).  The external twin's storage is, per Dialect, the
in-memory stand-in or the repository's real mysql / postgresql IssuanceChainStorage running on an in-process
database/sql driver (harness/sqlfake) that interprets the statements with the dialect's semantics; what the storage
layer answers and which path the database took are compared with the specification step by step.  Everything handed
to a storage must decode (with a DER reader of the harness' own) to the submitted chain under its own SHA-256.  Plus an
ungated run under -race over the three storage layers with two logs: failed Add then re-submission with the cache as
the implementation left it, bursts of overlapping submissions (chains of 0, 1 and 3 certificates), random writers and
readers, restart and cold reads of every entry; plus the complete page matrix (one unfixable leaf first / middle /
last x 7 classes x 4 completion orders).
spec/ctfe/ChainStorePaging.tla: the PAGE dimension - a long tree (entry types x four chains x hash / legacy layout in
a period of 9), get-entries responses of the length classes around the powers of two and multiples of four (+-1..3),
round sizes, the configured limit and beyond, aligned / unaligned starts, ending at and running over the head of the
tree, every cache configuration and state, lost / damaged rows, a storage fault, a garbled leaf at position classes of
a long response.  The per-leaf work of a response may be split among any number of workers (stripes / round robin)
finishing in any order: PartitionCovers, PageWhole (200 = as many entries as the default mode serves, none left in the
stored form), UnfixableIsError, PlanIrrelevant, LegacyNeedsNoLookup, PageLeavesState; named clauses Clip / Align
(number of entries) and Lookups (one storage lookup per leaf in hash form the cache does not hold).  Named defects
(tailDropped, laterWorkerErrorLost) must be refuted.  Binding: simulated behaviours replayed on twin instances over
the long tree (TestChainStorePaging): EVERY entry of every response byte for byte against the default mode.
"""
import json
from concurrent.futures import ThreadPoolExecutor

from vlib import Infra

CAPS = ["Capm1", "Cap0", "Cap1", "Cap2"]
DIALECTS = ["", "Mysql", "Postgresql"]  # cfg suffix; "" = memory


def run(ctx, replay=None):
    ctx.assumptions += [
        "the SQL servers are replaced by an in-process database/sql driver (harness/sqlfake) that holds the IssuanceChain "
        "table and interprets the statements the repository's mysql / postgresql IssuanceChainStorage send with the "
        "dialect's semantics (placeholders, identifier rules, primary key, NOT NULL, INSERT IGNORE / ON DUPLICATE KEY / "
        "ON CONFLICT, the drivers' own error values: *mysql.MySQLError 1062, *pgconn.PgError 23505, driver.ErrBadConn); "
        "a statement it cannot interpret is an error.  The network protocol, the real drivers' encoders and the servers' "
        "transaction machinery are out of scope; database/sql itself (pool, retry on a lost connection, Scan) is the real one",
        "the in-memory IssuanceChainStorage (unknown key = error, Add assigns) is kept as a third storage layer; the real "
        "lru / noop cache implementations behind a gating wrapper; TTL expiry exercised only in the ungated concurrent run "
        "where the law is output equality",
        "twin instances share PKI, log key and clock; 5 certificates over 3 issuance chains including the empty chain "
        "(trusted root submitted alone); three of them share one chain hash (the de-duplication path); the logs of one "
        "process (two in the simulated behaviours) share PKI, key and clock as well and differ in backend, table and cache",
        "the completion order of the per-leaf work of a page is materialized as latencies of the storage lookups "
        "(time.Sleep of fractions of a millisecond inside the storage stand-in): they perturb the schedule, no verdict "
        "depends on a duration; a cache write the gate holds longer than 120 s is let through and ends the judging of "
        "that behaviour (a changed implementation whose request waits for its own detached write would otherwise hang)",
    ]
    if replay:
        with open(replay) as f:
            rp = json.load(f)["replay"]
        if "paging" in rp:
            path = ctx.write_ndjson("replay-paging.ndjson", [rp["paging"]])
            ctx.go_test("cctfe", run="TestChainStorePaging$", env={"VERIF_BEHAVIOURS": path}, timeout=3000, name="paging")
            return
        beh = rp["behaviour"]
        path = ctx.write_ndjson("replay.ndjson", [beh])
        ctx.go_test("cctfe", run="TestChainStore$", env={"VERIF_BEHAVIOURS": path}, timeout=3000)
        return
    nsim = {"": ctx.pick(130, 3000), "Mysql": ctx.pick(100, 2500), "Postgresql": ctx.pick(100, 2500)}
    # the TLC runs are independent of each other: a few at a time (ctx.tlc keeps its per-run records by appending;
    # the state counts are added here, in one thread).  Capx configs: one log, every cache kind x dialect, one
    # completion order and (in-memory layer) one garble class (NextLean); ChainStorePages: every order, a garble class
    # of each kind, pages of up to three leaves (Big: every class, LRU); ChainStoreLogs: two logs in one process.
    exhaustive = ["ChainStore%s%s.cfg" % (cap, d) for d in DIALECTS for cap in CAPS]
    exhaustive += list(ctx.pick(("ChainStorePages.cfg", "ChainStoreLogs.cfg"), ("ChainStorePages.cfg", "ChainStorePagesBig.cfg", "ChainStoreLogs.cfg", "ChainStoreLogsBig.cfg")))
    # non-vacuity (run alongside): with a named defect switched on in the model TLC must find the acknowledged-but-not-
    # stored entry (retry after a failed Add whose cache write happened anyway; a second log answered from the first
    # log's cache) and the page served although a leaf cannot be fixed (the leaf that completes last decides)
    defects = ["ChainStoreDefectRetry.cfg", "ChainStoreDefectShared.cfg", "ChainStoreDefectPage.cfg"]
    # the page dimension (ChainStorePaging.tla): one response of every length x start x plan x completion order of the
    # workers x unfixable leaf from every resting state; every history of the resting state with a few lengths; the
    # defects "the last n % W leaves are nobody's" and "only the first worker's error counts" must be refuted
    paging = list(ctx.pick(("ChainStorePaging.cfg", "ChainStorePagingHist.cfg"),
                           ("ChainStorePaging.cfg", "ChainStorePagingHist.cfg", "ChainStorePagingBig.cfg", "ChainStorePagingHistBig.cfg")))
    exhaustive += paging
    defects += ["ChainStorePagingDefectTail.cfg", "ChainStorePagingDefectError.cfg"]

    def one(cfg):
        module = "MCChainStorePaging" if cfg.startswith("ChainStorePaging") else "MCChainStore"
        if cfg in defects:
            return ctx.tlc("ctfe", module, cfg, workers=2, timeout=600, expect_violation=True, count=False)
        return ctx.tlc("ctfe", module, cfg, workers=5, timeout=3000, count=False)

    with ThreadPoolExecutor(max_workers=3) as pool:
        for cfg, r in zip(exhaustive + defects, list(pool.map(one, exhaustive + defects))):
            if cfg in defects:
                if not r.violated:
                    raise Infra(cfg + ": TLC did not refute the property in the defective model (the property would be vacuous)")
                continue
            ctx.states += r.distinct
            ctx.transitions += r.generated
    sims = [(cap, d) for d in DIALECTS for cap in CAPS]
    with ThreadPoolExecutor(max_workers=4) as pool:
        # (the page behaviours are drawn alongside: cache configuration and storage layer are chosen at Init)
        pg = pool.submit(lambda: ctx.tlc("ctfe", "MCChainStorePaging", ctx.pick("ChainStorePagingSim.cfg", "ChainStorePagingSimBig.cfg"),
                                         simulate=ctx.pick(48, 160), depth=600, count=False, timeout=3000))
        results = list(pool.map(lambda cd: ctx.tlc("ctfe", "MCChainStore", "ChainStoreSim%s%s.cfg" % cd, simulate=nsim[cd[1]], depth=40, count=False), sims))
        pages = pg.result().records.get("BEH", [])
    if not pages:
        raise Infra("no page behaviours")
    behs = []
    for (cap, d), r in zip(sims, results):
        b = r.records.get("BEH", [])
        if not b:
            raise Infra("no behaviours for " + cap + d)
        behs += b
    path = ctx.write_ndjson("behaviours.ndjson", behs)
    ctx.go_test("cctfe", run="TestChainStore$", env={"VERIF_BEHAVIOURS": path}, timeout=3000)
    ctx.go_test("cctfe", run="TestChainStoreBackendFaults$", timeout=600, name="backendfaults")
    ctx.go_test("cctfe", run="TestChainStorePaging$", env={"VERIF_BEHAVIOURS": ctx.write_ndjson("pages.ndjson", pages)}, timeout=3000, name="paging")
    ctx.go_test("cctfe", run="TestChainStoreConcurrent$", env={"VERIF_ROUNDS": ctx.pick(6, 42)}, race=True, timeout=3000,
                name="concurrent")
