"""C14 - storing issuance chains outside the backend is invisible to readers.

spec/ctfe/ChainStore.tla: submissions, sequencing, legacy full-chain entries, reads, the detached cache write as a
separate action, storage faults / dropped / damaged rows, for the noop cache and LRU capacities unbounded / 1 / 2.
Binding: behaviours replayed on twin real instances (direct and external storage; the real cache behind a gate that
lets the harness fire the detached cache.Set where the behaviour says), every served entry compared byte for byte;
storage call counts compared with the specification's hit/miss; plus an ungated concurrent run under -race.
"""
import json

from vlib import Infra

CAPS = ["Capm1", "Cap0", "Cap1", "Cap2"]


def run(ctx, replay=None):
    ctx.assumptions += [
        "in-memory IssuanceChainStorage standing in for MySQL/PostgreSQL (unknown key = error, idempotent Add); the real "
        "lru / noop cache implementations behind a gating wrapper; TTL expiry exercised only in the ungated concurrent run "
        "where the law is output equality",
        "twin instances share PKI, log key and clock; 5 certificates over 3 issuance chains including the empty chain "
        "(trusted root submitted alone)",
    ]
    if replay:
        with open(replay) as f:
            beh = json.load(f)["replay"]["behaviour"]
        path = ctx.write_ndjson("replay.ndjson", [beh])
        ctx.go_test("cctfe", run="TestChainStore$", env={"VERIF_BEHAVIOURS": path}, timeout=3000)
        return
    behs = []
    for cap in CAPS:
        ctx.tlc("ctfe", "MCChainStore", "ChainStore%s.cfg" % cap, workers=8, timeout=1500)
        r = ctx.tlc("ctfe", "MCChainStore", "ChainStoreSim%s.cfg" % cap, simulate=ctx.pick(150, 3000), depth=34, count=False)
        b = r.records.get("BEH", [])
        if not b:
            raise Infra("no behaviours for " + cap)
        behs += b
    path = ctx.write_ndjson("behaviours.ndjson", behs)
    ctx.go_test("cctfe", run="TestChainStore$", env={"VERIF_BEHAVIOURS": path}, timeout=3000)
    ctx.go_test("cctfe", run="TestChainStoreBackendFaults$", timeout=600, name="backendfaults")
    ctx.go_test("cctfe", run="TestChainStoreConcurrent$", env={"VERIF_ROUNDS": ctx.pick(6, 40)}, race=True, timeout=3000,
                name="concurrent")
