"""C14 - storing issuance chains outside the backend is invisible to readers.

spec/ctfe/ChainStore.tla: submissions, sequencing, legacy full-chain entries, reads, the detached cache write as a
separate action, storage faults / dropped / damaged rows, for the noop cache and LRU capacities unbounded / 1 / 2, and
for three storage layers below the cache (constant Dialect): "memory", "mysql" (INSERT; duplicate key = error 1062,
swallowed by Add), "postgresql" (INSERT ... ON CONFLICT DO NOTHING).  Per dialect the specification states the
de-duplication path, what a re-Add does to the row that is there, the error classes of a SQL connection and what the
storage layer hands to the service.
Binding: behaviours replayed on twin real instances (direct and external storage; the real cache behind a gate that
lets the harness fire the detached cache.Set where the behaviour says), every served entry compared byte for byte;
storage call counts compared with the specification's hit/miss.  The external twin's storage is, per Dialect, the
in-memory stand-in or the repository's real mysql / postgresql IssuanceChainStorage running on an in-process
database/sql driver (harness/sqlfake) that interprets the statements with the dialect's semantics; what the storage
layer answers and which path the database took are compared with the specification step by step.  Plus an ungated
concurrent run under -race over the three storage layers.
"""
import json
from concurrent.futures import ThreadPoolExecutor

from vlib import Infra

CAPS = ["Capm1", "Cap0", "Cap1", "Cap2"]
DIALECTS = ["", "Mysql", "Postgresql"]  # cfg suffix; "" = memory


def run(ctx, replay=None):
    ctx.assumptions += [
        "the SQL servers are replaced by an in-process database/sql driver (harness/sqlfake) that holds the IssuanceChain "
        "table and interprets the statements the repository's mysql / postgresql IssuanceChainStorage send with the "
        "dialect's semantics (placeholders, identifier rules, primary key, NOT NULL, INSERT IGNORE / ON DUPLICATE KEY / "
        "ON CONFLICT, the drivers' own error values: *mysql.MySQLError 1062, *pgconn.PgError 23505, driver.ErrBadConn); "
        "a statement it cannot interpret is an error.  The network protocol, the real drivers' encoders and the servers' "
        "transaction machinery are out of scope; database/sql itself (pool, retry on a lost connection, Scan) is the real one",
        "the in-memory IssuanceChainStorage (unknown key = error, Add assigns) is kept as a third storage layer; the real "
        "lru / noop cache implementations behind a gating wrapper; TTL expiry exercised only in the ungated concurrent run "
        "where the law is output equality",
        "twin instances share PKI, log key and clock; 5 certificates over 3 issuance chains including the empty chain "
        "(trusted root submitted alone); three of them share one chain hash (the de-duplication path)",
    ]
    if replay:
        with open(replay) as f:
            beh = json.load(f)["replay"]["behaviour"]
        path = ctx.write_ndjson("replay.ndjson", [beh])
        ctx.go_test("cctfe", run="TestChainStore$", env={"VERIF_BEHAVIOURS": path}, timeout=3000)
        return
    nsim = {"": ctx.pick(150, 3000), "Mysql": ctx.pick(110, 2500), "Postgresql": ctx.pick(110, 2500)}
    # the TLC runs are independent of each other: a few at a time (ctx.tlc keeps its per-run records by appending;
    # the state counts are added here, in one thread)
    exhaustive = [(cap, d) for d in DIALECTS for cap in CAPS]
    with ThreadPoolExecutor(max_workers=3) as pool:
        for r in list(pool.map(lambda cd: ctx.tlc("ctfe", "MCChainStore", "ChainStore%s%s.cfg" % cd, workers=5, timeout=1500, count=False), exhaustive)):
            ctx.states += r.distinct
            ctx.transitions += r.generated
    sims = [(cap, d) for d in DIALECTS for cap in CAPS]
    with ThreadPoolExecutor(max_workers=4) as pool:
        results = list(pool.map(lambda cd: ctx.tlc("ctfe", "MCChainStore", "ChainStoreSim%s%s.cfg" % cd, simulate=nsim[cd[1]], depth=34, count=False), sims))
    behs = []
    for (cap, d), r in zip(sims, results):
        b = r.records.get("BEH", [])
        if not b:
            raise Infra("no behaviours for " + cap + d)
        behs += b
    path = ctx.write_ndjson("behaviours.ndjson", behs)
    ctx.go_test("cctfe", run="TestChainStore$", env={"VERIF_BEHAVIOURS": path}, timeout=3000)
    ctx.go_test("cctfe", run="TestChainStoreBackendFaults$", timeout=600, name="backendfaults")
    ctx.go_test("cctfe", run="TestChainStoreConcurrent$", env={"VERIF_ROUNDS": ctx.pick(6, 42)}, race=True, timeout=3000,
                name="concurrent")
