"""C11 - the lenient X.509 parser is total, error-coherent and exact on well-formed input.

spec/codec/X509Parse.tla: the parse pipeline StrictDER -> LaxDER -> TrailingCheck -> FieldParse(..) as a
state machine over (certificate template x structure-preserving mutation); invariant Coherent (mixed
(object, error) outcomes unreachable).  TLC enumerates the case space and exports, per case, every outcome
class a final state can have = the set the contract allows; the ORDER of the extensions is a dimension of the
well-formed case (every permutation of up to three / four extensions, six schemes beyond; the unhandled critical
extensions are a function of the set: UnhandledIsOrderFree); a second machine gives the concatenation law of
ParseCertificates; a third one (history) states that parsing is a FUNCTION of the bytes handed in (Functional,
PerCertificate, ArgsIntact), checked exhaustively on histories of two calls, and generates random walks over
objects of one shape that differ in one slot (issuer / subject / alternative names in spellings of equal length,
or one mutation) through a fresh slice, the object's own slice and one re-used buffer.  Binding (harness/c11): every case is materialized with the standard library's encoder
and parsed by the fork (differential on well-formed input, class-in-allowed-set on mutated input); the
oracle-free laws (totality, coherence, raw-slice fidelity, concatenation) run on the repository's testdata
and on seeded mutations for all twelve entry points; extensions are permuted in the DER tree as the case says;
the histories are replayed serially and on concurrent goroutines (-race), every call compared with what the same
bytes give alone; b-after-a through one buffer, twice, and later again = b alone for all twelve entry points.
"""
import json
import os

from vlib import Infra

LEVEL = "model_checking"

ASSUME = [
    "crypto/x509 and encoding/asn1 of the installed toolchain (go1.24) are the conforming encoder and the reference "
    "parser for well-formed certificates (trusted base of the differential part)",
    "the fork's deliberate differences from the standard library are named clauses: D1 the RFC 6962 precertificate-signing "
    "EKU is a known ExtKeyUsage in the fork and an unknown one in crypto/x509 (x509.go ExtKeyUsageCertificateTransparency)",
    "templates: subsets of 15 extension kinds (quick: all of size <= 2, all-but-one, all; thorough: size <= 4) x 5 name string "
    "types x 3 key types x validity before/after 2050, payloads drawn from fixed pools with the seed; one mutation per case",
    "extension orders: all permutations for templates with <= 3 (thorough: 4) extensions, otherwise the encoder's order, its reverse, a "
    "rotation, uninterpreted extensions first / in the middle (both directions); mutated cases with a pinned outcome also in reverse order",
    "histories: 400 (thorough 4000) random walks of 12 calls over 6 shapes x 8 equal-layout variants x up to 7 mutations; 'alone' for a "
    "mutated object is the specification's class plus the parser's own reading from a never-seen slice; a history starts in whatever "
    "state earlier histories left (one process, one re-used buffer) - a law about a function must hold there too",
    "'for all byte strings' is sampled: testdata corpus, well-formed objects of every kind and seeded byte/TLV mutations; "
    "non-termination = no return within 10 s",
]

CLASSES = ("ok", "nonFatal", "fatal")


def build_cases(ctx, r):
    muts = {m["name"]: m for m in r.records.get("MUT", [])}
    if "none" not in muts:
        raise Infra("the specification did not export its mutation table")
    groups = {}
    for rec in r.records.get("CASE", []):
        t = rec["t"]
        t["exts"] = sorted(t["exts"])
        key = json.dumps(t, sort_keys=True)
        g = groups.setdefault(key, {"tpl": t, "muts": {}, "uce": {}})
        mk = (rec["m"], tuple(rec["o"]))
        g["muts"].setdefault(mk, set()).add(rec["r"])
        if rec["m"] == "none":
            g["uce"].setdefault(mk, set()).add(tuple(sorted(rec["u"])))
    if not groups:
        raise Infra("TLC exported no case")
    out, ncases, norders = [], 0, 0
    for key in sorted(groups):
        g = groups[key]
        ml = []
        for mk in sorted(g["muts"]):
            name, order = mk
            allowed = sorted(g["muts"][mk])
            if not set(allowed) <= set(CLASSES) or name not in muts:
                raise Infra("bad case export: %s %s" % (name, allowed))
            m = muts[name]
            mc = {"name": name, "allowed": allowed, "stage": m["stage"], "effect": m["effect"], "scope": m["scope"],
                  "part": m["part"], "ord": list(order)}
            if name == "none":
                u = g["uce"][mk]
                if len(u) != 1:
                    raise Infra("the unhandled critical extensions of %s in the order %s are not a function of the case: %s" % (key, order, u))
                mc["uce"] = list(next(iter(u)))
                norders += 1
            ml.append(mc)
            ncases += 1
        if any(m["allowed"] != ["ok"] for m in ml if m["name"] == "none"):
            raise Infra("specification does not give <<obj, nil>> for the unmutated template %s" % key)
        out.append({"tpl": g["tpl"], "muts": ml})
    used = {m["name"] for g in out for m in g["muts"]}
    if used != set(muts):
        raise Infra("mutations of the table never applicable to a template (vacuous rows): %s" % sorted(set(muts) - used))
    if norders < len(out) + len(out) // 2:
        raise Infra("the order dimension is vacuous: %d orders for %d templates" % (norders, len(out)))
    ctx.log("orders: %d (template, extension order) well-formed cases" % norders)
    return out, ncases


def sort_exts(x):
    """TLC prints sets in its own order: normalize the template records inside an exported history."""
    if isinstance(x, dict):
        if "exts" in x and isinstance(x["exts"], list):
            x["exts"] = sorted(x["exts"])
        for v in x.values():
            sort_exts(v)
    elif isinstance(x, list):
        for v in x:
            sort_exts(v)
    return x


def histories(ctx):
    """The history machine: the function law checked exhaustively on short histories, random walks exported."""
    ctx.tlc("codec", "MCX509Parse", ctx.pick("X509ParseHistory.cfg", "X509ParseHistoryFull.cfg"), timeout=3000)
    r = ctx.tlc("codec", "MCX509Parse", "X509ParseHistorySim.cfg", simulate=ctx.pick(400, 4000), depth=40, count=False)
    walks = [sort_exts(w) for w in r.records.get("HIST", [])]
    if len(walks) < ctx.pick(400, 4000):
        raise Infra("history run exported %d histories" % len(walks))
    if any(len(w["calls"]) != 12 for w in walks):
        raise Infra("history of unexpected length")
    return walks


def run(ctx, replay=None):
    ctx.assumptions += ASSUME
    if replay:
        ctx.go_test("c11", run="TestReplayOne$", env={"VERIF_C11_REPLAY": os.path.abspath(replay)})
        return
    # 1. the case space: templates x mutations, Coherent and the other invariants on every state, CASE export
    r = ctx.tlc("codec", "MCX509Parse", ctx.pick("X509ParseQuick.cfg", "X509ParseThorough.cfg"), workers=1, timeout=3000)
    groups, ncases = build_cases(ctx, r)
    # 2. the concatenation law
    rc = ctx.tlc("codec", "MCX509Parse", "X509ParseConcat.cfg", workers=1)
    concat = rc.records.get("CONCAT", [])
    if len(concat) < 30:
        raise Infra("concatenation run exported %d cases" % len(concat))
    # 2b. the history machine (parsing is a function of the bytes handed in)
    walks = histories(ctx)
    ctx.log("cases: %d templates, %d (template, mutation, order) cases, %d concatenation cases, %d histories of %d calls" % (
        len(groups), ncases, len(concat), len(walks), len(walks[0]["calls"])))
    ctx.exhaustive = True
    cases = ctx.write_ndjson("cases.ndjson", groups)
    cc = ctx.write_ndjson("concat.ndjson", concat)
    # 3. replay into the real parser
    ctx.go_test("c11", run="TestReplay$", env={"VERIF_CASES": cases, "VERIF_CONCAT": cc}, timeout=3000, name="c11replay")
    # 3b. histories into the real parser, serially, and the oracle-free function law on all twelve entry points;
    #     then the histories again on concurrent goroutines with the race detector on
    hp = ctx.write_ndjson("histories.ndjson", walks)
    ctx.go_test("c11", run="TestHistory$", env={"VERIF_HIST": hp}, timeout=3000, name="c11history")
    ctx.go_test("c11", run="TestHistoryConcurrent$", env={"VERIF_HIST": hp, "VERIF_HIST_CONCURRENT": ctx.pick(200, 0)}, race=True,
                timeout=3000, name="c11historyrace")
    # 4. oracle-free laws on the corpus and on seeded mutations, all twelve entry points
    ctx.go_test("c11", run="TestLaws$", env={"VERIF_C11_MUTS": ctx.pick(150, 8000)}, timeout=3000, name="c11laws")
