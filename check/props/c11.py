"""C11 - the lenient X.509 parser is total, error-coherent and exact on well-formed input.

spec/codec/X509Parse.tla: the parse pipeline StrictDER -> LaxDER -> TrailingCheck -> FieldParse(..) as a
state machine over (certificate template x structure-preserving mutation); invariant Coherent (mixed
(object, error) outcomes unreachable).  TLC enumerates the case space and exports, per case, every outcome
class a final state can have = the set the contract allows; the ORDER of the extensions is a dimension of the
well-formed case (every permutation of up to three / four extensions, six schemes beyond; the unhandled critical
extensions are a function of the set: UnhandledIsOrderFree); a second machine gives the concatenation law of
ParseCertificates; a third one (history) states that parsing is a FUNCTION of the bytes handed in (Functional,
PerCertificate, ArgsIntact), checked exhaustively on histories of two calls, and generates random walks over
objects of one shape that differ in one slot (issuer / subject / alternative names in spellings of equal length,
or one mutation) through a fresh slice, the object's own slice and one re-used buffer.  Binding (harness/c11): every case is materialized with the standard library's encoder
and parsed by the fork (differential on well-formed input, class-in-allowed-set on mutated input); the
oracle-free laws (totality, coherence, raw-slice fidelity, concatenation) run on the repository's testdata
and on seeded mutations for all twelve entry points; extensions are permuted in the DER tree as the case says;
the histories are replayed serially and on concurrent goroutines (-race), every call compared with what the same
bytes give alone; b-after-a through one buffer, twice, and later again = b alone for all twelve entry points.

spec/codec/X509ParseKeys.tla: the key containers (ParsePKCS8PrivateKey / ParsePKCS1PrivateKey / ParseECPrivateKey /
ParsePKIXPublicKey, and the SubjectPublicKeyInfo inside a request / certificate) as NESTED PARSERS: a descent through
layers (wrapper, inner PKCS#1 / SEC 1 / seed, SubjectPublicKeyInfo, inner public key), each with its own reasons to
reject, and the return of (value, error) layer by layer; KeyCoherent, NoTypedNil (an interface holding a nil pointer is
an object for the caller of an interface-typed parser; the pass-through wrapper is refuted by TLC), RejectionSurfaces,
WellFormedKey, FindingPolicy (report / escalate / drop).  Case space entry point x key kind (RSA two / three primes,
P-192 .. P-521, Ed25519, DSA) x 121 defects placed in one layer; every case is materialized (standard library encoders,
own DER tree for secp192r1 / DSA) and replayed: class in the allowed set, typed nils are mixed outcomes (in EVERY law of
this check), a well-formed / tolerated container gives exactly the key it encodes.

spec/codec/X509ParseFirstUse.tla: first use of lazily built package state (named-curve parameters) by several
goroutines at once: the gate protocol (ReadsOnlyReady, FirstUseFunctional, BuiltOnce, Termination under fairness; the
fast path without a barrier refuted by TLC) and the PLANS - which calls (entry point, key kind) meet at the first use of
which value.  Each plan is executed in FRESH child processes (the test binary re-executes itself), under the race
detector and without: race reports involving the repository, panics / crashes, results that differ from what the same
bytes give alone (at the first use, or afterwards) are violations.

spec/codec/X509ParseList.tla: certificate lists as containers of REVOKED ENTRIES and ARMOUR.  The list parsers walk through
every crlEntryExtension of every entry and the list's own extensions and COLLECT findings of two ranks (warning: an
interpreted extension with the criticality RFC 5280 does not prescribe; fatal: an unreadable value, an uninterpreted critical
extension); the collection decides: ListCoherent, WarningsKeepObject, WarningsReported, FatalSurfaces, OpaqueIsBinary (ParseCRL /
ParseDERCRL do not interpret), no lax mode (C1).  Every entry point has a READER in front of its DER stage (der / tolerant /
pemOne / pemChain / pemAny / pemPool) that is Total on every armour of the table: DER, complete PEM (CRLF, headers, text or a
second block behind it), labels of another kind, inputs that only BEGIN like a block (header line, END line missing / cut / of
another label, body cut, bad base64, prefix glued to DER or garbage), bytes before the block; ArmourTransparent, NotABlockIsFatal.
Two refuted variants (an entry with ANY finding is dropped: ListCoherent; the prefix taken for a block: Total).  Case space: entry
point (the twelve DER ones and five PEM ones) x 22 armours x payload (envelope defect x lists of up to three entries over 24 extension
states x list extensions over 48; 10052 cases quick, 47800 thorough); the machine (one step per stage / entry / extension) against the contract stated at once
(MachineMeetsVerdict).  Binding: every case is built with the independent DER tree and the standard library's PEM encoder, and
replayed (TestList); the armour table is checked against what encoding/pem finds, clean lists against crypto/x509.
"""
import json
import os

from vlib import Infra

LEVEL = "model_checking"

ASSUME = [
    "crypto/x509 and encoding/asn1 of the installed toolchain (go1.24) are the conforming encoder and the reference "
    "parser for well-formed certificates (trusted base of the differential part)",
    "the fork's deliberate differences from the standard library are named clauses: D1 the RFC 6962 precertificate-signing "
    "EKU is a known ExtKeyUsage in the fork and an unknown one in crypto/x509 (x509.go ExtKeyUsageCertificateTransparency)",
    "templates: subsets of 15 extension kinds (quick: all of size <= 2, all-but-one, all; thorough: size <= 4) x 5 name string "
    "types x 3 key types x validity before/after 2050, payloads drawn from fixed pools with the seed; one mutation per case",
    "extension orders: all permutations for templates with <= 3 (thorough: 4) extensions, otherwise the encoder's order, its reverse, a "
    "rotation, uninterpreted extensions first / in the middle (both directions); mutated cases with a pinned outcome also in reverse order",
    "histories: 400 (thorough 4000) random walks of 12 calls over 6 shapes x 8 equal-layout variants x up to 7 mutations; 'alone' for a "
    "mutated object is the specification's class plus the parser's own reading from a never-seen slice; a history starts in whatever "
    "state earlier histories left (one process, one re-used buffer) - a law about a function must hold there too",
    "key containers: one key per kind and process (RSA-1024 two / three primes, P-192 .. P-521, Ed25519, DSA-1024), one defect per case; named clauses: "
    "N5 secp192r1 is a finding (certificate: non-fatal; ParsePKIXPublicKey / ParseCertificateRequest: fatal; private keys: accepted silently), "
    "S1 leading zero octets of an EC scalar (present or stripped) are ignored, an unknown key algorithm is fatal for ParsePKIXPublicKey and not an "
    "error inside a request / certificate; trailing bytes after a PKCS#8 / SEC 1 key, PKCS#8 version and attributes, inconsistent CRT values, "
    "a zero scalar, compressed points, short Ed25519 keys are 'free' (any coherent outcome, a usable object if one is returned)",
    "first use: the interleaving inside sync.Once cannot be steered from outside; who meets is (16 plans, each in fresh processes: 1 (thorough 4) under the "
    "race detector, 2 (thorough 24) without); named clause StdEllipticInit: race reports whose write is under crypto/elliptic.initAll and whose read is under "
    "crypto/elliptic.matchesSpecificCurve (go1.23 standard library: the custom-curve path compares with the NIST curves' parameters without passing their once; "
    "the comparison's outcome is unaffected) are counted, not judged",
    "certificate lists: one to three revoked entries, each with no, one or two crlEntryExtensions (reasonCode, invalidityDate, certificateIssuer, an "
    "uninterpreted one) x critical / not x value good / another type / trailing bytes / empty; list extensions (AKI, issuerAltName, cRLNumber, delta, "
    "issuingDistributionPoint, freshestCRL, AIA, uninterpreted) one or two at a time; quick: one and two entries over all 25 entry states, three over 7 representatives (thorough: 13), pairs of extensions over 8 (thorough: all 24 / 48); named "
    "clauses: C1 the list parsers have no lax mode, A1 bytes before the BEGIN line are free (any coherent outcome), A2 what follows the first block and RFC 1421 "
    "headers are ignored by ParseCRL / ParseCertificateList, E1 CertificatesFromPEM without any block = empty chain and no error, K1 the label of the block "
    "PublicKeyFromPEM reads is free; an empty extnValue and a twenty-octet CRL number are free; signatures of the built lists are not valid (no parser checks them)",
    "'for all byte strings' is sampled: testdata corpus, well-formed objects of every kind and seeded byte/TLV mutations; "
    "non-termination = no return within 10 s",
]

CLASSES = ("ok", "nonFatal", "fatal")


def build_cases(ctx, r):
    muts = {m["name"]: m for m in r.records.get("MUT", [])}
    if "none" not in muts:
        raise Infra("the specification did not export its mutation table")
    groups = {}
    for rec in r.records.get("CASE", []):
        t = rec["t"]
        t["exts"] = sorted(t["exts"])
        key = json.dumps(t, sort_keys=True)
        g = groups.setdefault(key, {"tpl": t, "muts": {}, "uce": {}})
        mk = (rec["m"], tuple(rec["o"]))
        g["muts"].setdefault(mk, set()).add(rec["r"])
        if rec["m"] == "none":
            g["uce"].setdefault(mk, set()).add(tuple(sorted(rec["u"])))
    if not groups:
        raise Infra("TLC exported no case")
    out, ncases, norders = [], 0, 0
    for key in sorted(groups):
        g = groups[key]
        ml = []
        for mk in sorted(g["muts"]):
            name, order = mk
            allowed = sorted(g["muts"][mk])
            if not set(allowed) <= set(CLASSES) or name not in muts:
                raise Infra("bad case export: %s %s" % (name, allowed))
            m = muts[name]
            mc = {"name": name, "allowed": allowed, "stage": m["stage"], "effect": m["effect"], "scope": m["scope"],
                  "part": m["part"], "ord": list(order)}
            if name == "none":
                u = g["uce"][mk]
                if len(u) != 1:
                    raise Infra("the unhandled critical extensions of %s in the order %s are not a function of the case: %s" % (key, order, u))
                mc["uce"] = list(next(iter(u)))
                norders += 1
            ml.append(mc)
            ncases += 1
        if any(m["allowed"] != ["ok"] for m in ml if m["name"] == "none"):
            raise Infra("specification does not give <<obj, nil>> for the unmutated template %s" % key)
        out.append({"tpl": g["tpl"], "muts": ml})
    used = {m["name"] for g in out for m in g["muts"]}
    if used != set(muts):
        raise Infra("mutations of the table never applicable to a template (vacuous rows): %s" % sorted(set(muts) - used))
    if norders < len(out) + len(out) // 2:
        raise Infra("the order dimension is vacuous: %d orders for %d templates" % (norders, len(out)))
    ctx.log("orders: %d (template, extension order) well-formed cases" % norders)
    return out, ncases


def sort_exts(x):
    """TLC prints sets in its own order: normalize the template records inside an exported history."""
    if isinstance(x, dict):
        if "exts" in x and isinstance(x["exts"], list):
            x["exts"] = sorted(x["exts"])
        for v in x.values():
            sort_exts(v)
    elif isinstance(x, list):
        for v in x:
            sort_exts(v)
    return x


def histories(ctx):
    """The history machine: the function law checked exhaustively on short histories, random walks exported."""
    ctx.tlc("codec", "MCX509Parse", ctx.pick("X509ParseHistory.cfg", "X509ParseHistoryFull.cfg"), timeout=3000)
    r = ctx.tlc("codec", "MCX509Parse", "X509ParseHistorySim.cfg", simulate=ctx.pick(400, 4000), depth=40, count=False)
    walks = [sort_exts(w) for w in r.records.get("HIST", [])]
    if len(walks) < ctx.pick(400, 4000):
        raise Infra("history run exported %d histories" % len(walks))
    if any(len(w["calls"]) != 12 for w in walks):
        raise Infra("history of unexpected length")
    return walks


KEY_ENTRIES = ("pkcs8", "pkcs1", "sec1", "pkix", "csr", "cert")


def key_cases(ctx):
    """X509ParseKeys.tla: the key containers as nested parsers; per (entry, key kind, defect) the allowed outcome classes."""
    r = ctx.tlc("codec", "MCX509ParseKeys", "X509ParseKeys.cfg", workers=1, timeout=900)
    rv = ctx.tlc("codec", "MCX509ParseKeys", "X509ParseKeysPassThrough.cfg", workers=1, timeout=900, expect_violation=True, count=False)
    if rv.violated != "NoTypedNil":
        raise Infra("the pass-through wrapper is not refuted by NoTypedNil (violated: %s): the invariant does not bite" % rv.violated)
    defs = {d["name"]: d for d in r.records.get("KDEF", [])}
    cases = {}
    for rec in r.records.get("KCASE", []):
        key = (rec["e"], rec["k"], rec["d"])
        c = cases.setdefault(key, {"e": rec["e"], "k": rec["k"], "d": rec["d"], "layer": rec["layer"], "effect": rec["effect"],
                                   "policy": rec["policy"], "allowed": set()})
        c["allowed"].add(rec["r"])
    if not cases or "none" not in defs:
        raise Infra("the key specification exported no case")
    out = []
    for key in sorted(cases):
        c = cases[key]
        if not c["allowed"] <= set(CLASSES):
            raise Infra("bad key case export: %s %s" % (key, sorted(c["allowed"])))
        c["allowed"] = sorted(c["allowed"])
        if c["effect"] == "fatal" and c["allowed"] != ["fatal"]:
            raise Infra("a rejection by an inner layer does not surface as <<nil, fatal>> in the specification: %s" % (key,))
        out.append(c)
    unused = set(defs) - {c["d"] for c in out}
    if unused:
        raise Infra("defects of the catalogue never applicable (vacuous rows): %s" % sorted(unused))
    if {c["e"] for c in out} != set(KEY_ENTRIES):
        raise Infra("key cases do not cover every entry point: %s" % sorted({c["e"] for c in out}))
    return out


def first_use_plans(ctx, kcases):
    """X509ParseFirstUse.tla: the gate protocol of lazily built package state (safety, termination; the fast path refuted)
    and the plans - who meets whom at a first use - with the class each well-formed object has alone."""
    r = ctx.tlc("codec", "MCX509ParseFirstUse", ctx.pick("X509ParseFirstUse.cfg", "X509ParseFirstUseThorough.cfg"), workers=ctx.pick(4, 8), timeout=3000)
    rv = ctx.tlc("codec", "MCX509ParseFirstUse", "X509ParseFirstUseFastPath.cfg", workers=1, timeout=900, expect_violation=True, count=False)
    if rv.violated != "ReadsOnlyReady":
        raise Infra("the fast path is not refuted by ReadsOnlyReady (violated: %s)" % rv.violated)
    alone = {(c["e"], c["k"]): c["allowed"] for c in kcases if c["d"] == "none"}
    plans = []
    for p in r.records.get("PLAN", []):
        calls = []
        for c in sorted(p["calls"], key=lambda c: (c["e"], c["k"])):
            e = {"tbs": "cert", "list": "cert"}.get(c["e"], c["e"])
            allowed = ["ok"] if c["e"].startswith("crl") else alone.get((e, c["k"]))
            if not allowed:
                raise Infra("plan %s-%s: no well-formed case (%s, %s) in the key specification" % (p["kind"], p["lazy"], e, c["k"]))
            calls.append({"e": c["e"], "k": c["k"], "allowed": allowed})
        plans.append({"kind": p["kind"], "lazy": p["lazy"], "twice": p["twice"], "calls": calls})
    plans.sort(key=lambda p: (p["kind"], p["lazy"]))
    if len(plans) < 10 or not any(p["lazy"] == "p192" for p in plans):
        raise Infra("first-use run exported %d plans" % len(plans))
    return plans


LIST_ENTRIES = 17


def list_cases(ctx):
    """X509ParseList.tla: certificate lists (entries x extensions) and armour; per case the allowed outcome classes."""
    r = ctx.tlc("codec", "MCX509ParseList", ctx.pick("X509ParseList.cfg", "X509ParseListThorough.cfg"), workers=1, timeout=3000)
    rv = ctx.tlc("codec", "MCX509ParseList", "X509ParseListGiveUp.cfg", workers=1, timeout=900, expect_violation=True, count=False)
    if rv.violated != "ListCoherent":
        raise Infra("giving up on an entry with any finding is not refuted by ListCoherent (violated: %s)" % rv.violated)
    rv = ctx.tlc("codec", "MCX509ParseList", "X509ParseListNoGuard.cfg", workers=1, timeout=900, expect_violation=True, count=False)
    if rv.violated != "Total":
        raise Infra("the reader without the block guard is not refuted by Total (violated: %s)" % rv.violated)
    arms = r.records.get("LARM", [])
    cases = {}
    for rec in r.records.get("LCASE", []):
        key = json.dumps([rec["e"], rec["arm"], rec["p"]], sort_keys=True)
        c = cases.setdefault(key, {"e": rec["e"], "arm": rec["arm"], "p": rec["p"], "reader": rec["reader"], "allowed": set(), "v": set(rec["v"])})
        c["allowed"].add(rec["r"])
    if not cases or len(arms) < 20:
        raise Infra("the list specification exported %d cases, %d armours" % (len(cases), len(arms)))
    out = []
    for key in sorted(cases):
        c = cases[key]
        if c["allowed"] != c["v"] or not c["allowed"] <= set(CLASSES) | {"empty"}:
            raise Infra("list case %s: the machine reaches %s, the contract stated at once gives %s" % (key, sorted(c["allowed"]), sorted(c["v"])))
        del c["v"]
        c["allowed"] = sorted(c["allowed"])
        out.append(c)
    if len({c["e"] for c in out}) != LIST_ENTRIES:
        raise Infra("list cases do not cover every entry point: %s" % sorted({c["e"] for c in out}))
    for e in {c["e"] for c in out}:
        if {c["arm"] for c in out if c["e"] == e} != {a["name"] for a in arms}:
            raise Infra("entry point %s is not met in every armour" % e)
    return out, arms


def run(ctx, replay=None):
    ctx.assumptions += ASSUME
    if replay:
        with open(replay) as f:
            rp = json.load(f).get("replay", {})
        # a first-use plan found under the race detector is re-executed under it
        ctx.go_test("c11", run="TestReplayOne$", env={"VERIF_C11_REPLAY": os.path.abspath(replay)},
                    race=bool(rp.get("kind") == "firstuse" and rp.get("race")))
        return
    # 0. the key containers as nested parsers, and the first use of lazily built package state
    kcases = key_cases(ctx)
    plans = first_use_plans(ctx, kcases)
    ctx.log("keys: %d (entry point, key kind, defect) cases; first use: %d plans" % (len(kcases), len(plans)))
    kp = ctx.write_ndjson("keycases.ndjson", kcases)
    fp = ctx.write_ndjson("firstuse-plans.ndjson", plans)
    # 0b. certificate lists (entries x extensions) and armour, all seventeen entry points
    lcases, arms = list_cases(ctx)
    ctx.log("lists and armour: %d (entry point, armour, payload) cases, %d armours" % (len(lcases), len(arms)))
    lp = ctx.write_ndjson("listcases.ndjson", lcases)
    la = ctx.write_ndjson("listarms.ndjson", arms)
    ctx.go_test("c11", run="TestList$", env={"VERIF_LISTCASES": lp, "VERIF_LISTARMS": la}, timeout=3000, name="c11list")
    # 1. the case space: templates x mutations, Coherent and the other invariants on every state, CASE export
    r = ctx.tlc("codec", "MCX509Parse", ctx.pick("X509ParseQuick.cfg", "X509ParseThorough.cfg"), workers=1, timeout=3000)
    groups, ncases = build_cases(ctx, r)
    # 2. the concatenation law
    rc = ctx.tlc("codec", "MCX509Parse", "X509ParseConcat.cfg", workers=1)
    concat = rc.records.get("CONCAT", [])
    if len(concat) < 30:
        raise Infra("concatenation run exported %d cases" % len(concat))
    # 2b. the history machine (parsing is a function of the bytes handed in)
    walks = histories(ctx)
    ctx.log("cases: %d templates, %d (template, mutation, order) cases, %d concatenation cases, %d histories of %d calls" % (
        len(groups), ncases, len(concat), len(walks), len(walks[0]["calls"])))
    ctx.exhaustive = True
    cases = ctx.write_ndjson("cases.ndjson", groups)
    cc = ctx.write_ndjson("concat.ndjson", concat)
    # 3. replay into the real parser
    ctx.go_test("c11", run="TestReplay$", env={"VERIF_CASES": cases, "VERIF_CONCAT": cc}, timeout=3000, name="c11replay")
    # 3b. histories into the real parser, serially, and the oracle-free function law on all twelve entry points;
    #     then the histories again on concurrent goroutines with the race detector on
    hp = ctx.write_ndjson("histories.ndjson", walks)
    ctx.go_test("c11", run="TestHistory$", env={"VERIF_HIST": hp}, timeout=3000, name="c11history")
    #     ... and, in the same race-instrumented binary, the first-use plans in fresh child processes
    ctx.go_test("c11", run="TestHistoryConcurrent$|TestFirstUse$", env={"VERIF_HIST": hp, "VERIF_HIST_CONCURRENT": ctx.pick(200, 0),
                                                                        "VERIF_FUPLANS": fp, "VERIF_FU_REPS": ctx.pick(1, 4)}, race=True,
                timeout=3000, name="c11historyrace")
    # 3c. the key cases into the real key parsers; the first-use plans again without the race detector (real panics / wrong results)
    ctx.go_test("c11", run="TestKeys$|TestFirstUse$", env={"VERIF_KEYCASES": kp, "VERIF_FUPLANS": fp, "VERIF_FU_REPS": ctx.pick(2, 24)},
                timeout=3000, name="c11keys")
    # 4. oracle-free laws on the corpus and on seeded mutations, all twelve entry points
    ctx.go_test("c11", run="TestLaws$", env={"VERIF_C11_MUTS": ctx.pick(150, 8000)}, timeout=3000, name="c11laws")
