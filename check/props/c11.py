"""C11 - the lenient X.509 parser is total, error-coherent and exact on well-formed input.

spec/codec/X509Parse.tla: the parse pipeline StrictDER -> LaxDER -> TrailingCheck -> FieldParse(..) as a
state machine over (certificate template x structure-preserving mutation); invariant Coherent (mixed
(object, error) outcomes unreachable).  TLC enumerates the case space and exports, per case, every outcome
class a final state can have = the set the contract allows; a second machine gives the concatenation law of
ParseCertificates.  Binding (harness/c11): every case is materialized with the standard library's encoder
and parsed by the fork (differential on well-formed input, class-in-allowed-set on mutated input); the
oracle-free laws (totality, coherence, raw-slice fidelity, concatenation) run on the repository's testdata
and on seeded mutations for all twelve entry points.
"""
import json
import os

from vlib import Infra

LEVEL = "model_checking"

ASSUME = [
    "crypto/x509 and encoding/asn1 of the installed toolchain (go1.24) are the conforming encoder and the reference "
    "parser for well-formed certificates (trusted base of the differential part)",
    "the fork's deliberate differences from the standard library are named clauses: D1 the RFC 6962 precertificate-signing "
    "EKU is a known ExtKeyUsage in the fork and an unknown one in crypto/x509 (x509.go ExtKeyUsageCertificateTransparency)",
    "templates: subsets of 15 extension kinds (quick: all of size <= 2, all-but-one, all; thorough: size <= 4) x 5 name string "
    "types x 3 key types x validity before/after 2050, payloads drawn from fixed pools with the seed; one mutation per case",
    "'for all byte strings' is sampled: testdata corpus, well-formed objects of every kind and seeded byte/TLV mutations; "
    "non-termination = no return within 10 s",
]

CLASSES = ("ok", "nonFatal", "fatal")


def build_cases(ctx, r):
    muts = {m["name"]: m for m in r.records.get("MUT", [])}
    if "none" not in muts:
        raise Infra("the specification did not export its mutation table")
    groups = {}
    for rec in r.records.get("CASE", []):
        t = rec["t"]
        t["exts"] = sorted(t["exts"])
        key = json.dumps(t, sort_keys=True)
        g = groups.setdefault(key, {"tpl": t, "muts": {}})
        g["muts"].setdefault(rec["m"], set()).add(rec["r"])
    if not groups:
        raise Infra("TLC exported no case")
    out, ncases = [], 0
    for key in sorted(groups):
        g = groups[key]
        ml = []
        for name in sorted(g["muts"]):
            allowed = sorted(g["muts"][name])
            if not set(allowed) <= set(CLASSES) or name not in muts:
                raise Infra("bad case export: %s %s" % (name, allowed))
            m = muts[name]
            ml.append({"name": name, "allowed": allowed, "stage": m["stage"], "effect": m["effect"], "scope": m["scope"],
                       "part": m["part"]})
            ncases += 1
        if [m for m in ml if m["name"] == "none"][0]["allowed"] != ["ok"]:
            raise Infra("specification does not give <<obj, nil>> for the unmutated template %s" % key)
        out.append({"tpl": g["tpl"], "muts": ml})
    used = {m["name"] for g in out for m in g["muts"]}
    if used != set(muts):
        raise Infra("mutations of the table never applicable to a template (vacuous rows): %s" % sorted(set(muts) - used))
    return out, ncases


def run(ctx, replay=None):
    ctx.assumptions += ASSUME
    if replay:
        ctx.go_test("c11", run="TestReplayOne$", env={"VERIF_C11_REPLAY": os.path.abspath(replay)})
        return
    # 1. the case space: templates x mutations, Coherent and the other invariants on every state, CASE export
    r = ctx.tlc("codec", "MCX509Parse", ctx.pick("X509ParseQuick.cfg", "X509ParseThorough.cfg"), workers=1, timeout=3000)
    groups, ncases = build_cases(ctx, r)
    # 2. the concatenation law
    rc = ctx.tlc("codec", "MCX509Parse", "X509ParseConcat.cfg", workers=1)
    concat = rc.records.get("CONCAT", [])
    if len(concat) < 30:
        raise Infra("concatenation run exported %d cases" % len(concat))
    ctx.log("cases: %d templates, %d (template, mutation) cases, %d concatenation cases" % (len(groups), ncases, len(concat)))
    ctx.exhaustive = True
    cases = ctx.write_ndjson("cases.ndjson", groups)
    cc = ctx.write_ndjson("concat.ndjson", concat)
    # 3. replay into the real parser
    ctx.go_test("c11", run="TestReplay$", env={"VERIF_CASES": cases, "VERIF_CONCAT": cc}, timeout=3000, name="c11replay")
    # 4. oracle-free laws on the corpus and on seeded mutations, all twelve entry points
    ctx.go_test("c11", run="TestLaws$", env={"VERIF_C11_MUTS": ctx.pick(150, 8000)}, timeout=3000, name="c11laws")
