"""C13 - submission retries follow the server's pacing and stop when they should.

spec/client/Retry.tla (shared back-off state, one action per critical section, logical time; the
wire response, the spelling of a 200 body and the caller's http.Client decide which class of the
property the submission sees: Seen), MCRetry (exhaustive, liveness, simulation), RetryTrace (trace
validation with the constants of the code).  Binding, under testing/synctest virtual time (go1.26) and -race, over a scripted
http.RoundTripper on the real jsonclient.PostAndParseWithRetry / LogClient.AddChain / AddPreChain:
replay of TLC behaviours (harness/vt/c13 TestReplay) and validation of recorded Call/Post/State/Return
traces by TLC (TestTrace -> RetryTrace.tla); oracle-free monitors of the clauses on every timeline.

The retained-results layer (Retry.tla: sent, retained, Hand, Inspect; ResultsAreValues, RetainedOwn, OneResultPerCall,
IdsDistinct): what a submission returned is a value - every exchange of a process history has an identity (body unlike
every other's, also in length), every returned result (error with status and body, *http.Response, body slice, parsed
struct, SCT) is kept by the harness as it was handed out and rendered again after every later return and at the end of
every client's life, over process histories of several consecutive clients (events Process / Return{id} / Inspect{seen},
judged by RetryTrace.tla; monitor retained-result-changed).
"""
import json
import os

from vlib import Infra

WORKERS = 8

ASSUME = [
    "the server answers in zero virtual time (a scripted http.RoundTripper inside the synctest bubble); HTTP transport "
    "internals, connection reuse and response latency are not modelled",
    "virtual clock of testing/synctest instead of wall-clock scheduling: timers fire exactly at their instant",
    "a transport does not send a request whose context has already ended (the scripted RoundTripper returns the "
    "context's error, as net/http.Transport does)",
    "exhaustive model: 2 callers, scripts <= 3 (quick) / 4 (thorough) responses plus '503 for ever' under a context end, "
    "MaxMult 3, jitter {0,1} ticks; the constants of the code (MaxMult 8, 128 s, 250 ms) are used by simulation/replay and "
    "trace validation",
    "no '408 for ever' script: the code retries 408 at once, which is a zero-time loop against a zero-latency server",
    "http.Client configurations: none, plain, own CheckRedirect (pass / bound at 5 hops / ErrUseLastResponse / refuse), cookie "
    "jar, Timeout that is never reached; redirect chains of at most 3 hops, or endless; a refused redirect may be retried or "
    "returned as its 3xx status (both admitted, never a success)",
    "200 bodies: 10 legal JSON spellings of the complete correct response (RFC 8259: \\/ and \\uXXXX escapes in values and "
    "names, white space, member order, unknown scalar / nested members) and 11 unparsable ones (among them base64 without "
    "padding / in the URL alphabet); duplicate members, names differing in case, null members, non-integer number spellings "
    "are left unasserted",
    "retained results: process histories of 8 (replay) / 6 (random scenarios) consecutive clients; every returned result is kept "
    "as the caller was handed it and rendered again after every later return of the history and at the end of every client's "
    "life; two clients are never alive at the same instant (clients of one history follow each other; callers sharing one "
    "client are concurrent)",
]


def run(ctx, replay=None):
    ctx.assumptions += ASSUME
    if replay:
        return do_replay(ctx, replay)
    # 1. exhaustive model check (safety clauses as action properties) and the liveness clause PromptCtx
    if os.environ.get("VERIF_C13_SKIP_MC") == "1":   # development aid for mutation runs: the model does not depend on /repo
        return bind(ctx)
    r = ctx.tlc("client", "MCRetry", ctx.pick("RetrySmall.cfg", "Retry.cfg"), workers=WORKERS, timeout=3000)
    ctx.exhaustive = {"cfg": ctx.pick("RetrySmall.cfg", "Retry.cfg"), "distinct_states": r.distinct, "depth": r.depth}
    ctx.tlc("client", "MCRetry", ctx.pick("RetryLive.cfg", "RetryLiveFull.cfg"), workers=WORKERS, timeout=3000)
    # the wire: what the submission sees of a response as a function of the caller's http.Client (redirect policy) and
    # of the spelling of a 200 body; all clauses again over every wire kind
    rw = ctx.tlc("client", "MCRetry", ctx.pick("RetryWire.cfg", "RetryWireFull.cfg"), workers=WORKERS, timeout=3000)
    ctx.exhaustive["wire"] = {"cfg": ctx.pick("RetryWire.cfg", "RetryWireFull.cfg"), "distinct_states": rw.distinct, "depth": rw.depth}
    bind(ctx)


def bind(ctx):
    # 2. behaviours with the constants of the code: single caller (lock step) and two callers sharing the client
    behs = []
    for cfg in ("RetrySim1.cfg", "RetrySim.cfg"):
        r = ctx.tlc("client", "MCRetry", cfg, simulate=ctx.pick(400, 4000), depth=800, count=False, timeout=3000)
        got = r.records.get("BEH", [])
        if not got:
            raise Infra("simulation %s exported no behaviours" % cfg)
        behs += got
    ctx.log("behaviours: %d" % len(behs))
    path = ctx.write_ndjson("behaviours.ndjson", behs)
    _, outdir, _ = ctx.go_test("vt/c13", run="TestReplay$", env={"VERIF_BEHAVIOURS": path}, toolchain="go1.26", race=True,
                               timeout=3000, name="c13replay")
    validate_traces(ctx, os.path.join(outdir, "replay-traces.ndjson"), os.path.join(outdir, "replay-scenarios.ndjson"), "replay")
    # 3. seeded random scenarios recorded from the real code, validated by RetryTrace.tla
    _, outdir, _ = ctx.go_test("vt/c13", run="TestTrace$", env={"VERIF_TRACES": ctx.pick(250, 4000)}, toolchain="go1.26",
                               race=True, timeout=3000, name="c13trace")
    validate_traces(ctx, os.path.join(outdir, "traces.ndjson"), os.path.join(outdir, "scenarios.ndjson"), "trace")


def do_replay(ctx, replay):
    with open(replay) as f:
        rp = json.load(f)
    data = rp.get("replay") or {}
    if data.get("behaviour"):
        path = ctx.write_ndjson("replay.ndjson", [data["behaviour"]])
        _, outdir, _ = ctx.go_test("vt/c13", run="TestReplay$", env={"VERIF_BEHAVIOURS": path}, toolchain="go1.26", race=True,
                                   name="c13replay")
        validate_traces(ctx, os.path.join(outdir, "replay-traces.ndjson"), os.path.join(outdir, "replay-scenarios.ndjson"), "replay")
        return
    if not data.get("scenario"):
        raise Infra("replay file carries neither a behaviour nor a scenario")
    sp = os.path.join(ctx.work, "scenario.json")
    with open(sp, "w") as f:
        # a kept result that changed: the consecutive clients of its process history, up to the one that showed it
        json.dump(data.get("history") or data["scenario"], f)
    # jitter is drawn by the implementation: the scenario is repeated
    _, outdir, _ = ctx.go_test("vt/c13", run="TestScenario$", env={"VERIF_SCENARIO": sp, "VERIF_REPEAT": 40}, toolchain="go1.26",
                               race=True, name="c13scenario")
    validate_traces(ctx, os.path.join(outdir, "traces.ndjson"), os.path.join(outdir, "scenarios.ndjson"), "trace")


def split_traces(ctx, tr, label, max_events=25000):
    """Split a trace file into chunks TLC validates one by one - at Process events only: the results returned through
    earlier clients of one process history are looked at again after later ones (Inspect)."""
    chunks, cur, first, ntr, k = [], [], 0, 0, 0
    with open(tr) as f:
        for line in f:
            if '"ev":"Process"' in line and len(cur) >= max_events:
                chunks.append((first, cur))
                cur, first = [], ntr
            if '"ev":"Reset"' in line:
                ntr += 1
            cur.append(line)
    if cur:
        chunks.append((first, cur))
    out = []
    for first, lines in chunks:
        p = os.path.join(ctx.work, "%s-chunk-%d.ndjson" % (label, k))
        k += 1
        with open(p, "w") as f:
            f.writelines(lines)
        out.append((first, p, lines))
    return out, ntr


def validate_traces(ctx, tr, scen, label):
    if not os.path.exists(tr) or os.path.getsize(tr) == 0:
        if ctx.violations:      # the run was cut short by a crash / data race that is already reported
            return
        raise Infra("no trace recorded (%s)" % tr)
    scenarios = [json.loads(x) for x in open(scen)] if os.path.exists(scen) else []
    chunks, ntr = split_traces(ctx, tr, label)
    for first, path, lines in chunks:
        r = ctx.tlc("client", "RetryTrace", "RetryTrace.cfg", workers=1, env={"TRACE_FILE": path}, count=False, dfs=True,
                    check=False, timeout=3000, label=label)
        stuck = r.records.get("STUCK", [])
        if r.rc != 0 and not stuck and not r.violated:
            raise Infra("trace validation failed to run (rc=%d)\n%s" % (r.rc, "\n".join(r.out.splitlines()[-30:])))
        if not (r.violated or stuck):
            continue
        # the first line no placement of the silent steps explains (or a clause of Retry.tla failed on a step of the
        # recorded execution)
        n = stuck[0].get("line", 1) if stuck else len(lines)
        lo = n
        while lo > 1 and '"ev":"Reset"' not in lines[lo - 1]:
            lo -= 1
        idx = first + sum(1 for x in lines[:lo] if '"ev":"Reset"' in x) - 1
        window = [json.loads(x) for x in lines[lo - 1:n + 2]]
        ev = stuck[0]["event"] if stuck else {}
        history = None
        if ev.get("ev") == "Inspect":
            # the consecutive clients of the process history up to the one whose inspection is not explained
            k, h0 = lo, idx
            while k > 1 and '"ev":"Process"' not in lines[k - 1]:
                k -= 1
                if '"ev":"Reset"' in lines[k - 1]:
                    h0 -= 1
            history = scenarios[max(h0, 0):idx + 1] if 0 <= idx < len(scenarios) else None
        prev = None
        for e in window[:n - lo]:
            if e.get("ev") == "Post" and e.get("c") == ev.get("c", e.get("c")):
                prev = e
        after = "%s/%s" % (prev["cls"], prev["rak"]) if prev else "none"
        if prev and prev.get("w") in ("b200", "pres"):
            after += "/" + prev.get("sp", "")          # the spelling of the 200 body
        if prev and prev.get("w") in ("redir", "pres", "loop"):
            hcs = [json.loads(x).get("hc") for x in lines[:n] if '"ev":"Reset"' in x]
            after += "@hc=%s" % (hcs[-1] if hcs else "?")
        if r.violated and not stuck:
            fp = "trace:clause:%s" % r.violated
        elif ev.get("ev") == "Inspect":
            # which of the kept results is no longer a result any Return event of the process history handed out
            handed = set()
            for x in lines[:n - 1]:
                if '"ev":"Process"' in x:
                    handed = set()
                elif '"ev":"Return"' in x:
                    e = json.loads(x)
                    handed.add((e.get("c"), e.get("res"), e.get("id")))
            odd = [s for s in ev.get("seen", []) if (s.get("c"), s.get("k"), s.get("id")) not in handed]
            fp = "trace:stuck:Inspect:retained-%s-changed" % (odd[0].get("k") if odd else "result")
        elif ev.get("ev") == "Return":
            fp = "trace:stuck:Return:%s-after:%s" % (ev.get("res", "?").split(":")[0], after)
        else:
            fp = "trace:stuck:%s-after:%s" % (ev.get("ev"), after)
        ctx.violation(fp, "a recorded execution of the real client is not a behaviour of Retry.tla: no placement of the silent "
                      "steps (status switch with backoff.set, reading the not-before instant, timer, end of the context) explains "
                      "event %s (a request outside the allowed window, a wrong result, a late return, a wrong shared back-off state, "
                      "a returned result that carries another response than the one that ended its submission, or a kept result that is "
                      "no longer what was returned)" % json.dumps(ev, sort_keys=True)[:1500],
                      {"scenario": scenarios[idx] if 0 <= idx < len(scenarios) else None, "history": history, "stuck": stuck,
                       "violated": r.violated,
                       "trace_window": window, "tlc": r.out.splitlines()[-8:]})
        return
    ctx.traces += ntr
