"""C20 - migration mirrors the source entry for entry and refuses inconsistent sources.

spec/migrate/Migrillian.tla (source log, pre-ordered destination, controller passes, embedded fetcher,
submitters, mastership, fault oracle), MCMigrillian (exhaustive safety + liveness instances),
SimMigrillian (behaviours exported as fault schedules), MigrillianTrace (trace validation).
Binding (harness/vt/c20, go1.26, testing/synctest virtual time, -race): the real core.Controller
(Run / RunWhenMaster) over client.LogClient on an in-process source log with real signed STHs, entries
and consistency proofs, and a reference pre-ordered backend; code->spec: traces of random scenarios are
validated by MigrillianTrace.tla with all invariants on, every request and the final destination are
judged index by index by reference code; spec->code: TLC behaviours drive the fakes as counted fault
schedules and the outcomes are compared.
get-entries pages are a fault dimension of their own: short reads of every length and the empty page (200 with
zero entries, spelled [] / null / absent) at any request, repeated, on the remainder of a short read; the reference
destination refuses a request without leaves as Trillian does.  Invariant PosCovered (a pass reported successful
leaves no hole below the position it hands to the next pass) is checked exhaustively on the model and, on traces,
as Complete (Return nil) / NoGap (GetRoot of the next pass) behind the defect step AbandonRanges.
The configured range is a dimension of the scenario: start_index (-1 = destination tree size, 0, inside, equal to, beyond
the STH) x end_index (none, inside, equal to, beyond the STH) x one-shot / continuous, on a source whose get-entries
serves more than the STH it announced covers (cfg.ahead; growth during the pass).  Clause RangeWithinSTH (from "nothing
beyond the source tree size it verified"): the range of a pass ends at Hi <= STH whatever end_index says; named clauses
ContIgnoresRange and RangeIsTheJob.  MigrillianRange.cfg checks the dimension exhaustively; MigrillianNoClamp.cfg
(Hi <- HiUnclamped) must violate Bounded, i.e. the dimension tells a migrator that believes end_index from one that does
not; replay (MigrillianSimRange.cfg) and random scenarios carry it to the real Controller / scanner.Fetcher; trace
validation names the defect through the silent step OverrunRange + invariant Bounded.
Signer lag is a dimension of the scenario too (cfg.lag; Integrate is a step of its own, arbitrarily later than the
submission): continuous rounds over a growing source while the destination's root stays behind what was submitted.
Invariant NoRepeat (ghost subm: within one run of the controller no index is submitted a second time) is checked on every
instance, exhaustively over every schedule of the signer by MigrillianLag.cfg; MigrillianRewind.cfg
(FirstIndex <- FirstIndexFromRoot, a migrator that takes the root for its position) must violate it; MigrillianSimLag.cfg
and the lag scenarios of the random runs carry it to the real Controller (the harness's signer sleeps through the first
cfg.lag root requests; vacuity guard: rounds that began with the root behind the position and new entries at the source);
trace validation names the defect through the silent step RewindRange + invariant NoRepeat.
The configuration SET is a dimension too (spec/migrate/MigrillianConfig.tla, a case-analysis module): a MigrillianConfig is a
sequence of migration configs, each naming a source, a destination tree (log_id) and the deprecated, ignored log_backend_name
(the process dials one --backend).  Laws: NoConflictingFeeds (from 'never cause ... conflicting duplicates': an accepted set has
no two members feeding one tree from different sources), named clauses OneTreeOneMigration (the validator's comment: unique log
ID, whatever the backend names and sources), SaneAccepted (single-config rules: URI, key, log ID > 0, batch size > 0, defined
identity function) and UsableAccepted (refusal is not idle).  MigrillianConfigBackendKey.cfg (Key <- KeyWithBackend, a validator
keyed by backend name + tree) must violate NoConflict.  Every exported case reaches core.ValidateConfig as a value and through
core.LoadConfigFromFile as a text and a binary file, single members also core.ValidateMigrationConfig (TestConfigSets).
"""
import json
import os
import re

from vlib import Infra

ASSUME = [
    "SHA-256 collision resistance / ECDSA unforgeability: histories are tokens in the specification; the harness "
    "re-attaches real RFC 6962 trees, P-256 signed STHs and consistency proofs and has the reference verifier judge every proof served",
    "the destination behaves like a Trillian PREORDERED_LOG: per-leaf OK / ALREADY_EXISTS (identical) / FAILED_PRECONDITION "
    "(different content under an occupied index); its root commits to the integrated contiguous prefix",
    "identity hash: SHA256_CERT_DATA = SHA-256 of the certificate DER as CTFE computes it (leaf certificate / submitted "
    "precertificate); SHA256_LEAF_INDEX = SHA-256 of the index as 8 bytes little endian (named clause LeafIndexEncoding: the "
    "configuration comment does not fix the encoding, the code's is taken)",
    "unparsable = well-formed MerkleTreeLeaf / extra_data whose certificate bytes do not parse; entries whose TLS structure "
    "itself is broken are not asserted",
    "source never smaller than the destination's integrated prefix; NoConsistencyCheck left at its default (false)",
    "empty get-entries page (200 with zero entries, spelled [] / null / absent): the property only demands that it causes no gap; "
    "named clauses EmptyPageHandedOn (the migrator sends the empty batch on and asks for the range again) and EmptyRequestRefused "
    "(the destination answers a request without leaves InvalidArgument as Trillian's validateLogLeaves does, so the pass fails loudly); "
    "trace validation also accepts a migrator that drops the empty batch and asks again (SkipEmpty)",
    "configured range: the property bounds every configuration by the STH verified in the pass (RangeWithinSTH); where it is silent: "
    "continuous mode ignores start_index / end_index (ContIgnoresRange, as the configuration's comment says), a one-shot run copies the "
    "configured range only and 'no gaps' is demanded inside it (RangeIsTheJob); start_index -1 = the destination's tree size; the source "
    "may serve entries beyond the STH it announced (lagging front end, growth during the pass): up to 2 such entries",
    "signer lag: the destination's root moves only when its signer integrates, at any later time (Trillian's sequencer); named clause "
    "RunStartsFromRoot: 'without gaps or repeats' is demanded of one run of the controller (Controller.Run carrying its position from "
    "round to round) - a new run after a failed pass, lost mastership or a restart of the process knows only the root and may submit "
    "again what the signer has not integrated (answered ALREADY_EXISTS); a batch answered ResourceExhausted was not submitted",
    "configuration sets: log_backend_name is deprecated and ignored, migrillian dials the single --backend, so log_id alone names the "
    "destination tree (BackendNameIgnored); two migrations naming one tree are refused even from the same source (OneTreeOneMigration, "
    "the validator's documented rule); sets of 1..3 members; the empty set and a configuration without migration_configs are not asserted; "
    "which member / rule the error message names is not asserted",
    "sizes: source <= 4 (+2 growth), batch 1..3, fetchers/submitters 1..3, <= 2 faults exhaustively (3 in simulation and random scenarios)",
]

WORKERS = int(os.environ.get("VERIF_TLC_WORKERS", "8"))

NAMED = {
    "QuotaRetried": ("quota:ResourceExhausted:pass-aborted",
                     "a ResourceExhausted reply of AddSequencedLeaves ended the pass instead of being retried with back-off "
                     "(MigrillianTrace.tla: invariant QuotaRetried)"),
    "Gate": ("gate:submit-without-consistency-proof",
             "leaves were submitted in a pass whose non-empty destination root had not been proven consistent with the source STH "
             "(MigrillianTrace.tla: invariant Gate)"),
    "Mirror": ("trace:Mirror", "a destination index does not hold the source's leaf_input/extra_data for that index with the configured identity hash"),
    "Bounded": ("bounded:beyond-verified-sth", "the destination holds an index beyond the largest source STH that passed the gate"),
    "NoConflict": ("noconflict:different-content-under-occupied-index", "a leaf was submitted under an index already holding different content"),
    "Complete": ("mirror:gap", "a one-shot migration returned nil with a gap below the verified STH"),
    "NoGap": ("mirror:gap:pass-reported-complete",
              "a pass was reported successful (the next pass started from its STH) although the destination has a hole below that "
              "position: a range, or the remainder of a range after a short / empty get-entries page, was given up "
              "(MigrillianTrace.tla: invariant NoGap, Migrillian.tla: PosCovered)"),
    "VerbatimBad": ("trace:VerbatimBad", "an unparsable entry was not copied verbatim"),
    "PrefixOK": ("trace:PrefixOK", "harness error: integrated prefix ahead of the stored leaves"),
    "NoRepeat": ("repeat:index-submitted-twice-in-one-run",
                 "within one run of the controller entries were fetched / submitted a second time: a later round started below the "
                 "position the earlier rounds had reached (the destination's root, which its signer had not moved yet, taken for the "
                 "position), or an index already submitted was submitted again (MigrillianTrace.tla: invariant NoRepeat, step RewindRange)"),
}


def run(ctx, replay=None):
    ctx.assumptions += ASSUME
    if replay:
        with open(replay) as f:
            rp = json.load(f)
        data = rp.get("replay") or {}
        probe = {k: data[k] for k in ("cfg", "faults", "restarts") if k in data}
        if "members" in data:
            path = ctx.write_ndjson("config-case.ndjson", [config_case(data["members"], data.get("expect", "accept"))])
            ctx.go_test("vt/c20", run="TestConfigSets$", env={"VERIF_CASES": path}, toolchain="go1.26", race=True, name="c20config")
            return
        if "cfg" not in probe:
            raise Infra("replay file carries no scenario")
        ctx.go_test("vt/c20", run="TestProbe$", env={"VERIF_PROBE": json.dumps(probe)}, toolchain="go1.26", race=True, name="c20probe")
        return
    # 1. exhaustive safety + liveness of the specification
    #    (VERIF_C20_SKIP_MC=1: development aid for mutation runs, the specification does not depend on the code)
    for cfg in [] if os.environ.get("VERIF_C20_SKIP_MC") == "1" else ctx.pick(["MigrillianWide.cfg", "MigrillianGrow.cfg", "MigrillianDeep.cfg", "MigrillianPages.cfg", "MigrillianRange.cfg", "MigrillianLag.cfg"],
                                                                                   ["Migrillian.cfg", "MigrillianDeep6.cfg", "MigrillianWide2.cfg", "MigrillianDeep2.cfg", "MigrillianPagesGrow.cfg",
                                                                                    "MigrillianRangeFull.cfg", "MigrillianLagFull.cfg"]):
        ctx.tlc("migrate", "MCMigrillian", cfg, workers=WORKERS, timeout=5400)
    if os.environ.get("VERIF_C20_SKIP_MC") != "1":
        ctx.tlc("migrate", "MCMigrillian", ctx.pick("MigrillianLiveSmall.cfg", "MigrillianLive.cfg"), workers=WORKERS, timeout=5400)
        # the range / ahead dimension is not idle: a migrator that believes an explicit end_index must break Bounded on the model
        r = ctx.tlc("migrate", "MCMigrillian", "MigrillianNoClamp.cfg", workers=2, timeout=1800, expect_violation=True, count=False)
        if r.violated != "Bounded":
            raise Infra("MigrillianNoClamp.cfg (Hi <- HiUnclamped) does not violate Bounded (violated=%s rc=%d): the configured-range "
                        "dimension of the specification does not distinguish a migrator that runs beyond the verified STH" % (r.violated, r.rc))
        rewind_refuted(ctx)
        ctx.exhaustive = True
    config_sets(ctx)
    conformance(ctx)


def config_case(members, expect):
    n = len(members)
    pairs = [(members[i], members[j]) for i in range(n) for j in range(n) if i != j]
    return {"members": members, "expect": expect, "n": n,
            "sharedtree": any(a["id"] == b["id"] for a, b in pairs),
            "sharedkeyb": any(a["id"] == b["id"] and a["backend"] == b["backend"] for a, b in pairs),
            "conflict": any(a["id"] == b["id"] and a["uri"] != b["uri"] for a, b in pairs)}


def config_sets(ctx):
    """The configuration-set dimension: MigrillianConfig.tla exhaustively (laws as invariants), the refutation instance, every
    case into the real validator / loader."""
    r = ctx.tlc("migrate", "MCMigrillianConfig", "MigrillianConfig.cfg", workers=1, timeout=1800)
    cases = r.records.get("CASE", [])
    if len(cases) < 5000:
        raise Infra("MigrillianConfig.cfg exported only %d configuration sets" % len(cases))
    # vacuity guards: the classes that tell validators apart must be among the cases
    def some(f):
        return any(f(c) for c in cases)
    need = {
        "two sane members, one tree, different backend names, different sources": lambda c: c["expect"] == "duplicate" and c["n"] == 2 and not c["sharedkeyb"] and c["conflict"],
        "two sane members, one tree, different backend names, same source": lambda c: c["expect"] == "duplicate" and c["n"] == 2 and not c["sharedkeyb"] and not c["conflict"],
        "one tree, equal backend names": lambda c: c["expect"] == "duplicate" and c["sharedkeyb"],
        "three members, first and last share the tree": lambda c: c["expect"] == "duplicate" and c["n"] == 3 and c["members"][0]["id"] == c["members"][2]["id"] != c["members"][1]["id"],
        "accepted set of three with equal backend names and sources": lambda c: c["expect"] == "accept" and c["n"] == 3 and len({(m["backend"], m["uri"]) for m in c["members"]}) == 1,
        "insane member behind a sane one": lambda c: c["expect"] == "member" and c["n"] == 2 and c["members"][0]["id"] == 1 and c["members"][0]["key"] and c["members"][1]["batch"] <= 0,
    }
    for what, f in need.items():
        if not some(f):
            raise Infra("configuration-set cases do not cover: %s" % what)
    r = ctx.tlc("migrate", "MCMigrillianConfig", "MigrillianConfigBackendKey.cfg", workers=1, timeout=600, expect_violation=True, count=False)
    if r.violated != "NoConflict":
        raise Infra("MigrillianConfigBackendKey.cfg (Key <- KeyWithBackend) does not violate NoConflict (violated=%s rc=%d): the backend-name "
                    "dimension of the configuration sets does not distinguish a validator keyed by backend name + tree ID" % (r.violated, r.rc))
    path = ctx.write_ndjson("config-cases.ndjson", cases)
    _, _, reps = ctx.go_test("vt/c20", run="TestConfigSets$", env={"VERIF_CASES": path}, toolchain="go1.26", race=True, timeout=1500, name="c20config")
    n = sum(rep.get("replayed", 0) for rep in reps)
    if reps and n != len(cases):
        raise Infra("TestConfigSets replayed %d of %d configuration sets" % (n, len(cases)))


def rewind_refuted(ctx):
    """the signer-lag dimension is not idle: a migrator that takes the destination's root for its position must break
    NoRepeat on the model"""
    r = ctx.tlc("migrate", "MCMigrillian", "MigrillianRewind.cfg", workers=2, timeout=1800, expect_violation=True, count=False)
    if r.violated != "NoRepeat":
        raise Infra("MigrillianRewind.cfg (FirstIndex <- FirstIndexFromRoot) does not violate NoRepeat (violated=%s rc=%d): the signer-lag "
                    "dimension of the specification does not distinguish a migrator that starts a round from the lagging root" % (r.violated, r.rc))


def lag_model(ctx):
    """C16's share of the model: signer lag x growth between continuous rounds, exhaustively (NoRepeat + PosCovered = every
    index submitted exactly once across the rounds of a run), and the refutation instance."""
    ctx.tlc("migrate", "MCMigrillian", ctx.pick("MigrillianLag.cfg", "MigrillianLagFull.cfg"), workers=WORKERS, timeout=5400)
    rewind_refuted(ctx)


def conformance(ctx, f=1.0):
    """Steps 2-4: the real core.Controller (with the real scanner.Fetcher inside) against Migrillian.tla in both directions.
    Also called by C16 (f < 1): the controller is an anchored user of the Fetcher, and what C16 says about continuous
    passes ("carries on with newly published entries without gaps or repeats", transient errors) is decided here by
    PosCovered / NoGap / Complete / Mirror."""
    def n(q, t):
        return max(40, int(ctx.pick(q, t) * f))
    # 2. spec -> code: simulated behaviours as fault schedules
    behs = []
    for cfg, num in (("MigrillianSim.cfg", n(400, 4000)), ("MigrillianSimBenign.cfg", n(400, 4000)),
                     ("MigrillianSimPages.cfg", n(200, 2000)), ("MigrillianSimRange.cfg", n(300, 3000)),
                     ("MigrillianSimLag.cfg", n(300, 3000))):
        r = ctx.tlc("migrate", "SimMigrillian", cfg, simulate=num, depth=300, count=False, timeout=3000)
        b = r.records.get("BEH", [])
        if not b:
            raise Infra("simulation %s exported no behaviours" % cfg)
        behs += b
    seen, uniq = set(), []
    for b in behs:
        k = json.dumps(b, sort_keys=True)
        if k not in seen:
            seen.add(k)
            uniq.append(b)
    ctx.log("behaviours: %d (%d distinct)" % (len(behs), len(uniq)))
    path = ctx.write_ndjson("behaviours.ndjson", uniq)
    _, outdir, reps = ctx.go_test("vt/c20", run="TestReplay$", env={"VERIF_BEHAVIOURS": path}, toolchain="go1.26", race=True,
                                  timeout=3000, name="c20replay")
    need_empty_pages(reps, "replay")
    need_range(reps, "replay")
    need_lag(reps, "replay")
    validate(ctx, os.path.join(outdir, "replay-traces.ndjson"), None, "replay")
    # 3. code -> spec: random scenarios, traces validated with all invariants on
    _, outdir, reps = ctx.go_test("vt/c20", run="TestTrace$", env={"VERIF_TRACES": n(150, 1500)}, toolchain="go1.26", race=True,
                                  timeout=3000, name="c20trace")
    need_empty_pages(reps, "trace")
    need_range(reps, "trace")
    need_lag(reps, "trace")
    tr = os.path.join(outdir, "traces.ndjson")
    if not os.path.exists(tr) or os.path.getsize(tr) == 0:
        raise Infra("no trace recorded")
    scen = {}
    sp = os.path.join(outdir, "scenarios.json")
    if os.path.exists(sp):
        scen = json.load(open(sp))
    validate(ctx, tr, scen, "trace")
    # runs in which the monitor saw a quota reply end the pass: the specification must reject them, by name
    tq = os.path.join(outdir, "traces-quota.ndjson")
    if os.path.exists(tq) and os.path.getsize(tq) > 0:
        r = run_trace(ctx, tq, "tracequota")
        if r.violated != "QuotaRetried":
            raise Infra("the harness monitor saw a ResourceExhausted reply end a pass, but MigrillianTrace.tla does not report "
                        "QuotaRetried on that trace (violated=%s): specification and monitor disagree" % r.violated)
        fp, what = NAMED["QuotaRetried"]
        ctx.violation(fp, what, {"trace_window": open(tq).read().splitlines()[:40]})
    # 4. the binding binds: a corrupted trace must be rejected
    bad = corrupt(tr, os.path.join(ctx.work, "corrupted.ndjson"))
    if bad:
        r = run_trace(ctx, bad, "corrupted")
        if not r.violated and not r.records.get("STUCK"):
            raise Infra("a trace with a corrupted leaf was accepted by MigrillianTrace.tla: the binding does not bind")


def need_empty_pages(reps, label):
    """vacuity guard: the empty-page dimension must have reached the real fetcher"""
    n = sum((rep.get("extra") or {}).get("empty_pages_served", 0) for rep in reps)
    if reps and n == 0:
        raise Infra("no empty get-entries page was served in the %s runs: the emptyPage dimension was not exercised" % label)


def need_range(reps, label):
    """vacuity guard: one-shot passes with an explicit end_index beyond the STH, on a source that serves entries beyond
    that STH, must have reached the real fetcher"""
    n = sum((rep.get("extra") or {}).get("passes_end_index_beyond_sth_source_ahead", 0) for rep in reps)
    if reps and n == 0:
        raise Infra("no pass with end_index beyond the STH on a source serving beyond its STH in the %s runs: the configured-range "
                    "dimension was not exercised" % label)


def need_lag(reps, label):
    """vacuity guard: continuous rounds that began with the destination's root behind the position the earlier rounds of the
    run had reached, on a source that had grown beyond that position, must have reached the real Controller"""
    n = sum((rep.get("extra") or {}).get("rounds_root_behind_position_source_grown", 0) for rep in reps)
    if reps and n < 3:
        raise Infra("only %d continuous rounds began with the root behind the run's position and new entries at the source in the %s "
                    "runs: the signer-lag dimension was not exercised" % (n, label))


def run_trace(ctx, path, label):
    r = ctx.tlc("migrate", "MigrillianTrace", "MigrillianTrace.cfg", workers=1, env={"TRACE_FILE": path}, count=False, dfs=True,
                check=False, timeout=3000, label=label)
    if r.rc != 0 and not r.records.get("STUCK") and not r.violated:
        raise Infra("trace validation failed to run (rc=%d)\n%s" % (r.rc, "\n".join(r.out.splitlines()[-30:])))
    return r


def validate(ctx, path, scen, label):
    if not os.path.exists(path) or os.path.getsize(path) == 0:
        raise Infra("no %s traces recorded" % label)
    lines = open(path).read().splitlines()
    n = sum(1 for line in lines if '"ev":"Reset"' in line)
    r = run_trace(ctx, path, label)
    stuck = r.records.get("STUCK", [])
    if r.violated and r.violated in NAMED:
        fp, what = NAMED[r.violated]
        ctx.violation(fp, "%s [%s traces]" % (what, label), {"violated": r.violated, "tlc": tail_states(r.out), **scenario_of(r.out, lines, scen)})
    elif r.violated or stuck:
        ev = stuck[0]["event"] if stuck else {}
        fp = "trace:stuck:%s:%s" % (ev.get("ev", "?"), ev.get("code", ev.get("err", "-")))
        lo = stuck[0]["line"] if stuck else 1
        a = lo
        while a > 1 and '"ev":"Reset"' not in lines[a - 1]:
            a -= 1
        rp = {"stuck": stuck, "violated": r.violated, "trace_window": lines[a - 1:lo + 3]}
        t = ev.get("t")
        if scen and t is not None and str(t) in scen:
            rp.update(scen[str(t)])
        ctx.violation(fp, "a recorded run of the real Controller is not a behaviour of Migrillian.tla: no placement of the "
                      "silent steps explains event %s (line %d of the %s traces)" % (json.dumps(ev), lo, label), rp)
    else:
        ctx.traces += n


def tail_states(out):
    return out.splitlines()[-60:]


def scenario_of(out, lines, scen):
    m = re.findall(r"^/\\ l = (\d+)$", out, re.M)
    if not m or not scen:
        return {}
    ln = min(int(m[-1]), len(lines))
    for i in range(ln - 1, -1, -1):
        if '"ev":"Reset"' in lines[i]:
            t = json.loads(lines[i]).get("t")
            return dict(scen.get(str(t), {}), trace_window=lines[i:ln + 2])
    return {}


def corrupt(src, dst):
    lines = open(src).read().splitlines()
    for i, line in enumerate(lines):
        if '"ev":"Add"' in line and '"code":"OK"' in line and '"c":"src"' in line and '"st":"OK"' in line:
            lines[i] = line.replace('"c":"src"', '"c":"other"', 1)
            # keep only that trace
            a = i
            while a > 0 and '"ev":"Reset"' not in lines[a]:
                a -= 1
            b = i + 1
            while b < len(lines) and '"ev":"Reset"' not in lines[b]:
                b += 1
            with open(dst, "w") as f:
                f.write("\n".join(lines[a:b]) + "\n")
            return dst
    return None
