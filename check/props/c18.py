"""C18 - every component draws temporal shard boundaries at the same instants.

spec/common/Temporal.tla holds InWindow (from the property text) and the three component operators written the way
each component is structured; MCTemporal.tla enumerates every shard list of length <= 3 over instants 0..7 with
present / absent bounds, checks the laws (server = window, list filter = window, shard index = window, exactly one
shard inside the overall span and none outside, routing <=> admission, constructor refuses exactly the ill-formed
lists) and exports every case.  harness/c18 replays every case into ctfe.ValidateChain / a configured ctfe.Instance,
client.NewTemporalLogClient + IndexByDate and loglist3 TemporallyCompatible / Compatible under materializations that
put hour, second and nanosecond distances between an instant and each bound.
"""
import json

from vlib import Infra

LEVEL = "model_checking"

ASSUME = [
    "instants are abstracted to their order: a case over ticks 0..7 is materialized by strictly monotone maps tick -> "
    "anchor + (tick - a) * unit with unit in {1h, 1s, 1ns, 999999999ns, 1000000001ns} and a whole-second anchor "
    "(X.509 times have second resolution; sub-second components are on the bounds and on the full-resolution direct calls)",
    "a log-list entry has a temporal interval with both ends or none (the JSON schema has no one-sided interval)",
    "NAMED CLAUSES EmptyListRefused / EmptyShardRefused: the property does not mention the empty list and the empty "
    "interval [a, a); the specification records that the constructor refuses both",
]


def run(ctx, replay=None):
    ctx.assumptions += ASSUME
    if replay:
        with open(replay) as f:
            rp = json.load(f)
        case = rp["replay"]["case"]
        path = ctx.write_ndjson("replay.ndjson", [case])
        ctx.go_test("c18", run="TestReplay$", env={"VERIF_CASES": path, "VERIF_NT": len(case.get("idx") or [0] * 8),
                                                    "VERIF_REPLAY_ONE": 1})
        return
    # 1. exhaustive case analysis; every state is one shard list, the laws are invariants
    runs = [("MCTemporal.cfg", 8)]
    if ctx.thorough():
        runs.append(("MCTemporalLen4.cfg", 4))
    total = 0
    for cfg, nt in runs:
        r = ctx.tlc("common", "MCTemporal", cfg, workers=1, timeout=1500)
        cases = r.records.get("CASE", [])
        if len(cases) != r.distinct or not cases:
            raise Infra("expected one CASE record per state, got %d for %d states" % (len(cases), r.distinct))
        accepted = sum(1 for c in cases if c["ok"])
        if accepted == 0 or accepted == len(cases):
            raise Infra("vacuous domain: %d of %d lists accepted" % (accepted, len(cases)))
        ctx.log("%s: %d shard lists, %d accepted by the constructor" % (cfg, len(cases), accepted))
        path = ctx.write_ndjson("cases-%d.ndjson" % nt, cases)
        # 2. replay into the three components
        ctx.go_test("c18", run="TestReplay$", env={"VERIF_CASES": path, "VERIF_NT": nt}, timeout=2400,
                    name="c18-%d" % nt)
        total += len(cases)
    ctx.exhaustive = {"domain": "all shard lists of length <= 3 over instants 0..7, bounds absent or 0..7"
                                + ("; length <= 4 over instants 0..3" if ctx.thorough() else ""),
                      "cases": total}
