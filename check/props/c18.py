"""C18 - every component draws temporal shard boundaries at the same instants.

spec/common/Temporal.tla holds InWindow (from the property text) and the three component operators written the way
each component is structured; MCTemporal.tla enumerates every shard list of length <= 3 over instants 0..7 with
present / absent bounds, checks the laws (server = window, list filter = window, shard index = window, exactly one
shard inside the overall span and none outside, routing <=> admission, constructor refuses exactly the ill-formed
lists; the server as configured - ValidateLogConfig -> setUpLogInfo - enforces the configured window, an absent bound
stays absent; completing absent bounds with the extremes of the representable range is a REFUTED observation that differs
from the window exactly at the last instant) and exports every case and the FRAMES in which it has to be materialized.
harness/c18 replays every case into ctfe.ValidateChain / a configured ctfe.Instance, client.NewTemporalLogClient +
IndexByDate, loglist3 TemporallyCompatible / Compatible and integration.NotAfterForLog under materializations that put
hour, second and nanosecond distances between an instant and each bound, at an ordinary instant and at the landmarks of
the time machinery: 0000-01-01 and 9999-12-31T23:59:59Z (first / last instant a certificate can carry), 0001-01-01 (first
protobuf Timestamp = zero time.Time), 1950 / 2050 (UTCTime <-> GeneralizedTime), Unix 0, 2038, 2262.

The log-list filter is a FAMILY of entry points (Temporal.tla "log list filter: the API variants"): TemporallyCompatible,
Compatible, RootCompatible alone and composed with TemporallyCompatible in both orders, each with root nil / CA / not a
CA, certificate nil / present, and per log one state of knowledge in the roots collection (no entry, entry with the root,
entry without it).  MCLogFilter.tla enumerates every log list of length <= 2 over instants 0..3 (logs without interval or
with any interval, well-formed, empty or inverted), checks that in every variant the verdict on a log is InWindow and the
root factor of the call (VariantIsWindow, VariantsAgree; NAMED CLAUSES RootClause, NilCertNothing) and exports the set of
logs every call returns; harness/c18 TestReplayFilter makes every call on the real loglist3.LogList in every frame.
"""
import json

from vlib import Infra

LEVEL = "model_checking"

ASSUME = [
    "instants are abstracted to their order: a case over ticks 0..7 is materialized by strictly monotone maps tick -> "
    "anchor + (tick - a) * unit with unit in {1h, 1s, 1ns, 999999999ns, 1000000001ns} and a whole-second anchor "
    "(X.509 times have second resolution; sub-second components are on the bounds and on the full-resolution direct calls); "
    "the anchor is an ordinary instant (2031) and each landmark of the specification's FRAMES (0000-01-01, 0001-01-01, "
    "1950-01-01, 1970-01-01, 2038-01-19T03:14:07Z, 2050-01-01, 2262-04-11T23:47:16Z, 9999-12-31T23:59:59Z); the frames at the "
    "extremes are realized in full, of the frames inside the range the quick tier draws two materializations per case by seed",
    "bounds are instants a configuration can name (protobuf Timestamp: 0001-01-01T00:00:00Z .. 9999-12-31T23:59:59.999999999Z); "
    "the instant 0000-01-01T00:00:00Z appears as a NotAfter only",
    "NAMED CLAUSES EmptyWindowConfigurable (the server's configuration accepts [a, a), which admits nothing; only "
    "limit < start is refused) and ChooserInside (integration.NotAfterForLog returns an instant of every non-empty window)",
    "a log-list entry has a temporal interval with both ends or none (the JSON schema has no one-sided interval)",
    "NAMED CLAUSES EmptyListRefused / EmptyShardRefused: the property does not mention the empty list and the empty "
    "interval [a, a); the specification records that the constructor refuses both",
    "NAMED CLAUSES RootClause / NilCertNothing (log-list filter variants): the property says nothing about the root "
    "arguments; as documented at loglist3.RootCompatible / Compatible a log without an entry in the roots collection "
    "passes the root condition, a log with an entry passes when the entry contains the (CA) root, a root that is not a CA "
    "returns nothing, Compatible without a root does not consult the collection, RootCompatible without a root keeps only "
    "the logs without an entry; a call that takes a certificate returns nothing when given none.  An entry of the "
    "collection whose pool is nil is not materialized",
]


def run(ctx, replay=None):
    ctx.assumptions += ASSUME
    if replay:
        with open(replay) as f:
            rp = json.load(f)
        if "fcase" in rp["replay"]:
            fcase = rp["replay"]["fcase"]
            nt = len(next(iter(next(iter(fcase["keep"].values())).values()))) - 1
            frames = rp["replay"].get("frames") or [{"at": "Mid", "pins": list(range(nt)), "boundMin": 0, "top": nt - 1}]
            dim = {"variants": sorted(fcase["keep"]), "roots": sorted(next(iter(fcase["keep"].values()))),
                   "states": ["unknown", "accepts", "rejects"], "top": nt - 1}
            ctx.go_test("c18", run="TestReplayFilter$", name="c18-filter",
                        env={"VERIF_FCASES": ctx.write_ndjson("replay-fcase.ndjson", [fcase]),
                             "VERIF_FDIM": ctx.write_ndjson("replay-fdim.ndjson", [dim]),
                             "VERIF_FRAMES": ctx.write_ndjson("frames.ndjson", frames), "VERIF_REPLAY_ONE": 1})
            return
        case = rp["replay"]["case"]
        path = ctx.write_ndjson("replay.ndjson", [case])
        nt = len(case.get("idx") or [0] * 8)
        frames = rp["replay"].get("frames") or [{"at": "Mid", "pins": list(range(nt)), "boundMin": 0, "top": nt - 1}]
        fpath = ctx.write_ndjson("frames.ndjson", frames)
        ctx.go_test("c18", run="TestReplay$", env={"VERIF_CASES": path, "VERIF_NT": nt, "VERIF_FRAMES": fpath,
                                                    "VERIF_REPLAY_ONE": 1})
        return
    # 1. exhaustive case analysis; every state is one shard list, the laws are invariants
    runs = [("MCTemporal.cfg", 8)]
    if ctx.thorough():
        runs.append(("MCTemporalLen4.cfg", 4))
    total = 0
    for cfg, nt in runs:
        r = ctx.tlc("common", "MCTemporal", cfg, workers=1, timeout=1500)
        cases = r.records.get("CASE", [])
        if len(cases) != r.distinct or not cases:
            raise Infra("expected one CASE record per state, got %d for %d states" % (len(cases), r.distinct))
        accepted = sum(1 for c in cases if c["ok"])
        if accepted == 0 or accepted == len(cases):
            raise Infra("vacuous domain: %d of %d lists accepted" % (accepted, len(cases)))
        ctx.log("%s: %d shard lists, %d accepted by the constructor" % (cfg, len(cases), accepted))
        frames = r.records.get("FRAME", [])
        if not frames or any(f["top"] != nt - 1 for f in frames):
            raise Infra("the specification exported no frames for ticks 0..%d: %r" % (nt - 1, frames))
        if not {"Mid", "First", "ConfFirst", "Last"} <= {f["at"] for f in frames}:
            raise Infra("the frames of the extremes of the representable range are missing: %r" % frames)
        path = ctx.write_ndjson("cases-%d.ndjson" % nt, cases)
        fpath = ctx.write_ndjson("frames-%d.ndjson" % nt, frames)
        # 2. replay into the components, every case in every frame
        _, _, reports = ctx.go_test("c18", run="TestReplay$", env={"VERIF_CASES": path, "VERIF_NT": nt, "VERIF_FRAMES": fpath},
                                    timeout=2400, name="c18-%d" % nt)
        # vacuity guard: every frame of the specification was realized by the harness
        counters = {}
        for rep in reports:
            counters.update(rep.get("extra") or {})
        missing = [f["at"] for f in frames if not counters.get("frame:" + f["at"])]
        if missing:
            raise Infra("frames never materialized by the harness: %s" % ", ".join(missing))
        ctx.log("%s: materializations per frame: %s" % (cfg, ", ".join(
            "%s=%d" % (f["at"], counters["frame:" + f["at"]]) for f in frames)))
        total += len(cases)
    # 3. the API variants of the log-list filter: every log list x every call of the family
    fruns = [("MCLogFilter.cfg", 4)]
    if ctx.thorough():
        fruns += [("MCLogFilterLen3.cfg", 3), ("MCLogFilterT5.cfg", 5)]
    ftotal = 0
    for cfg, nt in fruns:
        r = ctx.tlc("common", "MCLogFilter", cfg, workers=1, timeout=1500)
        fcases = r.records.get("FCASE", [])
        if len(fcases) != r.distinct or not fcases:
            raise Infra("expected one FCASE record per state, got %d for %d states" % (len(fcases), r.distinct))
        dims = r.records.get("FDIM", [])
        frames = r.records.get("FRAME", [])
        if len(dims) != 1 or dims[0]["top"] != nt - 1 or not frames or any(f["top"] != nt - 1 for f in frames):
            raise Infra("%s: no dimensions / frames for ticks 0..%d: %r %r" % (cfg, nt - 1, dims, frames))
        dim = dims[0]
        if not {"TC", "C", "TC.RC", "RC.TC", "RC"} <= set(dim["variants"]) or len(dim["roots"]) < 3 or len(dim["states"]) < 3:
            raise Infra("the variant dimension of the specification has shrunk: %r" % dim)
        # vacuity of the domain: some call keeps a log with an interval, some call drops one, and the variants differ
        kept = sum(1 for c in fcases for v in c["keep"].values() for row in v.values() for cell in row if cell)
        cells = sum(len(row) for c in fcases for v in c["keep"].values() for row in v.values())
        if kept == 0 or kept == cells:
            raise Infra("vacuous filter domain: %d of %d calls return a log" % (kept, cells))
        ctx.log("%s: %d log lists, %d calls, %d of them return a log" % (cfg, len(fcases), cells, kept))
        _, _, reports = ctx.go_test("c18", run="TestReplayFilter$", name="c18-filter-%d" % nt, timeout=2400,
                                    env={"VERIF_FCASES": ctx.write_ndjson("fcases-%d.ndjson" % nt, fcases),
                                         "VERIF_FDIM": ctx.write_ndjson("fdim-%d.ndjson" % nt, [dim]),
                                         "VERIF_FRAMES": ctx.write_ndjson("fframes-%d.ndjson" % nt, frames)})
        counters = {}
        for rep in reports:
            counters.update(rep.get("extra") or {})
        missing = ["frame:" + f["at"] for f in frames if not counters.get("frame:" + f["at"])]
        missing += ["variant:" + v for v in dim["variants"] if not counters.get("variant:" + v)]
        missing += ["roots:" + s for s in dim["states"] if not counters.get("roots:" + s)]
        if missing:
            raise Infra("dimensions of the filter cases never materialized by the harness: %s" % ", ".join(missing))
        ctx.log("%s: %d calls of the filter family on the real log list; per variant: %s" % (
            cfg, counters.get("filter_calls", 0), ", ".join("%s=%d" % (v, counters["variant:" + v]) for v in dim["variants"])))
        ftotal += len(fcases)
    ctx.exhaustive = {"domain": "all shard lists of length <= 3 over instants 0..7, bounds absent or 0..7"
                                + ("; length <= 4 over instants 0..3" if ctx.thorough() else "")
                                + "; all log lists of length <= 2 over instants 0..3 (interval absent or any [s, e)) x roots "
                                  "knowledge {no entry, accepts, rejects} x 5 filter entry points x root {nil, CA, not CA} x "
                                  "certificate {nil, NotAfter at every instant}"
                                + ("; log lists of length <= 3 over instants 0..2 and length <= 2 over instants 0..4" if ctx.thorough() else ""),
                      "cases": total + ftotal}
