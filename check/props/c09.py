"""C09 - the TLS presentation codec is a bijection on every supported type shape.

spec/codec/TLSCodec.tla (Enc / Dec of RFC 5246 section 4 over type descriptors and segmented byte
strings, the three laws), MCTLSCodec.tla (families of type shapes from the tag grammar x values x
byte-string mutations).  TLC checks the laws on the model for every case and exports every case with
the model's Enc / Dec results; harness/c09 builds the Go types with reflect.StructOf and compares
tls.Marshal[WithParams] / tls.Unmarshal[WithParams] with the model case by case (TestReplay), then
runs seeded random types / values / byte strings against the reference codec that the replay ties to
the specification (TestRandom).
"""
import concurrent.futures
import json
import os

from vlib import Infra

LEVEL = "model_checking"

ASSUME = [
    "type shapes: the families of MCTLSCodec.tla (single member, all pairs of kinds, triples / nesting depth 3 / "
    "vectors of structs and of integers over a reduced kind list, selects in four layouts with six arm kinds, "
    "vectors at the 2^16 and 2^24 boundaries) plus seeded random types of nesting <= 3; empty structs, fixed arrays "
    "of non-bytes and maxlen:0 are outside the documented grammar",
    "values per member: 0, all-bytes-distinct, maximum, one past the maximum (where the Go carrier can hold it); "
    "vector lengths min-1, min, max, max+1; byte strings: the encoding, +1 trailing byte, truncations, every "
    "literal byte +-1 (length prefix +-1, > max, < min, selector without arm), random mutations",
    "named clause EnumBoundIsWidth: an enum is bounded by its width, not by maxval (RFC 5246 4.5), in both directions",
    "'no out-of-bounds read' is Go memory safety (a panic is a violation); 'allocation the input justifies' is "
    "TotalAlloc per decode <= (64 + 2*sizeof(largest vector element type)) * len(input) + 8 KiB",
]

def export_cases(ctx):
    """Runs Parts TLC processes (one worker each: export order) and returns (path of the NDJSON file, #cases, #inputs)."""
    cfg = ctx.pick("MCTLSCodec.cfg", "MCTLSCodecThorough.cfg")
    parts = ctx.pick(8, 48)
    pool = min(parts, ctx.pick(8, 16), os.cpu_count() or 8)

    def one(p):
        def tlc(attempt):
            return ctx.tlc("codec", "MCTLSCodec", cfg, workers=1, env={"VERIF_PART": p, "VERIF_PARTS": parts},
                           label="%s-part%d-%d" % (cfg, p, attempt), timeout=ctx.pick(900, 3000),
                           java_opts=["-Xmx1500m", "-XX:ParallelGCThreads=2"])
        try:
            r = tlc(0)
        except Infra as ex:
            if "rc=143" not in str(ex) and "rc=137" not in str(ex):
                raise
            ctx.log("TLC partition %d was killed from outside, running it again" % p)
            r = tlc(1)
        cases = r.records.pop("CASE", [])
        r.out = ""
        path = ctx.write_ndjson("cases-part%d.ndjson" % p, cases)
        return path, len(cases), sum(len(c["ins"]) for c in cases)

    with concurrent.futures.ThreadPoolExecutor(max_workers=pool) as ex:
        results = list(ex.map(one, range(parts)))
    path = os.path.join(ctx.work, "cases.ndjson")
    with open(path, "w") as out:
        for part, _, _ in results:
            with open(part) as f:
                for line in f:
                    out.write(line)
            os.remove(part)
    ncases, ninputs = sum(r[1] for r in results), sum(r[2] for r in results)
    if ncases < 1000:
        raise Infra("TLC exported only %d cases" % ncases)
    ctx.exhaustive = True
    return path, ncases, ninputs


def run(ctx, replay=None):
    ctx.assumptions += ASSUME
    if replay:
        with open(replay) as f:
            rp = json.load(f)
        data = rp.get("replay") or {}
        if "case" in data:
            path = ctx.write_ndjson("replay.ndjson", [data["case"]])
            ctx.go_test("c09", run="TestReplay$", env={"VERIF_CASES": path})
        else:
            path = ctx.write_ndjson("replay.ndjson", [data])
            ctx.go_test("c09", run="TestReplayRandom$", env={"VERIF_CASES": path})
        return
    # 1. TLC: the laws on the model, for every enumerated (type, value, byte string); every case exported
    path, ncases, ninputs = export_cases(ctx)
    ctx.log("cases: %d (type, value) pairs, %d byte strings" % (ncases, ninputs))
    # 2. every case against tls.Marshal / tls.Unmarshal on run-time built Go types
    ctx.go_test("c09", run="TestReplay$", env={"VERIF_CASES": path}, timeout=ctx.pick(900, 3000))
    # 3. random types / values / byte strings against the reference codec (tied to the spec by step 2)
    ctx.go_test("c09", run="TestRandom$", env={"VERIF_TYPES": ctx.pick(2500, 40000)}, timeout=ctx.pick(900, 3000),
                name="c09random")
