"""C09 - the TLS presentation codec is a bijection on every supported type shape.

spec/codec/TLSCodec.tla (Enc / Dec of RFC 5246 section 4 over type descriptors and segmented byte
strings, the three laws), MCTLSCodec.tla (families of type shapes from the tag grammar x values x
byte-string mutations; family "bound": every tag bound at both ends of every width class, 0 included,
x every spelling of the tag x every place a tag can stand).  TLC checks the laws on the model for every case and exports every case with
the model's Enc / Dec results; harness/c09 builds the Go types with reflect.StructOf and compares
tls.Marshal[WithParams] / tls.Unmarshal[WithParams] with the model case by case (TestReplay), then
runs seeded random types / values / byte strings against the reference codec that the replay ties to
the specification (TestRandom).

Concurrency layer: spec/codec/TLSCodecConc.tla states the function law over several callers (every call
returns what it returns alone, whichever calls are in flight and whether or not the package has met the
type before).  TLC checks it for the sound models of a per-type memo and refutes it for three defective
ones (ExposeProbe prints the classes of the refuting rounds); MCTLSCodecConc.tla makes the rounds concrete
(shape x callers x Marshal/Unmarshal mix x arguments x call before x call after x one/two types) with the
model's Enc / Dec as expected results, and harness/c09 TestConcurrent executes every round on struct types
built for that execution alone (first use inside the wave), without and with the race detector.
"""
import concurrent.futures
import json
import os
import threading

from vlib import Infra

LEVEL = "model_checking"

ASSUME = [
    "type shapes: the families of MCTLSCodec.tla (single member, all pairs of kinds, triples / nesting depth 3 / "
    "vectors of structs and of integers over a reduced kind list, selects in four layouts with six arm kinds, "
    "vectors at the 2^16 and 2^24 boundaries; family 'bound': every tag bound at both ends of every width class - 0, 1, "
    "255, 256, 2^16-1, 2^16, ... 2^56-1, 2^56, 2^64-1 - carried by maxval, by minlen:0,maxlen / maxlen alone / "
    "maxlen,minlen:0 on opaque vectors and by maxlen on a vector of uint16, placed as the params of "
    "MarshalWithParams / UnmarshalWithParams, as the only member, between a uint8 and a uint16, as the chosen and as "
    "an unchosen arm of a select) plus seeded random types of nesting <= 3 (one-byte bounds from 0, the three "
    "spellings of a vector tag); empty structs, fixed arrays of non-bytes, size:0, minlen > maxlen and the order "
    "selector:,val: before the type clauses of an arm are outside the documented grammar / not driven",
    "values per member: 0, all-bytes-distinct, maximum, one past the maximum (where the Go carrier can hold it); "
    "vector lengths min-1, min, max, max+1; byte strings: the encoding, +1 trailing byte, truncations, every "
    "literal byte +-1 (length prefix +-1, > max, < min, selector without arm), random mutations",
    "named clause EnumBoundIsWidth: an enum is bounded by its width, not by maxval (RFC 5246 4.5), in both directions",
    "named clause MaxlenZeroIsWidth: a vector tagged maxlen:0 (minlen is then 0) has a one-byte length prefix and no "
    "declared range: tls.go reads maxlen 0 as 'no range given', so both directions accept 0..255 bytes; the lower edge "
    "of the width rule (a bound of 0 still takes one byte: RFC 5246 4.3 / 4.5) is asserted for maxval:0 and maxlen:0",
    "'no out-of-bounds read' is Go memory safety (a panic is a violation); 'allocation the input justifies' is "
    "TotalAlloc per decode <= (64 + 2*sizeof(largest vector element type) + 256 if some vector has struct elements: "
    "the reflective decoder's bookkeeping per element) * len(input) + 8 KiB",
    "concurrent callers: rounds of a solo call | none, a wave of 2 / 4 / 8 goroutines released together, a solo call "
    "| none, on struct types never seen by the process (renamed members); interleavings inside a wave are whatever "
    "the scheduler gives (no hooks inside tls), each round is executed several times; data races are judged by the "
    "Go race detector on a second run of the same rounds",
]

DEFECTIVE = ("publish-then-fill", "fill-while-walking", "shared-scratch")

def _tlc_again(ctx, what, run):
    try:
        return run(0)
    except Infra as ex:
        if "rc=143" not in str(ex) and "rc=137" not in str(ex):
            raise
        ctx.log("TLC %s was killed from outside, running it again" % what)
        return run(1)


def export_cases(ctx, conc_only=False):
    """Runs the TLC processes of the check in one pool (export needs one worker each: export order):
    Parts partitions of MCTLSCodec (sequential cases), the partitions of MCTLSCodecConc (shapes and rounds of the
    concurrency layer) and the two runs of TLSCodecConc (function law / refutation probe).
    Returns (cases path, #cases, #inputs, rounds path, #rounds, exposing classes per defective discipline)."""
    cfg = ctx.pick("MCTLSCodec.cfg", "MCTLSCodecThorough.cfg")
    parts = 0 if conc_only else ctx.pick(8, 48)
    cparts = ctx.pick(3, 6)
    pool = min(parts + cparts + 2, ctx.pick(8, 16), os.cpu_count() or 8)

    def one(p):
        def tlc(attempt):
            return ctx.tlc("codec", "MCTLSCodec", cfg, workers=1, env={"VERIF_PART": p, "VERIF_PARTS": parts},
                           label="%s-part%d-%d" % (cfg, p, attempt), timeout=ctx.pick(900, 3000),
                           java_opts=["-Xmx1500m", "-XX:ParallelGCThreads=2"])
        r = _tlc_again(ctx, "partition %d" % p, tlc)
        cases = r.records.pop("CASE", [])
        r.out = ""
        path = ctx.write_ndjson("cases-part%d.ndjson" % p, cases)
        return path, len(cases), sum(len(c["ins"]) for c in cases)

    def conc(p):
        ccfg = ctx.pick("MCTLSCodecConc.cfg", "MCTLSCodecConcThorough.cfg")

        def tlc(attempt):
            return ctx.tlc("codec", "MCTLSCodecConc", ccfg, workers=1, env={"VERIF_PART": p, "VERIF_PARTS": cparts},
                           label="%s-part%d-%d" % (ccfg, p, attempt), timeout=ctx.pick(900, 3000),
                           java_opts=["-Xmx1500m", "-XX:ParallelGCThreads=2"])
        r = _tlc_again(ctx, "concurrency partition %d" % p, tlc)
        recs = r.records.pop("BASE", []) + r.records.pop("ROUND", [])
        r.out = ""
        return ctx.write_ndjson("rounds-part%d.ndjson" % p, recs), sum(1 for x in recs if x["kind"] == "round")

    def law(which):
        # the thorough tier adds three callers on one type to the two callers on two types of the quick tier
        if which == "sound":
            # FunctionLaw is an invariant of every round under the sound disciplines
            for lcfg in ctx.pick(["TLSCodecConc.cfg"], ["TLSCodecConc.cfg", "TLSCodecConcThorough.cfg"]):
                ctx.tlc("codec", "TLSCodecConc", lcfg, workers=3, timeout=ctx.pick(600, 1800),
                        java_opts=["-Xmx2g", "-XX:ParallelGCThreads=2"])
            # and every call of every round returns, under every discipline
            ctx.tlc("codec", "TLSCodecConc", "TLSCodecConcLive.cfg", workers=2, timeout=600,
                    java_opts=["-Xmx1g", "-XX:ParallelGCThreads=2"])
            return None
        exposing = {}
        for lcfg in ctx.pick(["TLSCodecConcRefute.cfg"], ["TLSCodecConcRefute.cfg", "TLSCodecConcRefuteThorough.cfg"]):
            r = ctx.tlc("codec", "TLSCodecConc", lcfg, workers=3, timeout=ctx.pick(600, 1800),
                        java_opts=["-Xmx2g", "-XX:ParallelGCThreads=2"])
            for e in r.records.pop("EXPOSED", []):
                exposing.setdefault(e["disc"], set()).add(json.dumps(e["class"], sort_keys=True))
            r.out = ""
        return exposing

    with concurrent.futures.ThreadPoolExecutor(max_workers=pool) as ex:
        # the longest first
        fconc = [ex.submit(conc, p) for p in range(cparts)]
        flaw = [ex.submit(law, w) for w in ("sound", "refute")]
        results = list(ex.map(one, range(parts)))
        cresults = [f.result() for f in fconc]
        exposing = [f.result() for f in flaw][1]

    def join(name, partfiles):
        path = os.path.join(ctx.work, name)
        with open(path, "w") as out:
            for part in partfiles:
                with open(part) as f:
                    for line in f:
                        out.write(line)
                os.remove(part)
        return path

    rpath = join("rounds.ndjson", [r[0] for r in cresults])
    nrounds = sum(r[1] for r in cresults)
    if nrounds < 300:
        raise Infra("TLC exported only %d rounds" % nrounds)
    for d in DEFECTIVE:
        if not exposing.get(d):
            raise Infra("TLSCodecConc: FunctionLaw was not refuted for the discipline %s (the probe is vacuous)" % d)
    if conc_only:
        return None, 0, 0, rpath, nrounds, exposing
    path = join("cases.ndjson", [r[0] for r in results])
    ncases, ninputs = sum(r[1] for r in results), sum(r[2] for r in results)
    if ncases < 1000:
        raise Infra("TLC exported only %d cases" % ncases)
    ctx.exhaustive = True
    return path, ncases, ninputs, rpath, nrounds, exposing


def concurrent_rounds(ctx, rpath, exposing, reps=None):
    """TestConcurrent without and with the race detector; the executed rounds must contain, for every defective
    discipline of TLSCodecConc.tla, rounds of a class on which TLC told it from the function."""
    env = {"VERIF_CASES": rpath, "VERIF_CONC_REPS": ctx.pick(3, 12), "VERIF_CONC_WIDE_REPS": ctx.pick(30, 60),
           "VERIF_CONC_RANDOM": ctx.pick(1500, 20000)}
    if reps:
        env.update({"VERIF_CONC_REPS": reps, "VERIF_CONC_WIDE_REPS": 10 * reps})
    _, _, reports = ctx.go_test("c09", run="TestConcurrent$", env=env, timeout=ctx.pick(900, 3000), name="c09conc")
    renv = dict(env, VERIF_CONC_NAME="c09-concurrent-race", VERIF_CONC_REPS=ctx.pick(1, 3),
                VERIF_CONC_WIDE_REPS=ctx.pick(4, 20), VERIF_CONC_RANDOM=ctx.pick(400, 4000))
    ctx.go_test("c09", run="TestConcurrent$", env=renv, race=True, timeout=ctx.pick(900, 3000), name="c09concrace")
    executed = set()
    for rep in reports:
        for cl in (rep.get("extra") or {}).get("classes", {}):
            executed.add(json.dumps(json.loads(cl), sort_keys=True))
    if not reports:
        return
    for d in DEFECTIVE:
        hit = executed & exposing[d]
        ctx.log("rounds executed in %d classes; %d of the %d classes that expose '%s' among them" % (
            len(executed), len(hit), len(exposing[d]), d))
        if not hit:
            raise Infra("no executed round is of a class that exposes the discipline %s" % d)


def run(ctx, replay=None):
    ctx.assumptions += ASSUME
    if replay:
        with open(replay) as f:
            rp = json.load(f)
        data = rp.get("replay") or {}
        if data.get("conc") or "TestConcurrent" in " ".join(data.get("cmd") or []):
            # a violation of the concurrency layer (or a crash / data race of that run): the rounds again, more often
            if data.get("seed"):
                ctx.seed = int(data["seed"])
            _, _, _, rpath, _, exposing = export_cases(ctx, conc_only=True)
            concurrent_rounds(ctx, rpath, exposing, reps=20)
        elif "output_tail" in data:
            return run(ctx)         # a crash of the process in another step: the whole check again
        elif "case" in data:
            path = ctx.write_ndjson("replay.ndjson", [data["case"]])
            ctx.go_test("c09", run="TestReplay$", env={"VERIF_CASES": path})
        else:
            path = ctx.write_ndjson("replay.ndjson", [data])
            ctx.go_test("c09", run="TestReplayRandom$", env={"VERIF_CASES": path})
        return
    # 1. TLC: the laws on the model, for every enumerated (type, value, byte string); every case exported;
    #    the function law over concurrent callers, the rounds of the concurrency layer
    path, ncases, ninputs, rpath, nrounds, exposing = export_cases(ctx)
    ctx.log("cases: %d (type, value) pairs, %d byte strings; %d rounds of concurrent callers" % (ncases, ninputs, nrounds))
    # 2. every case against tls.Marshal / tls.Unmarshal on run-time built Go types; beside it (the replay is one
    #    goroutine) the rounds of concurrent callers on fresh types, without and with -race,
    #    and the random types / values / byte strings against the reference codec (tied to the spec by the replay)
    errs = []

    def side():
        try:
            concurrent_rounds(ctx, rpath, exposing)
            ctx.go_test("c09", run="TestRandom$", env={"VERIF_TYPES": ctx.pick(2500, 40000)},
                        timeout=ctx.pick(900, 3000), name="c09random")
        except BaseException as ex:  # noqa
            errs.append(ex)

    th = threading.Thread(target=side)
    th.start()
    try:
        ctx.go_test("c09", run="TestReplay$", env={"VERIF_CASES": path}, timeout=ctx.pick(900, 3000))
    finally:
        th.join()
    if errs:
        raise errs[0]
