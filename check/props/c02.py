"""C02 - only chains that lead, in submitted order, to a trusted root are admitted.

spec/ctfe/ChainAdmission.tla: Admit / Paths from the property text (Links, Anchored, leaf filters with Temporal's
InWindow, poison kinds, endpoint match; named clauses NoRepeat, TrustedLeafAlone), next to the code-shaped path search
(CodePaths, Equivalent) which TLC proves equal on the whole model.  MCChainAdmission.tla enumerates base chains x
perturbations (one in quick, two in thorough) x seven trusted pools as states and evaluates all 2160 option combinations
x 2 endpoints in each; every state is exported with the verdict sets.  harness/c02 materializes the hierarchy with
std crypto/x509 (two epochs, mixed key algorithms) and replays the cases into ctfe.ValidateChain /
IsPrecertificate and into add-chain / add-pre-chain of configured instances.

Hierarchies with look-alikes: certificates carry key identifiers (hints of the search, no part of Links); the world has
DECOYS - self-signed CAs that share the key and identifier of a CA of the hierarchy under another name, or its name with
another key - and decoy pools that pair them with a root under which the submission is in order, so that the candidate
lookup (by identifier first, then by name: Candidates) has to pass over a trusted certificate that does not link and go
on through the other trusted and the submitted certificates.  Pools are materialized in both orders, as one roots file
and as one file per certificate.

Options as configured (spec/ctfe/MCChainAdmissionCfg.tla): the option table speaks of the filter; an operator writes
lists (ext_key_usages, reject_extensions).  Every list of up to three (thorough: four) EKU names over five - "any"
first / in the middle / last / alone / repeated, duplicates, every order - and every list of up to two forbidden
extensions is a state; laws ListShape / order-freedom / AnyOpens; the rows are appended to the option table and replayed
through configured instances (LogConfig -> ValidateLogConfig -> instance set-up) and through ValidateLogConfig +
NewCertValidationOpts + ValidateChain.

Entries as bytes (ChainAdmission.tla: Form, EntryParses, EntryLaw): a submitted entry is a certificate in some encoding
followed by something or nothing.  Every certificate of the 33 base chains, at every position, is submitted in four
encodings (DER; serial number / version INTEGER padded with a leading 00 and signed anew; outer length padded) x five
trailers (none, one octet, several, a well-formed element, a second certificate); one trusted pool holds the root in a
padded encoding.  Only "nothing follows" in a read encoding is a certificate; the path handed on carries the form as
submitted, byte for byte.

The NotAfter window over the whole line (MCChainAdmissionWin.tla, FRAMES of ChainAdmissionWorld.tla): every window as
configured - start / limit absent or at any instant 1..8 - x leaves expiring at every instant 1..8, and EVERY case of
the check, are realized in four frames: ordinary dates before / after the wall clock, and the instants spread over
year 500 .. 1677-09-21T00:12:43Z | 44Z .. 1950 resp. 2049 .. 2262-04-11T23:47:16Z | 17Z .. 2300 .. 9999-12-31T23:59:59Z,
so that bounds on ordinary dates meet NotAfter values beyond what a 64-bit nanosecond count holds (law FrameFree).

History layer (spec/ctfe/ChainAdmissionLog.tla): a log serving many requests while the clock advances; the law is that
admission is a FUNCTION of the request, the configuration at set-up and the clock at the instant of that request
(JudgedAlone, NothingRemembered, ConfigFixed, Repeatable, WhenShape).  Checked exhaustively on a small instance, refuted
by TLC on two negative instances (a log that pins the clock of its first request, a verdict memo keyed by leaf), and
bound to the code by random walks (MCChainAdmissionLog.tla) replayed under virtual time (testing/synctest, go1.26,
-race): in order, reversed at the final instant, and all at once on fresh logs.
"""
import json
from concurrent.futures import ThreadPoolExecutor

from vlib import Infra

LEVEL = "model_checking"

ASSUME = [
    "certificates are abstracted to the facts admission depends on (names, keys, signer, CA bit, EKUs, poison, "
    "NotAfter, extension ids); the harness checks with the standard library that the materialized hierarchy has "
    "exactly the model's Links relation (signatures, names, CA bits) and that forged twins do not verify",
    "signature schemes are sound (a certificate verifies under exactly the key that signed it)",
    "NAMED CLAUSES: NoRepeat (a chain naming the same certificate twice is refused), TrustedLeafAlone (a first "
    "certificate that is itself in the trusted pool is admitted alone and refused when followed by others - recorded "
    "behaviour of the code where the text would admit), TrustedLastEndsPath (both the submission itself and the "
    "submission plus a trusted issuer are allowed paths when the last certificate is trusted)",
    "an instance reads the system clock for expired / unexpired: in the case replay only 'now before / after every "
    "NotAfter' is exercised through HTTP (hierarchies dated 2120 / 1995) and 'now' at the boundary on ValidateChain, which "
    "takes the time as a parameter; the history layer runs instances and ValidateChain (options without a time) on the "
    "virtual clock of a testing/synctest bubble, one model instant = one second (sub-second positions of 'now' are not exercised)",
    "NAMED CLAUSE PinnedTime: options handed to ValidateChain may carry a time and expiry is then judged at that instant; "
    "a log's configuration has no such field, every request to a log is judged at the instant of that request",
    "histories are random walks (not exhaustive): three logs, 18 entries, chains = base chains and their single perturbations",
    "forbidden-extension configurations are reachable through an instance only (NewCertValidationOpts has no parameter for them); "
    "'Any' EKU configurations through an instance and through ValidateLogConfig, whose key usages are handed to NewCertValidationOpts",
    "NAMED CLAUSE KeyIdsAgree: key identifiers are hints and take no part in the admission predicate; the hierarchies are those "
    "of RFC 5280 s4.2.1.2 (a certificate's authority key identifier is the subject key identifier of the certificates holding its "
    "signer's key; several certificates may share a key and identifier under different names, or a name under different keys). "
    "Hierarchies where an authority key identifier points at another key than the signer's are not exercised",
    "configured lists use names the front end knows (unknown names are refused at configuration time: C15)",
    "NAMED CLAUSES PaddedIntegersRead / PaddedLengthRefused: which deviations from DER still 'parse' is recorded from the code - "
    "an INTEGER of the TBSCertificate with a superfluous leading 00 octet (serial number, version) is read, a length with one is "
    "refused; other tolerated deviations (empty OBJECT IDENTIFIER, PrintableString contents) lie inside fields that are decoded "
    "separately and are not exercised here (C10 / C11)",
    "NAMED CLAUSE PaddedPrecertRefused (observation): a PRECERTIFICATE leaf whose TBSCertificate carries a padded INTEGER passes "
    "ctfe.ValidateChain but is refused by add-pre-chain with 400 (the entry is rebuilt from the TBSCertificate with the strict "
    "decoder: 'failed to remove poison extension ... integer not minimally-encoded'), while add-chain admits a certificate with the "
    "same padding; padded certificates further up the chain, the pre-issuer included, are admitted",
    "frames: a frame is a strictly monotone placement of the instants 0..9 on landmarks; the harness checks the order of the "
    "landmarks and the side of the wall clock at start-up.  Instant 0 of a frame is never the zero time.Time (options read it as "
    "'no time given'); year 10000 appears as 'now' of direct calls only",
]


def model(ctx, cfg):
    r = ctx.tlc("ctfe", "MCChainAdmission", cfg, workers=1, timeout=3300)
    cases = r.records.get("CASE", [])
    if len(cases) != r.distinct or not cases:
        raise Infra("expected one CASE record per state, got %d for %d states" % (len(cases), r.distinct))
    try:
        tables = {"opts": r.records["OPTS"][0], "certs": r.records["CERTS"][0], "trust": r.records["TRUST"][0],
                  "forms": r.records["FORMS"][0], "frames": r.records["FRAMES"][0]}
    except KeyError as ex:
        raise Infra("model did not export table %s" % ex)
    ok = [c for c in cases if c["ok"]]
    kinds = set(c["kind"] for c in ok)
    tags = set(t for c in cases for t in c["tags"])
    if not ok or len(ok) == len(cases) or not {"cert", "precert", "malformed"} <= kinds:
        raise Infra("vacuous model: %d of %d chains in order, leaf kinds %s" % (len(ok), len(cases), sorted(kinds)))
    if not any(c["admC"] for c in ok) or not any(c["admP"] for c in ok):
        raise Infra("vacuous model: no admitted case")
    # chains in order whose search has to pass over a trusted look-alike: at the leaf, in the middle, at the last certificate
    decoy = [c for c in ok if c["decoy"]]
    dpools = set(c["T"] for c in decoy)
    if len(decoy) < 40 or len(dpools) < 4 or not any(c["admP"] for c in decoy):
        raise Infra("vacuous model: %d chains in order with a decoy in the trusted pool (pools %s)" % (len(decoy), sorted(dpools)))
    # the forms of an entry: every encoding x trailer at the leaf and further up, the padded INTEGERs in chains in order,
    # a chain in order under the pool that holds the padded root
    forms = [c for c in cases if c["tags"] and c["tags"][0].startswith("entry:")]
    classes = set(c["tags"][0] for c in forms)
    readable = set(c["tags"][0] for c in forms if c["ok"])
    if len(classes) != 19 or readable != {"entry:serialPad+none", "entry:versionPad+none"} \
            or not any(c["kind"] == "unparsable" for c in forms) or not any(c["kind"] != "unparsable" and not c["ok"] for c in forms) \
            or not any(c["ok"] and c["T"] == "TS" for c in cases):
        raise Infra("vacuous model: forms of an entry %s, read %s" % (sorted(classes), sorted(readable)))
    ctx.log("%s: %d states (%d chains in order, %d of them past a decoy in the trusted pool; %d with an entry in another form, %d of them in order), "
            "perturbations %s, %d option combinations" % (
                cfg, len(cases), len(ok), len(decoy), len(forms), sum(c["ok"] for c in forms),
                sorted(t for t in tags if not t.startswith("entry:")), len(tables["opts"])))
    return cases, tables


def win_model(ctx):
    """The NotAfter window as configured, over the whole line: one WIN record per (start, limit, rest of the options)."""
    r = ctx.tlc("ctfe", "MCChainAdmissionWin", "ChainAdmissionWin.cfg", workers=1, timeout=900)
    recs = r.records.get("WIN", [])
    if len(recs) != r.distinct or not recs:
        raise Infra("expected one WIN record per state, got %d for %d states" % (len(recs), r.distinct))
    recs.sort(key=lambda x: (x["row"]["rest"], x["row"]["start"], x["row"]["limit"]))
    shapes = set((x["row"]["start"] >= 0, x["row"]["limit"] >= 0) for x in recs)
    adm = sum(c["v"]["val"] for x in recs for c in x["chains"])
    tot = sum(len(x["chains"]) for x in recs)
    # start only / limit only / both / none; every leaf both admitted and refused under one-sided windows
    one_sided = [x for x in recs if (x["row"]["start"] >= 0) != (x["row"]["limit"] >= 0) and not x["row"]["rejExp"] and not x["row"]["rejUnexp"]]
    both_ways = all(any(x["chains"][i]["v"]["val"] for x in one_sided) and any(not x["chains"][i]["v"]["val"] for x in one_sided)
                    for i in range(1, len(recs[0]["chains"]) - 1))
    if len(shapes) != 4 or not 0 < adm < tot or not both_ways:
        raise Infra("vacuous window model: shapes %s, %d of %d verdicts admit" % (sorted(shapes), adm, tot))
    ctx.log("ChainAdmissionWin.cfg: %d windows as configured x %d leaves (%d of %d verdicts admit)" % (len(recs), len(recs[0]["chains"]), adm, tot))
    return recs


def cfg_model(ctx):
    """The options as configured: one CFG record per configuration as written, with the verdicts on the chains of the model."""
    cfg = ctx.pick("ChainAdmissionCfg.cfg", "ChainAdmissionCfgBig.cfg")
    r = ctx.tlc("ctfe", "MCChainAdmissionCfg", cfg, workers=1, timeout=1500)
    recs = r.records.get("CFG", [])
    if len(recs) != r.distinct or not recs:
        raise Infra("expected one CFG record per state, got %d for %d states" % (len(recs), r.distinct))
    # (the rows of the quick tier are a prefix of those of the thorough tier: stable indices for replay)
    recs.sort(key=lambda x: (len(x["row"]["ekuList"]) > 3, x["row"]["rest"], len(x["row"]["ekuList"]), x["row"]["ekuList"], x["row"]["extList"]))
    # vacuity: "any" at every position among other names, and the position must matter to a log that read the list naively
    pos = set()
    for x in recs:
        l = x["row"]["ekuList"]
        if "any" in l and len(l) > 1:
            i = l.index("any")
            pos.add("first" if i == 0 else "last" if i == len(l) - 1 else "middle")
    # ... a leaf with the server EKU admitted under a list that names "any" and otherwise only EKUs the leaf does not have
    opened = sum(1 for x in recs if "any" in x["row"]["ekuList"] and set(x["row"]["ekuList"]) - {"any", "server"} and
                 "server" not in x["row"]["ekuList"] and any(c["ch"][0] == "L2" and c["v"]["admC"] for c in x["chains"]))
    if pos != {"first", "middle", "last"} or not opened or not any(x["row"]["extList"] for x in recs):
        raise Infra("vacuous configuration model: positions of any %s" % sorted(pos))
    ctx.log("%s: %d configurations as written (%d with 'any', %d with forbidden extensions) x %d chains" % (
        cfg, len(recs), sum("any" in x["row"]["ekuList"] for x in recs), sum(bool(x["row"]["extList"]) for x in recs), len(recs[0]["chains"])))
    return recs


def merge(tables, cases, recs, flag="spelled", tag="as-configured"):
    """Append the configurations as written to the option table and their chains to the cases (verdict sets over the
    appended rows only: Case.rows)."""
    tables.setdefault("nbase", len(tables["opts"]))
    first = len(tables["opts"])
    extra = []
    for j, rec in enumerate(recs):
        k = first + j + 1
        row = dict(rec["row"])
        row[flag] = True
        tables["opts"].append(row)
        for i, cv in enumerate(rec["chains"]):
            if j == 0:
                extra.append({"ch": cv["ch"], "T": cv["T"], "tags": [tag], "ok": cv["ok"], "kind": cv["kind"], "paths": cv["paths"],
                              "decoy": False, "val": [], "admC": [], "admP": [], "rows": []})
            e = extra[i]
            if e["ch"] != cv["ch"]:
                raise Infra("configuration records list different chains")
            e["rows"].append(k)
            for f in ("val", "admC", "admP"):
                if cv["v"][f]:
                    e[f].append(k)
    return cases + extra


def log_model(ctx):
    """The history specification: laws on the small exhaustive instance, the two negative instances refuted."""
    def one(job):
        cfg, expect = job
        return ctx.tlc("ctfe", "MCChainAdmissionLog", cfg, workers=4, timeout=1500, expect_violation=expect, count=not expect)
    jobs = [(ctx.pick("ChainAdmissionLogSmall.cfg", "ChainAdmissionLogBig.cfg"), False), ("ChainAdmissionLogPinFirst.cfg", True), ("ChainAdmissionLogMemo.cfg", True)]
    with ThreadPoolExecutor(max_workers=3) as pool:
        res = list(pool.map(one, jobs))
    for (cfg, expect), r in zip(jobs, res):
        if expect and r.violated != "JudgedAlone":
            raise Infra("%s: the negative instance must violate JudgedAlone, TLC says %r" % (cfg, r.violated))
    return res[0].distinct


def walks_of(ctx, n):
    steps = 18
    r = ctx.tlc("ctfe", "MCChainAdmissionLog", "ChainAdmissionLogSim.cfg", simulate=n, depth=steps + 4, count=False, timeout=1500)
    walks = r.records.get("WALK", [])
    if len(walks) != n:
        raise Infra("expected %d walks, got %d" % (n, len(walks)))
    serves = [s for w in walks for s in w["steps"] if s["op"] == "serve"]
    routes = set(s["route"] for s in serves if s["verdict"])
    # a walk exposes a log that judges at the instant of its first request (instead of the instant of the request)
    exposing = flips = 0
    for w in walks:
        first, seen, hit = {}, {}, False
        for s in w["steps"]:
            if s["op"] != "serve":
                continue
            k = (s["log"], tuple(s["ch"]), s["route"])
            if k in seen and seen[k] != s["verdict"]:
                flips += 1
            seen[k] = s["verdict"]
            if s["route"] != "validate":
                first.setdefault(s["log"], s["at"])
                hit = hit or ((first[s["log"]] in s["when"]) != s["verdict"])
        exposing += hit
    pinned = sum(1 for w in walks if any(l["pin"] >= 0 for l in w["logs"]))
    if routes != {"add-chain", "add-pre-chain", "validate"} or flips == 0 or exposing < n // 20 or pinned == 0 \
            or any(len(w["steps"]) != steps for w in walks):
        raise Infra("vacuous histories: admitting routes %s, %d verdict flips, %d walks whose verdicts follow the clock after the "
                    "first request, %d with a pinned configuration" % (sorted(routes), flips, exposing, pinned))
    ctx.log("histories: %d walks, %d requests (%d admitted), %d verdict flips, %d walks expose a pinned first clock" % (
        n, len(serves), sum(s["verdict"] for s in serves), flips, exposing))
    return walks


def history(ctx, walks, tpath, only=0):
    wpath = ctx.write_ndjson("walks.ndjson", walks)
    env = {"VERIF_TABLES": tpath, "VERIF_WALKS": wpath, "VERIF_CASES": ""}
    if only:
        env["VERIF_ONLY_STEP"] = only
    ctx.go_test("c02", run="TestHistory$", env=env, toolchain="go1.26", race=True, timeout=3300, name="c02-history")


def run(ctx, replay=None):
    ctx.assumptions += ASSUME
    data = {}
    if replay:
        with open(replay) as f:
            data = json.load(f).get("replay") or {}
    if "walk" in data or "case" in data:
        _, tables = model(ctx, "MCChainAdmission.cfg")
        merge(tables, [], cfg_model(ctx))
        merge(tables, [], win_model(ctx), flag="win", tag="window")
        tpath = ctx.write_ndjson("tables.json", [tables])
        if "walk" in data:
            # one history; a difference in the in-order phase is asserted at that request only
            history(ctx, [data["walk"]], tpath, only=data.get("step", 0) if data.get("phase") == "in-order" else 0)
            return
        cpath = ctx.write_ndjson("replay.ndjson", [data["case"]])
        ctx.go_test("c02", run="TestReplay$", env={"VERIF_TABLES": tpath, "VERIF_CASES": cpath,
                                                    "VERIF_ONLY_OPT": data.get("opt", 1)})
        return
    # (a replay file without a case or a walk - a race report, a modified pool - is replayed by the whole run)
    with ThreadPoolExecutor(max_workers=3) as pool:
        fm = pool.submit(model, ctx, ctx.pick("MCChainAdmission.cfg", "MCChainAdmission2.cfg"))
        fl = pool.submit(log_model, ctx)
        fc = pool.submit(cfg_model, ctx)
        fw = pool.submit(win_model, ctx)
        cases, tables = fm.result()
        small = fl.result()
        recs = fc.result()
        wins = fw.result()
    ncases = len(cases)
    cases = merge(tables, cases, recs)
    cases = merge(tables, cases, wins, flag="win", tag="window")
    walks = walks_of(ctx, ctx.pick(300, 3000))
    tpath = ctx.write_ndjson("tables.json", [tables])
    cpath = ctx.write_ndjson("cases.ndjson", cases)
    with ThreadPoolExecutor(max_workers=2) as pool:
        fr = pool.submit(ctx.go_test, "c02", run="TestReplay$", env={"VERIF_TABLES": tpath, "VERIF_CASES": cpath}, timeout=3300)
        fh = pool.submit(history, ctx, walks, tpath)
        _, _, reports = fr.result()
        fh.result()
    # vacuity: every frame of the specification was realized - by the cases at large and by the windows as configured -
    # and every class of entry form reached ValidateChain
    counters = {}
    for rp in reports:
        counters.update(rp.get("extra") or {})
    frames = sorted(tables["frames"]["frames"])
    classes = sorted(set(c["tags"][0] for c in cases if c["tags"] and c["tags"][0].startswith("entry:")))
    missing = [f for f in frames if not counters.get("frame:" + f) or not counters.get("window-frame:" + f)] + \
              [t for t in classes if not counters.get(t)]
    if missing:
        raise Infra("the harness did not realize %s" % missing)
    ctx.log("frames realized: %s; windows as configured per frame: %s" % (
        {f: counters["frame:" + f] for f in frames}, {f: counters["window-frame:" + f] for f in frames}))
    # the two harness runs finish in any order: report the differences of the case replay first, then those of the histories
    ctx.violations.sort(key=lambda v: v["fingerprint"].startswith(("history:", "purity:", "race:")))
    ctx.exhaustive = {"domain": "33 base chains (+7 submitted unperturbed) x %s x 7 trusted pools, x 4 decoy pools (%s); 2160 option "
                                "combinations x 2 endpoints evaluated by TLC in every state; %d configurations as written (EKU lists of up to %d "
                                "names over 5, forbidden-extension lists of up to 2) x 11 chains; every submitted certificate at every position of the "
                                "33 base chains in 4 encodings x 5 trailers x 4 trusted pools; %d NotAfter windows as configured (start, limit absent or "
                                "at instants 1..8, 4 rests of the options) x 8 leaves, in every frame (%s)" % (
                                    ctx.pick("every single perturbation", "one or two stacked perturbations"),
                                    ctx.pick("unperturbed, drop, swap, forge", "every single perturbation"), len(recs), ctx.pick(3, 4),
                                    len(wins), ", ".join(frames)),
                      "states": ncases + len(recs) + len(wins),
                      "history": "%s: %d states (two logs x %s configurations, five chains, clock 3..6), all laws; %d random "
                                 "walks replayed" % (ctx.pick("ChainAdmissionLogSmall.cfg", "ChainAdmissionLogBig.cfg"), small,
                                                     ctx.pick("five", "sixteen"), len(walks))}
