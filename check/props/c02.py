"""C02 - only chains that lead, in submitted order, to a trusted root are admitted.

spec/ctfe/ChainAdmission.tla: Admit / Paths from the property text (Links, Anchored, leaf filters with Temporal's
InWindow, poison kinds, endpoint match; named clauses NoRepeat, TrustedLeafAlone), next to the code-shaped path search
(CodePaths, Equivalent) which TLC proves equal on the whole model.  MCChainAdmission.tla enumerates base chains x
perturbations (one in quick, two in thorough) x seven trusted pools as states and evaluates all 2160 option combinations
x 2 endpoints in each; every state is exported with the verdict sets.  harness/c02 materializes the hierarchy with
std crypto/x509 (two epochs, mixed key algorithms) and replays the cases into ctfe.ValidateChain /
IsPrecertificate and into add-chain / add-pre-chain of configured instances.

History layer (spec/ctfe/ChainAdmissionLog.tla): a log serving many requests while the clock advances; the law is that
admission is a FUNCTION of the request, the configuration at set-up and the clock at the instant of that request
(JudgedAlone, NothingRemembered, ConfigFixed, Repeatable, WhenShape).  Checked exhaustively on a small instance, refuted
by TLC on two negative instances (a log that pins the clock of its first request, a verdict memo keyed by leaf), and
bound to the code by random walks (MCChainAdmissionLog.tla) replayed under virtual time (testing/synctest, go1.26,
-race): in order, reversed at the final instant, and all at once on fresh logs.
"""
import json
from concurrent.futures import ThreadPoolExecutor

from vlib import Infra

LEVEL = "model_checking"

ASSUME = [
    "certificates are abstracted to the facts admission depends on (names, keys, signer, CA bit, EKUs, poison, "
    "NotAfter, extension ids); the harness checks with the standard library that the materialized hierarchy has "
    "exactly the model's Links relation (signatures, names, CA bits) and that forged twins do not verify",
    "signature schemes are sound (a certificate verifies under exactly the key that signed it)",
    "NAMED CLAUSES: NoRepeat (a chain naming the same certificate twice is refused), TrustedLeafAlone (a first "
    "certificate that is itself in the trusted pool is admitted alone and refused when followed by others - recorded "
    "behaviour of the code where the text would admit), TrustedLastEndsPath (both the submission itself and the "
    "submission plus a trusted issuer are allowed paths when the last certificate is trusted)",
    "an instance reads the system clock for expired / unexpired: in the case replay only 'now before / after every "
    "NotAfter' is exercised through HTTP (hierarchies dated 2120 / 1995) and 'now' at the boundary on ValidateChain, which "
    "takes the time as a parameter; the history layer runs instances and ValidateChain (options without a time) on the "
    "virtual clock of a testing/synctest bubble, one model instant = one second (sub-second positions of 'now' are not exercised)",
    "NAMED CLAUSE PinnedTime: options handed to ValidateChain may carry a time and expiry is then judged at that instant; "
    "a log's configuration has no such field, every request to a log is judged at the instant of that request",
    "histories are random walks (not exhaustive): three logs, 18 entries, chains = base chains and their single perturbations",
    "forbidden-extension and 'Any' EKU configurations are reachable through an instance only (NewCertValidationOpts has no parameter for them)",
]


def model(ctx, cfg):
    r = ctx.tlc("ctfe", "MCChainAdmission", cfg, workers=1, timeout=3300)
    cases = r.records.get("CASE", [])
    if len(cases) != r.distinct or not cases:
        raise Infra("expected one CASE record per state, got %d for %d states" % (len(cases), r.distinct))
    try:
        tables = {"opts": r.records["OPTS"][0], "certs": r.records["CERTS"][0], "trust": r.records["TRUST"][0]}
    except KeyError as ex:
        raise Infra("model did not export table %s" % ex)
    ok = [c for c in cases if c["ok"]]
    kinds = set(c["kind"] for c in ok)
    tags = set(t for c in cases for t in c["tags"])
    if not ok or len(ok) == len(cases) or not {"cert", "precert", "malformed"} <= kinds:
        raise Infra("vacuous model: %d of %d chains in order, leaf kinds %s" % (len(ok), len(cases), sorted(kinds)))
    if not any(c["admC"] for c in ok) or not any(c["admP"] for c in ok):
        raise Infra("vacuous model: no admitted case")
    ctx.log("%s: %d states (%d chains in order), perturbations %s, %d option combinations" % (
        cfg, len(cases), len(ok), sorted(tags), len(tables["opts"])))
    return cases, tables


def log_model(ctx):
    """The history specification: laws on the small exhaustive instance, the two negative instances refuted."""
    def one(job):
        cfg, expect = job
        return ctx.tlc("ctfe", "MCChainAdmissionLog", cfg, workers=4, timeout=1500, expect_violation=expect, count=not expect)
    jobs = [(ctx.pick("ChainAdmissionLogSmall.cfg", "ChainAdmissionLogBig.cfg"), False), ("ChainAdmissionLogPinFirst.cfg", True), ("ChainAdmissionLogMemo.cfg", True)]
    with ThreadPoolExecutor(max_workers=3) as pool:
        res = list(pool.map(one, jobs))
    for (cfg, expect), r in zip(jobs, res):
        if expect and r.violated != "JudgedAlone":
            raise Infra("%s: the negative instance must violate JudgedAlone, TLC says %r" % (cfg, r.violated))
    return res[0].distinct


def walks_of(ctx, n):
    steps = 18
    r = ctx.tlc("ctfe", "MCChainAdmissionLog", "ChainAdmissionLogSim.cfg", simulate=n, depth=steps + 4, count=False, timeout=1500)
    walks = r.records.get("WALK", [])
    if len(walks) != n:
        raise Infra("expected %d walks, got %d" % (n, len(walks)))
    serves = [s for w in walks for s in w["steps"] if s["op"] == "serve"]
    routes = set(s["route"] for s in serves if s["verdict"])
    # a walk exposes a log that judges at the instant of its first request (instead of the instant of the request)
    exposing = flips = 0
    for w in walks:
        first, seen, hit = {}, {}, False
        for s in w["steps"]:
            if s["op"] != "serve":
                continue
            k = (s["log"], tuple(s["ch"]), s["route"])
            if k in seen and seen[k] != s["verdict"]:
                flips += 1
            seen[k] = s["verdict"]
            if s["route"] != "validate":
                first.setdefault(s["log"], s["at"])
                hit = hit or ((first[s["log"]] in s["when"]) != s["verdict"])
        exposing += hit
    pinned = sum(1 for w in walks if any(l["pin"] >= 0 for l in w["logs"]))
    if routes != {"add-chain", "add-pre-chain", "validate"} or flips == 0 or exposing < n // 20 or pinned == 0 \
            or any(len(w["steps"]) != steps for w in walks):
        raise Infra("vacuous histories: admitting routes %s, %d verdict flips, %d walks whose verdicts follow the clock after the "
                    "first request, %d with a pinned configuration" % (sorted(routes), flips, exposing, pinned))
    ctx.log("histories: %d walks, %d requests (%d admitted), %d verdict flips, %d walks expose a pinned first clock" % (
        n, len(serves), sum(s["verdict"] for s in serves), flips, exposing))
    return walks


def history(ctx, walks, tpath, only=0):
    wpath = ctx.write_ndjson("walks.ndjson", walks)
    env = {"VERIF_TABLES": tpath, "VERIF_WALKS": wpath, "VERIF_CASES": ""}
    if only:
        env["VERIF_ONLY_STEP"] = only
    ctx.go_test("c02", run="TestHistory$", env=env, toolchain="go1.26", race=True, timeout=3300, name="c02-history")


def run(ctx, replay=None):
    ctx.assumptions += ASSUME
    data = {}
    if replay:
        with open(replay) as f:
            data = json.load(f).get("replay") or {}
    if "walk" in data or "case" in data:
        _, tables = model(ctx, "MCChainAdmission.cfg")
        tpath = ctx.write_ndjson("tables.json", [tables])
        if "walk" in data:
            # one history; a difference in the in-order phase is asserted at that request only
            history(ctx, [data["walk"]], tpath, only=data.get("step", 0) if data.get("phase") == "in-order" else 0)
            return
        cpath = ctx.write_ndjson("replay.ndjson", [data["case"]])
        ctx.go_test("c02", run="TestReplay$", env={"VERIF_TABLES": tpath, "VERIF_CASES": cpath,
                                                    "VERIF_ONLY_OPT": data.get("opt", 1)})
        return
    # (a replay file without a case or a walk - a race report, a modified pool - is replayed by the whole run)
    with ThreadPoolExecutor(max_workers=2) as pool:
        fm = pool.submit(model, ctx, ctx.pick("MCChainAdmission.cfg", "MCChainAdmission2.cfg"))
        fl = pool.submit(log_model, ctx)
        cases, tables = fm.result()
        small = fl.result()
    walks = walks_of(ctx, ctx.pick(300, 3000))
    tpath = ctx.write_ndjson("tables.json", [tables])
    cpath = ctx.write_ndjson("cases.ndjson", cases)
    with ThreadPoolExecutor(max_workers=2) as pool:
        fr = pool.submit(ctx.go_test, "c02", run="TestReplay$", env={"VERIF_TABLES": tpath, "VERIF_CASES": cpath}, timeout=3300)
        fh = pool.submit(history, ctx, walks, tpath)
        fr.result()
        fh.result()
    # the two harness runs finish in any order: report the differences of the case replay first, then those of the histories
    ctx.violations.sort(key=lambda v: v["fingerprint"].startswith(("history:", "purity:", "race:")))
    ctx.exhaustive = {"domain": "28 base chains (+7 submitted unperturbed) x %s x 7 trusted pools; 2160 option combinations x 2 endpoints "
                                "evaluated by TLC in every state" % ctx.pick("every single perturbation", "one or two stacked perturbations"),
                      "states": len(cases),
                      "history": "%s: %d states (two logs x %s configurations, five chains, clock 3..6), all laws; %d random "
                                 "walks replayed" % (ctx.pick("ChainAdmissionLogSmall.cfg", "ChainAdmissionLogBig.cfg"), small,
                                                     ctx.pick("five", "sixteen"), len(walks))}
