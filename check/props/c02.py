"""C02 - only chains that lead, in submitted order, to a trusted root are admitted.

spec/ctfe/ChainAdmission.tla: Admit / Paths from the property text (Links, Anchored, leaf filters with Temporal's
InWindow, poison kinds, endpoint match; named clauses NoRepeat, TrustedLeafAlone), next to the code-shaped path search
(CodePaths, Equivalent) which TLC proves equal on the whole model.  MCChainAdmission.tla enumerates base chains x
perturbations (one in quick, two in thorough) x seven trusted pools as states and evaluates all 2160 option combinations
x 2 endpoints in each; every state is exported with the verdict sets.  harness/c02 materializes the hierarchy with
std crypto/x509 (two epochs, mixed key algorithms) and replays the cases into ctfe.ValidateChain /
IsPrecertificate and into add-chain / add-pre-chain of configured instances.
"""
import json

from vlib import Infra

LEVEL = "model_checking"

ASSUME = [
    "certificates are abstracted to the facts admission depends on (names, keys, signer, CA bit, EKUs, poison, "
    "NotAfter, extension ids); the harness checks with the standard library that the materialized hierarchy has "
    "exactly the model's Links relation (signatures, names, CA bits) and that forged twins do not verify",
    "signature schemes are sound (a certificate verifies under exactly the key that signed it)",
    "NAMED CLAUSES: NoRepeat (a chain naming the same certificate twice is refused), TrustedLeafAlone (a first "
    "certificate that is itself in the trusted pool is admitted alone and refused when followed by others - recorded "
    "behaviour of the code where the text would admit), TrustedLastEndsPath (both the submission itself and the "
    "submission plus a trusted issuer are allowed paths when the last certificate is trusted)",
    "an instance reads the system clock for expired / unexpired: through HTTP only 'now before / after every NotAfter' "
    "is exercised (hierarchies dated 2120 / 1995); 'now' at the boundary is exercised on ValidateChain, which takes the time as a parameter",
    "forbidden-extension and 'Any' EKU configurations are reachable through an instance only (NewCertValidationOpts has no parameter for them)",
]


def model(ctx, cfg):
    r = ctx.tlc("ctfe", "MCChainAdmission", cfg, workers=1, timeout=3300)
    cases = r.records.get("CASE", [])
    if len(cases) != r.distinct or not cases:
        raise Infra("expected one CASE record per state, got %d for %d states" % (len(cases), r.distinct))
    try:
        tables = {"opts": r.records["OPTS"][0], "certs": r.records["CERTS"][0], "trust": r.records["TRUST"][0]}
    except KeyError as ex:
        raise Infra("model did not export table %s" % ex)
    ok = [c for c in cases if c["ok"]]
    kinds = set(c["kind"] for c in ok)
    tags = set(t for c in cases for t in c["tags"])
    if not ok or len(ok) == len(cases) or not {"cert", "precert", "malformed"} <= kinds:
        raise Infra("vacuous model: %d of %d chains in order, leaf kinds %s" % (len(ok), len(cases), sorted(kinds)))
    if not any(c["admC"] for c in ok) or not any(c["admP"] for c in ok):
        raise Infra("vacuous model: no admitted case")
    ctx.log("%s: %d states (%d chains in order), perturbations %s, %d option combinations" % (
        cfg, len(cases), len(ok), sorted(tags), len(tables["opts"])))
    return cases, tables


def run(ctx, replay=None):
    ctx.assumptions += ASSUME
    if replay:
        with open(replay) as f:
            rp = json.load(f)
        data = rp["replay"]
        _, tables = model(ctx, "MCChainAdmission.cfg")
        tpath = ctx.write_ndjson("tables.json", [tables])
        cpath = ctx.write_ndjson("replay.ndjson", [data["case"]])
        ctx.go_test("c02", run="TestReplay$", env={"VERIF_TABLES": tpath, "VERIF_CASES": cpath,
                                                    "VERIF_ONLY_OPT": data.get("opt", 1)})
        return
    cases, tables = model(ctx, ctx.pick("MCChainAdmission.cfg", "MCChainAdmission2.cfg"))
    tpath = ctx.write_ndjson("tables.json", [tables])
    cpath = ctx.write_ndjson("cases.ndjson", cases)
    ctx.go_test("c02", run="TestReplay$", env={"VERIF_TABLES": tpath, "VERIF_CASES": cpath}, timeout=3300)
    ctx.exhaustive = {"domain": "28 base chains (+7 submitted unperturbed) x %s x 7 trusted pools; 2160 option combinations x 2 endpoints "
                                "evaluated by TLC in every state" % ctx.pick("every single perturbation", "one or two stacked perturbations"),
                      "states": len(cases)}
