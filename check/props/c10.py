"""C10 - the ASN.1 fork is as strict as upstream; lax mode only adds acceptances.

spec/codec/Asn1Lax.tla is a decision model: a case is [type shape, value variant, defect, path, mode];
Verdict(case) says what the fork (strict / lax) and encoding/asn1 must do.  TLC enumerates all cases,
checks the laws (LaxSuperset, LaxOnlyDocumented, LaxPropagates, StrictEqUpstream modulo DeliberateDiff,
RoundTrip, ...) on the model and exports every case; harness/c10 realizes each case as bytes (own DER
builder) + reflect-built Go types and compares the three real decoders with the verdict.  Oracle-free
laws are additionally run on seeded byte-level mutations of the generated inputs.
"""
import json

from vlib import Infra

LEVEL = "model_checking"

ASSUME = [
    "encoding/asn1 of the installed default toolchain (go1.23.5) is the upstream reference; the DeliberateDiff list "
    "(base-128 groups with a leading 0x80 accepted in OID arcs and high tag numbers; GeneralizedTime fractions "
    "rejected; SET OF not sorted by Marshal) is pinned to that toolchain",
    "'all byte strings and all target types' is decided on the structured family of Asn1Lax.tla (38 type shapes x container "
    "stacks of depth <= 2 over 5 container kinds x 3 value variants x 32 defects x paths x modes) plus seeded byte-level mutations of those inputs",
    "a `lax` struct-field tag (instead of the top-level \"lax\" parameter) is recorded, not asserted (clause FieldTagLax)",
]


def export(ctx, cfg):
    r = ctx.tlc("codec", "MCAsn1Lax", cfg, workers=1, timeout=2400)
    cases, shapes = r.records.get("CASE", []), r.records.get("SHAPE", [])
    if not cases or not shapes:
        raise Infra("TLC exported no cases")
    if len(cases) != r.distinct:
        raise Infra("TLC exported %d cases for %d states" % (len(cases), r.distinct))
    return cases, shapes


def run(ctx, replay=None):
    ctx.assumptions += ASSUME
    if replay:
        with open(replay) as f:
            rp = json.load(f)["replay"]
        cases, shapes = export(ctx, "Asn1Lax.cfg")
        sp = ctx.write_ndjson("shapes.ndjson", shapes)
        if "case" in rp:
            cp = ctx.write_ndjson("cases.ndjson", [rp["case"]])
            ctx.go_test("c10", run="TestReplay$", env={"VERIF_CASES": cp, "VERIF_SHAPES": sp})
        else:
            cp = ctx.write_ndjson("cases.ndjson", cases)
            ctx.go_test("c10", run="TestMutate$", env={"VERIF_CASES": cp, "VERIF_SHAPES": sp,
                                                       "VERIF_REPLAY_BASE": rp["base"], "VERIF_REPLAY_HEX": rp["input_hex"]})
        return
    # 1. TLC: enumerate the cases, check the laws on the decision model, export case + verdict
    #    quick: every defect in modes strict / laxTop, the tolerated + 6 other defects below one container;
    #    thorough: every defect below one container (Full) and the quick defects below two containers (Deep)
    cases, shapes, seen = [], [], set()
    for cfg in ctx.pick(["Asn1Lax.cfg"], ["Asn1LaxFull.cfg", "Asn1LaxDeep.cfg"]):
        cs, sh = export(ctx, cfg)
        for x, out in [(c, cases) for c in cs] + [(s, shapes) for s in sh]:
            k = json.dumps(x.get("c", [x.get("name"), x.get("wrap")]), sort_keys=True)
            if k not in seen:
                seen.add(k)
                out.append(x)
    ctx.exhaustive = True
    modes = {}
    for c in cases:
        modes[c["c"]["mode"]] = modes.get(c["c"]["mode"], 0) + 1
    ctx.log("cases: %d %s, %d type trees" % (len(cases), modes, len(shapes)))
    cp = ctx.write_ndjson("cases.ndjson", cases)
    sp = ctx.write_ndjson("shapes.ndjson", shapes)
    env = {"VERIF_CASES": cp, "VERIF_SHAPES": sp}
    # 2. every case against the real decoders (fork strict, fork lax, encoding/asn1)
    ctx.go_test("c10", run="TestReplay$", env=env)
    # 3. oracle-free laws on byte-level mutations, panic freedom, allocation meter
    ctx.go_test("c10", run="TestMutate$", name="c10mutate", timeout=3000,
                env=dict(env, VERIF_MUTATIONS=ctx.pick(3000000, 60000000), VERIF_ALLOC_SAMPLES=ctx.pick(3000, 30000)))
