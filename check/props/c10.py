"""C10 - the ASN.1 fork is as strict as upstream; lax mode only adds acceptances.

spec/codec/Asn1Lax.tla is a decision model: a case is [type shape, value variant, defect, path, mode];
Verdict(case) says what the fork (strict / lax) and encoding/asn1 must do.  TLC enumerates all cases,
checks the laws (LaxSuperset, LaxOnlyDocumented, LaxPropagates, StrictEqUpstream modulo DeliberateDiff,
RoundTrip, ...) on the model and exports every case; harness/c10 realizes each case as bytes (own DER
builder) + reflect-built Go types and compares the three real decoders with the verdict.  Oracle-free
laws are additionally run on seeded byte-level mutations of the generated inputs.

Tag classes (clause ClassTable of the specification): the field parameters explicit x {no class option, application, private,
both} x tag numbers (0 implied, 1, 30 | 31, 40) x required / optional / default are a dimension of the type catalogue - on
struct members and, through the parameter string of UnmarshalWithParams / MarshalWithParams, at top level (the parameters of a
shape's root node; the options are written in both orders) - and the class of the identifier on the wire is a dimension of
the inputs (defects class{Universal,Context,Application,Private}: a required member is rejected, an OPTIONAL one is absent and
the element ignored, at top level nothing is consumed).  ReadClass / WriteClass are upstream's tables (re-confirmed against
encoding/asn1 on every run); where they differ (ClassQuirk) the round trip is not asserted, MarshalAgrees is.

Strings of each tag (clause StringTable of the specification): which restricted character string type is on the wire
(UTF8String, NumericString, PrintableString, T61String, IA5String, GeneralString, BMPString - behind an IMPLICIT tag the
declared one) and what its content octets are is a dimension of the inputs: 84 string forms [string type, octets] at the
boundaries of every type's repertoire (surrogate pairs / lone / reversed surrogates / U+FFFF / odd length / terminator for
BMPString; overlong, surrogate, > U+10FFFF, truncated and 4-octet sequences for UTF8String; every character next to the
PrintableString set, the Latin-1 and T.61 ranges of lax mode; 00 / 7F / 80 for IA5String; '/' ':' for NumericString; 8-bit
T61String / GeneralString).  The specification COMPUTES verdict and value (UTF-8 and UTF-16 decoders and the repertoires are
TLA+ operators; the Go string is exported as code points or bytes), placed at every way a string reaches the decoder (top
level, struct members of every declared type, SEQUENCE OF elements, interface{}, inside EXPLICIT, behind IMPLICIT tags).

EXPLICIT x target type (clause ExplicitTargets): RawValue / Flag / []byte / struct / bool / int behind an EXPLICIT tag
(context / application / private, required / OPTIONAL, followed by a required member, by an OPTIONAL one, last; top level with
and without remainder) crossed with the wrapper forms: with contents, of length 0 (explicitEmpty), of length 0 and primitive
(explicitEmptyPrimitive), with contents and primitive (explicitPrimitive).  ExplicitOpaque (a RawValue is the wrapper itself and
round-trips), ExplicitPresence (an empty wrapper sets a Flag, is rejected for other types), ExplicitNoChild (a header that ends
its buffer is rejected before its tag is compared - also a zero-length element offered to an absent OPTIONAL EXPLICIT member).

spec/codec/Asn1LaxHist.tla is the history layer: Unmarshal / Marshal are functions of their arguments.  TLC
draws histories of calls on one target type (random walks over the cases with repetition, fresh / re-used
destination variable and input buffer), checks the laws of the destination model (slots; AbsentOptionalKeeps,
ElementsAreFresh) and exports them; harness/c10 TestHistory replays them into the fork and encoding/asn1 and
compares every call with the call alone and the destination with the model; a sample is replayed by several
goroutines at once under the race detector.
"""
import json

from vlib import Infra

LEVEL = "model_checking"

ASSUME = [
    "encoding/asn1 of the installed default toolchain (go1.23.5) is the upstream reference; the DeliberateDiff list "
    "(base-128 groups with a leading 0x80 accepted in OID arcs and high tag numbers; GeneralizedTime fractions "
    "rejected; SET OF not sorted by Marshal) is pinned to that toolchain",
    "'all byte strings and all target types' is decided on the structured family of Asn1Lax.tla (the type catalogue x container "
    "stacks of depth <= 2 over 5 container kinds x 4 value variants x 39 defects + 84 string forms x paths x modes; top-level parameter strings for the "
    "shapes whose root carries field parameters) plus seeded byte-level mutations of those inputs",
    "tag classes: which class Unmarshal expects and Marshal writes for explicit / implicit x application / private is upstream's "
    "table (ExplicitIgnoresPrivate, ImplicitPrivateWins, MarshalApplicationWins, ClassImpliesTag0); a member for which the two differ "
    "(ClassQuirk) does not round-trip in either package and RoundTrip is not asserted of it; an OPTIONAL member whose identifier has "
    "another class is asserted only where no later member could take the element",
    "a `lax` struct-field tag (instead of the top-level \"lax\" parameter) is recorded, not asserted (clause FieldTagLax)",
    "named clauses where the property is silent and both packages have a definite behaviour: times written with a zone "
    "offset or without seconds are accepted and marshalled by the year as written (ZoneOffset, TagByWrittenYear); equal "
    "decoded values marshal to equal bytes in both packages, SET OF excepted (MarshalAgrees); an absent OPTIONAL member "
    "without DEFAULT keeps what the re-used destination held (AbsentOptionalKeeps); nothing is asserted about the "
    "destination of a rejected call",
    "strings: the verdict and the Go string of a string form follow from the rules of clause StringTable (X.680 41 repertoires, RFC 3629, "
    "UTF-16), each confirmed against encoding/asn1 on every run; named clauses where the property is silent and both packages have a "
    "definite behaviour: a BMPString is read as UTF-16 - a surrogate pair is one character, an unpaired surrogate U+FFFD (BMPAsUTF16) - "
    "and loses one trailing 0000 (BMPTerminator); '*' and '&' are accepted in a PrintableString (PrintableAsteriskAmpersand); T61String / "
    "GeneralString octets are handed over unchanged (T61IsOpaque); in lax mode 'really ISO 8859-1 text' means every octet in 20..7E / "
    "A0..FF, 'really T.61 text' no NUL and no octet of the fork's documented list of unassigned T.61 positions (T61Unassigned); RoundTrip "
    "is not asserted of a string form (Marshal never writes T61 / General / BMP), MarshalAgrees is",
    "EXPLICIT x target type: upstream's table - a RawValue is the wrapper itself (ExplicitOpaque), a wrapper of length 0 sets a Flag and is "
    "rejected for every other type (ExplicitPresence), a wrapper or zero-length element whose header ends its buffer is rejected by the "
    "EXPLICIT member it is offered to before tags are compared (ExplicitNoChild: also lax-mode empty OIDs behind an absent OPTIONAL "
    "EXPLICIT member, as every other zero-length element there in both packages); EXPLICIT interface{} targets and primitive wrappers "
    "of OPTIONAL members are not generated",
    "'for every sequence of calls' is decided on random walks drawn by TLC (one target type per history, depth 10-14), not "
    "on all sequences",
]


def export(ctx, cfg):
    r = ctx.tlc("codec", "MCAsn1Lax", cfg, workers=1, timeout=2400)
    cases, shapes = r.records.get("CASE", []), r.records.get("SHAPE", [])
    if not cases or not shapes:
        raise Infra("TLC exported no cases")
    if len(cases) != r.distinct:
        raise Infra("TLC exported %d cases for %d states" % (len(cases), r.distinct))
    return cases, shapes


def histories(ctx):
    """TLC draws the histories of Asn1LaxHist.tla (laws of the destination model checked on every state)."""
    n = ctx.pick(600, 8000)
    r = ctx.tlc("codec", "MCAsn1LaxHist", ctx.pick("Asn1LaxHist.cfg", "Asn1LaxHistDeep.cfg"), simulate=n, depth=40,
                count=False, timeout=2400)
    hs = r.records.get("HIST", [])
    if len(hs) != n:
        raise Infra("TLC exported %d histories, expected %d" % (len(hs), n))
    return hs


def run(ctx, replay=None):
    ctx.assumptions += ASSUME
    if replay:
        with open(replay) as f:
            rp = json.load(f)["replay"]
        if "hist" in rp:
            hp = ctx.write_ndjson("hists.ndjson", [rp["hist"]])
            ctx.go_test("c10", run="TestHistory$", env={"VERIF_HISTS": hp})
            return
        cases, shapes = export(ctx, "Asn1Lax.cfg")
        sp = ctx.write_ndjson("shapes.ndjson", shapes)
        if "case" in rp:
            cp = ctx.write_ndjson("cases.ndjson", [rp["case"]])
            ctx.go_test("c10", run="TestReplay$", env={"VERIF_CASES": cp, "VERIF_SHAPES": sp})
        else:
            cp = ctx.write_ndjson("cases.ndjson", cases)
            ctx.go_test("c10", run="TestMutate$", env={"VERIF_CASES": cp, "VERIF_SHAPES": sp,
                                                       "VERIF_REPLAY_BASE": rp["base"], "VERIF_REPLAY_HEX": rp["input_hex"]})
        return
    # 1. TLC: enumerate the cases, check the laws on the decision model, export case + verdict
    #    quick: every defect in modes strict / laxTop, the tolerated + 6 other defects below one container;
    #    thorough: every defect below one container (Full) and the quick defects below two containers (Deep)
    cases, shapes, seen = [], [], set()
    for cfg in ctx.pick(["Asn1Lax.cfg"], ["Asn1LaxFull.cfg", "Asn1LaxDeep.cfg"]):
        cs, sh = export(ctx, cfg)
        for x, out in [(c, cases) for c in cs] + [(s, shapes) for s in sh]:
            k = json.dumps(x.get("c", [x.get("name"), x.get("wrap")]), sort_keys=True)
            if k not in seen:
                seen.add(k)
                out.append(x)
    ctx.exhaustive = True
    modes = {}
    for c in cases:
        modes[c["c"]["mode"]] = modes.get(c["c"]["mode"], 0) + 1
    ctx.log("cases: %d %s, %d type trees" % (len(cases), modes, len(shapes)))
    cp = ctx.write_ndjson("cases.ndjson", cases)
    sp = ctx.write_ndjson("shapes.ndjson", shapes)
    env = {"VERIF_CASES": cp, "VERIF_SHAPES": sp}
    # 2. every case against the real decoders (fork strict, fork lax, encoding/asn1)
    ctx.go_test("c10", run="TestReplay$", env=env)
    # 3. histories: every call is a function of its arguments (value, remainder, re-marshalled bytes of the call
    #    alone; destination = the slot model's composition = encoding/asn1's; arguments and earlier results kept);
    #    a sample concurrently under the race detector
    hs = histories(ctx)
    hp = ctx.write_ndjson("hists.ndjson", hs)
    ctx.log("histories: %d of %d calls" % (len(hs), len(hs[0]["steps"])))
    ctx.go_test("c10", run="TestHistory$", name="c10history", env={"VERIF_HISTS": hp})
    ctx.go_test("c10", run="TestHistoryConcurrent$", name="c10race", race=True, timeout=2400,
                env={"VERIF_HISTS": hp, "VERIF_RACE_HISTS": ctx.pick(60, 400)})
    # 4. oracle-free laws on byte-level mutations, panic freedom, allocation meter
    ctx.go_test("c10", run="TestMutate$", name="c10mutate", timeout=3000,
                env=dict(env, VERIF_MUTATIONS=ctx.pick(3000000, 60000000), VERIF_ALLOC_SAMPLES=ctx.pick(3000, 30000)))
