"""C19 - the witness only ever cosigns a forward-moving, consistent history per log.

spec/witness/Witness.tla (sequential; requests carry a spelling of the log id and a storage fault),
MCWitness (cover / simulation), WitnessTrace (concurrent linearizability with logged fault windows).
Binding: replay of TLC behaviours into the real witness on sqlite (direct API and HTTP server) with
the step's spelling of the log id and the step's storage fault injected for real (a second connection
to the database file holding a SHARED / RESERVED / EXCLUSIVE lock, a cancelled context), an independent
monitor of stored rows and cosigned replies per 32-byte log id, and validation of invoke/return traces
recorded from concurrent callers.  History of signatures: `offered` (genuine STHs offered so far) and candidates
whose signature bytes are those of another genuine STH (field `over`: replayed signature, donor offered before or
not, of the addressed log or the other one); MCWitness HistNext (WitnessHist*.cfg) covers what was offered before
x what is offered now.  Header of the signature: candidates carry the two header bytes of tree_head_signature (`hdr`: hash
algorithm x signature algorithm labels) and the form of the signature bytes (`form`: signed / garbage / rawkey / crafted);
the header family HdrSTHs is refused like any bad signature (ExactHeaderOnly, OtherHeaderRefused, OtherHeaderLikeBadSig,
named clause NoHashNoSignature); MCWitness HdrNext (WitnessHdr*.cfg) covers what is held x every member of the family for
an ECDSA log (L1) and an RSA log (L2).
Set-up (spec/witness/WitnessSetup.tla, MCWitnessSetup): the known logs and the witness key are the result of an action.
Set-up path (witness.New over a caller's map / the production path: the witness binary, main -> impl.Main ->
buildLogMap, started on a YAML configuration) x log configuration (every sequence of keys up to a length: any order,
any key any number of times) x kind of witness key (ECDSA P-256 / P-384, RSA-2048, Ed25519, X25519) x restarts on
another configuration; law: log id i is bound to its own key under every configuration shape (OwnKeyOnly,
ForeignRefused, OwnAccepted), every cosignature verifies under the witness key with the key's algorithm
(CosigUnderKey), named clauses MuteWitnessStoresNothing and DroppedLogNotServed.  Binding: TestSetup replays scripted
cover and random walks into witness.New and into the built binary over loopback HTTP.
"""
import json
import os

from vlib import Infra

ASSUME = [
    "SHA-256 collision resistance and ECDSA unforgeability (tree heads and signatures are tokens in the spec; "
    "the harness re-attaches real trees and P-256 keys)",
    "candidate STHs are drawn from two tree families (honest, fork) of size <= MaxSize and a proof catalogue "
    "(correct, other sizes, other fork, truncated, padded, random, empty)",
    "sqlite configured as impl.Main does (one open connection)",
    "storage faults are the ones a second connection to the database file can cause (COMMIT fails under a SHARED "
    "lock, INSERT fails under a RESERVED lock, every statement fails under an EXCLUSIVE lock) plus a context "
    "cancelled before the call; fault databases use _busy_timeout=0 (a locked statement fails at once instead of "
    "after 5 s); a fault lasts for one request (replay) or for a logged window (traces)",
    "mis-signed STHs are: signed by a key that is no log's, signed by the other log, and carrying the signature bytes "
    "of a genuine STH (offered to the witness earlier in the history, or never) over another size / root / timestamp; "
    "history cover: two history-building updates of one log (genuine or bad-signature, accepted / refused for the proof / "
    "lost to a commit fault / replayed signature) followed by every probe",
    "signature headers: hash byte in {none, md5, sha1, sha224, sha256, sha384, sha512, 7, 8, one other unassigned code "
    "point} x signature algorithm byte in {anonymous, rsa, dsa, ecdsa, 7, 8, one other unassigned code point}; signature "
    "bytes under a header other than (sha256, the key's algorithm) are: the log's genuine SHA-256 signature, garbage (random "
    "well-formed / truncated / empty), bytes made with the log's key over the unhashed content (only under hash bytes that "
    "name no hash function; named clause NoHashNoSignature), and for the ECDSA log (r, s) crafted from the public key alone "
    "for a verifier that takes the leading 32 bytes of the unhashed content for the digest (content dictated by the pair; "
    "found by a search of about 2^16 point additions, once per process).  NOT asserted: bytes made with the log's own key "
    "over another real hash (md5 .. sha512) under the header naming that hash (the code accepts them; no log issues them)",
    "log L1 has an ECDSA P-256 key, log L2 an RSA-2048 key (both allowed by RFC 6962 2.1.4)",
    "set-up: log configurations are sequences of up to 4 (thorough: 5) entries over three log keys (ECDSA, RSA, ECDSA); "
    "what a duplicate entry or a witness key without a signature algorithm does to the START of the witness is not "
    "asserted (a witness that does not come up is accepted); the witness binary is built from the repository under "
    "test with the default build tags and reached over loopback TCP; a restart is a kill of the process (or a closed "
    "database handle) followed by a start on the same database file with the same witness key",
    "log-id spellings: configured string, unused trailing bits set, CR/LF inserted, padding dropped, URL-safe "
    "alphabet, leading/trailing blank; named clause AliasIsUnknown (only the configured string names a known log)",
]


def run(ctx, replay=None):
    ctx.assumptions += ASSUME
    env = {"VERIF_FORKAT": 2, "VERIF_MAXSIZE": 4}
    if replay:
        with open(replay) as f:
            rp = json.load(f)
        beh = rp["replay"]["behaviour"]
        path = ctx.write_ndjson("replay.ndjson", [beh])
        if beh and beh[0].get("op") == "Start":      # a behaviour of WitnessSetup.tla
            ctx.go_test("c19", run="TestSetup$", env={"VERIF_SETUP_BEHAVIOURS": path}, name="c19setup")
            return
        ctx.go_test("c19", run="TestReplay$", env=dict(env, VERIF_BEHAVIOURS=path))
        return
    if os.environ.get("VERIF_C19_ONLY") == "setup":      # development aid: the set-up steps alone
        setup(ctx)
        return
    # 1. exhaustive model check of the sequential specification
    ctx.tlc("witness", "MCWitness", ctx.pick("WitnessSmall.cfg", "Witness.cfg"), timeout=3400)
    # 2. behaviours: transition cover (every reachable single-log state x every request) and random walks
    behs = []
    r = ctx.tlc("witness", "MCWitness", ctx.pick("WitnessCoverSmall.cfg", "WitnessCover.cfg"), workers=1, count=False,
                timeout=3000)
    cover = r.records.get("BEH", [])
    if not cover:
        raise Infra("cover run exported no behaviours")
    behs += cover
    # 2b. history cover: two history-building updates (accepted, refused for the proof, lost to a storage fault,
    # bad signature), then every probe of the state (held, offered) reached: every content under the signature
    # bytes of every STH offered so far (replayed signature), genuine STHs, a read
    r = ctx.tlc("witness", "MCWitness", ctx.pick("WitnessHistSmall.cfg", "WitnessHist.cfg"), workers=1, count=False,
                timeout=3000)
    histc = r.records.get("BEH", [])
    if not histc or not any(b[-1].get("replay") == "seen" for b in histc):
        raise Infra("history cover exported no behaviour ending in a replayed signature of an STH offered before")
    behs += histc
    # 2c. header cover: nothing held / an honest STH held, then every member of the log's header family (hash byte x
    # signature algorithm byte x form of the signature bytes x content), for the ECDSA log and the RSA log
    r = ctx.tlc("witness", "MCWitness", ctx.pick("WitnessHdrSmall.cfg", "WitnessHdr.cfg"), workers=1, count=False,
                timeout=3000)
    hdrc = r.records.get("BEH", [])
    forms = set((b[-1]["log"], b[-1]["cand"].get("form")) for b in hdrc)
    want = {("L1", "signed"), ("L1", "garbage"), ("L1", "rawkey"), ("L1", "crafted"),
            ("L2", "signed"), ("L2", "garbage"), ("L2", "rawkey")}
    if not want <= forms:
        raise Infra("header cover lacks forms: %s" % sorted(want - forms))
    behs += hdrc
    r = ctx.tlc("witness", "MCWitness", "WitnessSim.cfg", simulate=ctx.pick(400, 5000), depth=20, count=False)
    sim = r.records.get("BEH", [])
    if not sim:
        raise Infra("simulation exported no behaviours")
    behs += sim
    ctx.log("behaviours: %d cover + %d history cover + %d header cover + %d simulated (%d steps carry a replayed "
            "signature, %d a member of the header family)" % (
                len(cover), len(histc), len(hdrc), len(sim),
                sum(1 for b in behs for s in b if s.get("replay", "none") != "none"),
                sum(1 for b in behs for s in b if is_hdr(s.get("cand") or {}))))
    path = ctx.write_ndjson("behaviours.ndjson", behs)
    ctx.go_test("c19", run="TestReplay$", env=dict(env, VERIF_BEHAVIOURS=path), timeout=3000)
    # 3. concurrent callers: invoke/return traces validated by WitnessTrace.tla
    out, outdir, _ = ctx.go_test("c19", run="TestTrace$", env=dict(env, VERIF_TRACES=ctx.pick(40, 400)), race=True,
                                 timeout=3000, name="c19trace")
    tr = os.path.join(outdir, "traces.ndjson")
    if not os.path.exists(tr) or os.path.getsize(tr) == 0:
        raise Infra("no trace recorded")
    validate_traces(ctx, tr)
    # 4. the set-up dimension: how the witness comes to know its logs and its key
    setup(ctx)


def setup(ctx):
    # 4a. exhaustive: every configuration x witness key kind x every request in every order, restarts on every configuration
    ctx.tlc("witness", "MCWitnessSetup", ctx.pick("WitnessSetupSmall.cfg", "WitnessSetup.cfg"), timeout=3400)
    # 4b. scripted cover: one behaviour per set-up (every configuration through the production path; every kind of witness
    # key through both paths); the same list of requests whatever the configuration, two restarts on other shapes of it
    r = ctx.tlc("witness", "MCWitnessSetup", ctx.pick("WitnessSetupScriptSmall.cfg", "WitnessSetupScript.cfg"), workers=1,
                count=False, timeout=3000)
    script = r.records.get("BEH", [])
    shapes = set()
    for b in script:
        c = b[0]["cfg"]
        dup = [i for i in range(len(c)) if c[i] in c[:i]]
        if b[0]["path"] == "main" and dup:
            # where the repeated entry sits, and whether another key follows it
            shapes.add(("first" if dup[0] == 1 and c[0] == c[1] else "later", any(k not in c[:dup[0] + 1] for k in c[dup[0] + 1:])))
    if not {("first", True), ("later", True), ("first", False), ("later", False)} <= shapes:
        raise Infra("scripted cover lacks configuration shapes: have %s" % sorted(shapes))
    kinds = set((b[0]["wk"], b[0]["path"]) for b in script)
    want = {(k, p) for k in ("p256", "p384", "rsa2048", "ed25519") for p in ("new", "main")}
    if not want <= kinds:
        raise Infra("scripted cover lacks witness key kinds: %s" % sorted(want - kinds))
    # 4c. random orders, restarts on any configuration
    r = ctx.tlc("witness", "MCWitnessSetup", "WitnessSetupSim.cfg", simulate=ctx.pick(30, 600), depth=20, count=False)
    sim = r.records.get("BEH", [])
    if not sim:
        raise Infra("set-up simulation exported no behaviours")
    ctx.log("set-up behaviours: %d scripted + %d simulated (%d through the witness binary, %d restarts)" % (
        len(script), len(sim), sum(1 for b in script + sim if b[0]["path"] == "main"),
        sum(1 for b in script + sim for s in b if s["op"] == "Restart")))
    path = ctx.write_ndjson("setup.ndjson", script + sim)
    ctx.go_test("c19", run="TestSetup$", env={"VERIF_SETUP_BEHAVIOURS": path}, timeout=3000, name="c19setup")


def is_hdr(c):
    if c.get("k") != "sth":
        return False
    std = {"hash": "sha256", "alg": "rsa" if c.get("signer") == "L2" else "ecdsa"}
    return c.get("form", "signed") != "signed" or c.get("hdr", std) != std


def validate_traces(ctx, tr, expect_reject=False):
    n = sum(1 for line in open(tr) if '"ev":"Reset"' in line)
    r = ctx.tlc("witness", "WitnessTrace", "WitnessTrace.cfg", workers=1, env={"TRACE_FILE": tr}, count=False, dfs=True,
                check=False, timeout=3000, label="trace")
    m = r.records.get("STUCK", [])
    if r.rc != 0 and not m and not r.violated:
        raise Infra("trace validation failed to run (rc=%d)\n%s" % (r.rc, "\n".join(r.out.splitlines()[-30:])))
    if r.violated or m:
        # the trace spec could not consume some trace (STUCK = first line no placement explains),
        # or a property of Witness.tla failed on a state the real execution passed through
        ctx.violation("trace:rejected", "a recorded concurrent history of Update/GetSTH calls is not linearizable "
                      "with respect to Witness.tla (no placement of the calls explains the replies)",
                      {"stuck": m, "violated": r.violated, "trace_window": window(tr, m), "tlc": r.out.splitlines()[-12:]})
    else:
        ctx.traces += n


def window(tr, stuck):
    lines = open(tr).read().splitlines()
    if not stuck:
        return lines[-40:]
    n = stuck[0].get("line", 1)
    lo = n
    while lo > 1 and '"ev":"Reset"' not in lines[lo - 1]:
        lo -= 1
    return lines[lo - 1:n + 3]
