"""C07 - get-entries serves the stored bytes for exactly the range it claims.

spec/ctfe/GetEntriesRange.tla: SpecRange (from the property text) and CodeRange (word arithmetic of the handler) on a
scaled machine word; TLC checks the range laws and CodeRange = SpecRange over the boundary clusters.  Binding: every
case is mapped through the cluster homomorphism to real int64 parameters and sent to get-entries of a real instance;
the GetLeavesByRangeRequest seen by the backend, the status and the served bytes are compared.  CTFE.tla!GetEntries /
GetEntryAndProof behaviours (C06 replay) cover the in-tree histories.
"""
import json
import os

from props import ctfe_common
from vlib import Infra

LEVEL = "model_checking"

MAXINT = 2 ** 63 - 1


def spec_range(start, end, mx, align):
    """The range the property text demands, on Python's unbounded integers (independent of the TLA+ transcription)."""
    if start < 0 or end < 0 or start > end:
        return {"ok": False, "start": 0, "count": 0}
    e1 = min(end, start + mx - 1)
    e2 = e1
    if align and end - start + 1 >= mx:
        e2 = max(x for x in range(max(start, e1 - mx + 1), e1 + 1) if (x + 1) % mx == 0) if mx <= 4096 else \
            e1 - ((e1 + 1) % mx)
    return {"ok": True, "start": start, "count": e2 - start + 1}


def int64_symbolic(ctx):
    """GetEntriesRangeInt.tla: Apalache checks the range laws for ALL int64 start / end (one batch size per run) and
    produces concrete int64 witnesses per boundary class, which are sent to the real handler."""
    sizes = ctx.pick(["1", "3", "1000"], ["1", "2", "3", "4", "5", "7", "10", "64", "256", "1000", "1024", "65535",
                                           "2147483647", "Two62", "MaxInt"])
    jobs = [{"inv": "LawNew", "cinit": "CInit" + m, "label": "law-" + m} for m in sizes]
    # the pre-repair computation must be refuted (shows that the laws have teeth on true int64 values)
    jobs.append({"inv": "LawOld", "cinit": "CInit1000", "label": "old-1000"})
    wsizes = ctx.pick(["1000", "3"], ["1000", "3", "1", "2", "7", "64", "1024"])
    classes = ["NotW%02d" % k for k in range(1, 17)]
    for m in wsizes:
        for w in classes:
            jobs.append({"inv": w, "cinit": "CInit" + m, "label": "%s-%s" % (w, m)})
    res = ctx.apalache("ctfe", "GetEntriesRangeInt", jobs, parallel=8, timeout=ctx.pick(600, 3000))
    cases = []
    proved = 0
    for r in res:
        inv = r["job"]["inv"]
        if inv == "LawNew":
            if r["outcome"] != "NoError":
                # a counterexample on the transcription: decide on the real code, never from the model alone
                st = r["state"]
                cases.append({"c": {"start": st["start"], "end": st["end"], "max": st["Max"], "align": st["align"]},
                              "expect": spec_range(st["start"], st["end"], st["Max"], st["align"])})
                ctx.log("Apalache counterexample to LawNew (%s): replaying it against the real handler" % st)
            else:
                proved += 1
        elif inv == "LawOld":
            if r["outcome"] != "Error":
                raise Infra("Apalache did not refute the pre-repair range computation: the laws are vacuous")
            st = r["state"]
            cases.append({"c": {"start": st["start"], "end": st["end"], "max": st["Max"], "align": st["align"]},
                          "expect": spec_range(st["start"], st["end"], st["Max"], st["align"])})
        else:
            if r["outcome"] != "Error":
                continue   # an empty class for this batch size (e.g. Want = Max - 1 with Max = 1)
            st = r["state"]
            if st["Max"] > 4096:
                continue
            cases.append({"c": {"start": st["start"], "end": st["end"], "max": st["Max"], "align": st["align"]},
                          "expect": spec_range(st["start"], st["end"], st["Max"], st["align"])})
    ctx.notes["apalache"] = {"laws_proved_for_all_int64_per_batch_size": proved, "batch_sizes": sizes,
                             "witness_cases_sent_to_handler": len(cases)}
    ctx.assumptions.append("Apalache (SMT, unbounded integers) checks the range laws on GetEntriesRangeInt.tla for all int64 "
                           "start/end, one batch size per run; its witnesses are replayed with expectations computed "
                           "from the property text in Python")
    if not cases:
        raise Infra("Apalache produced no witness cases")
    path = ctx.write_ndjson("cases-int64.ndjson", cases)
    ctx.go_test("cctfe", run="TestRange$", env={"VERIF_CASES": path, "VERIF_MAXWORD": MAXINT}, timeout=3000,
                name="range-int64")


def run(ctx, replay=None):
    ctx.assumptions += [
        "int64 arithmetic is modelled on a scaled word (MaxWord=7807, 2^63-1-MaxWord divisible by every batch size) with "
        "values from boundary clusters near 0 and near MaxWord; the harness maps each model value to the real int64",
        "reference backend instead of Trillian (returns no leaves beyond the tree, InvalidArgument for count <= 0)",
    ]
    if replay:
        with open(replay) as f:
            rp = json.load(f)["replay"]
        mw = 7807
        d = (2 ** 63 - 1) - mw

        def back(v):
            return v - d if v > 2 ** 62 else (v + d if v < -2 ** 62 else v)
        case = {"c": {"start": back(rp["start"]), "end": back(rp["end"]), "max": rp["max"], "align": rp["align"]}}
        # expected verdict recomputed by TLC for this single case is not needed: re-run the full enumeration
    ctx.tlc("ctfe", "MCGetEntriesRange", ctx.pick("GetEntriesRange.cfg", "GetEntriesRangeBig.cfg"))
    r = ctx.tlc("ctfe", "MCGetEntriesRange", ctx.pick("GetEntriesRangeExport.cfg", "GetEntriesRangeBigExport.cfg"),
                workers=1, count=False)
    cases = r.records.get("CASE", [])
    if not cases:
        raise Infra("no cases exported")
    ctx.exhaustive = True
    path = ctx.write_ndjson("cases.ndjson", cases)
    # MaxWord of the configuration in use (2^63-1-MaxWord is divisible by lcm of the batch sizes = 3000 in both)
    ctx.go_test("cctfe", run="TestRange$", env={"VERIF_CASES": path, "VERIF_MAXWORD": ctx.pick(7807, 22807)}, timeout=3000)
    if replay:
        return
    int64_symbolic(ctx)
    # "all stored entries": what a served entry decodes to, for every shape of submission and every chain storage mode
    ctfe_common.entry_shapes(ctx, "C07")
    # stored bytes stay served when issuance chains live outside the backend, across storage faults and cold caches
    ctfe_common.external_storage(ctx)
