"""C07 - get-entries serves the stored bytes for exactly the range it claims.

spec/ctfe/GetEntriesRange.tla: SpecRange (from the property text) and CodeRange (word arithmetic of the handler) on a
scaled machine word; TLC checks the range laws and CodeRange = SpecRange over the boundary clusters.  Binding: every
case is mapped through the cluster homomorphism to real int64 parameters and sent to get-entries of a real instance;
the GetLeavesByRangeRequest seen by the backend, the status and the served bytes are compared.  CTFE.tla!GetEntries /
GetEntryAndProof behaviours (C06 replay) cover the in-tree histories.
"""
import json
import os

from props import ctfe_common
from vlib import Infra

LEVEL = "model_checking"


def run(ctx, replay=None):
    ctx.assumptions += [
        "int64 arithmetic is modelled on a scaled word (MaxWord=7807, 2^63-1-MaxWord divisible by every batch size) with "
        "values from boundary clusters near 0 and near MaxWord; the harness maps each model value to the real int64",
        "reference backend instead of Trillian (returns no leaves beyond the tree, InvalidArgument for count <= 0)",
    ]
    if replay:
        with open(replay) as f:
            rp = json.load(f)["replay"]
        mw = 7807
        d = (2 ** 63 - 1) - mw

        def back(v):
            return v - d if v > 2 ** 62 else (v + d if v < -2 ** 62 else v)
        case = {"c": {"start": back(rp["start"]), "end": back(rp["end"]), "max": rp["max"], "align": rp["align"]}}
        # expected verdict recomputed by TLC for this single case is not needed: re-run the full enumeration
    ctx.tlc("ctfe", "MCGetEntriesRange", ctx.pick("GetEntriesRange.cfg", "GetEntriesRangeBig.cfg"))
    r = ctx.tlc("ctfe", "MCGetEntriesRange", ctx.pick("GetEntriesRangeExport.cfg", "GetEntriesRangeBigExport.cfg"),
                workers=1, count=False)
    cases = r.records.get("CASE", [])
    if not cases:
        raise Infra("no cases exported")
    ctx.exhaustive = True
    path = ctx.write_ndjson("cases.ndjson", cases)
    # MaxWord of the configuration in use (2^63-1-MaxWord is divisible by lcm of the batch sizes = 3000 in both)
    ctx.go_test("cctfe", run="TestRange$", env={"VERIF_CASES": path, "VERIF_MAXWORD": ctx.pick(7807, 22807)}, timeout=3000)
    if replay:
        return
    # "all stored entries": what a served entry decodes to, for every shape of submission and every chain storage mode
    ctfe_common.entry_shapes(ctx, "C07")
    # stored bytes stay served when issuance chains live outside the backend, across storage faults and cold caches
    ctfe_common.external_storage(ctx)
