"""C08 - backend faults and bad requests never surface as success.

spec/ctfe/CTFEFaults.tla: the complete finite matrix (endpoint x RPC x gRPC code / malformed-reply class x fault
position x masking; endpoint x bad-parameter class) with the status class the property demands.  Binding: every case
is executed on a real ctfe.Instance whose backend replies are rewritten by an interceptor; status class, absence of an
SCT, RequestLog calls, masking, absence of backend calls for bad requests, and panics are checked.

Schedules (spec/ctfe/CTFETrace.tla over CTFE.tla): requests overlap.  The harness parks the backend call of one
request inside the backend, sends further requests (mostly the same endpoint of the same front end, half of them the
very same request), lets the tree grow, and only then lets the parked call fail (refusal or lost reply).  Every request
is the events Inv / Call / Ret; trace validation demands that a reply is the one the request's own backend call
explains (OwnBackendCall) - a 200 get-sth without a call of its own is acceptable only with a head that a successful
root fetch delivered while the request was pending (SharedFetch).
"""
from props import ctfe_common
from vlib import Infra

LEVEL = "fault_enumeration"


def run(ctx, replay=None):
    ctx.assumptions += [
        "malformed replies are those a wire decode can produce (absent optional messages, short hashes, surplus or "
        "mis-indexed leaves, undecodable echoed leaf); nil elements inside repeated fields and a nil response with a nil "
        "error are not generated",
        "reference backend; in-backend (direct) issuance-chain mode (external chain storage faults belong to C14)",
    ]
    ctx.tlc("ctfe", "MCCTFEFaults", "CTFEFaults.cfg", workers=4)
    r = ctx.tlc("ctfe", "MCCTFEFaults", "CTFEFaultsExport.cfg", workers=1, count=False)
    cases = r.records.get("CASE", [])
    if not cases:
        raise Infra("no cases exported")
    ctx.exhaustive = True
    path = ctx.write_ndjson("cases.ndjson", cases)
    ctx.go_test("cctfe", run="TestFaults$", env={"VERIF_CASES": path}, timeout=3000)
    if replay:
        return
    # schedules: overlapping requests and a failing backend call.  The backend call of one request is parked inside the
    # backend until other requests have arrived and then fails; CTFETrace.tla demands that every reply is the one the
    # request's own backend call explains (a 200 get-sth needs a successful root fetch inside its own interval).
    ctfe_common.concurrent_traces(ctx, "C08")
