"""C08 - backend faults and bad requests never surface as success.

spec/ctfe/CTFEFaults.tla: the complete finite matrix (endpoint x RPC x gRPC code / malformed-reply class x fault
position x masking; endpoint x bad-parameter class) with the status class the property demands.  Binding: every case
is executed on a real ctfe.Instance whose backend replies are rewritten by an interceptor; status class, absence of an
SCT, RequestLog calls, masking, absence of backend calls for bad requests, and panics are checked.

The leaf QueueLeaf echoes is opened field by field (CTFEFaults!Echoes): perfectly framed TLS in which an enumerated
field (version, leaf_type, entry_type incl. the library's experimental JSON entry number) holds a value the protocol
does not define, the ASN.1Cert / TBSCertificate vector has length 0 (its floor is 1), nothing follows an unknown
leaf_type - alone and combined, on add-chain and add-pre-chain (the other entry arm included): 5xx, no SCT, nothing
recorded as issued.  Named unasserted clause EchoVersionUnasserted: a leaf that deviates in its version octet only.

Configurations (CTFEFaults!Mappers): every gRPC code, and an error that carries no gRPC status, on every endpoint with
masking on and off under no InstanceOptions.ErrorMapper, one that declines everything, a partial one (overrides NotFound,
Aborted, Internal; declines the rest) and a total one: an error the mapper declines is judged by the property's table
(DeclinedFallsBack), one it maps gets exactly its word (named clause MapperOverrides).
Proof lists (CTFEFaults!ProofLists): get-proof-by-hash replies of 1, 2, 3 proofs with ascending / descending / equal leaf
indices and any subset of the proofs malformed (first / last node of 31, 33, 0 octets): a 200 carries 32-octet nodes only
and is one well-formed proof of the reply, 5xx when there is none (ProofNeverMalformed); which proof is served, and
whether a malformed proof that is not served must fail the request, is the named unasserted clause ServedProofUnasserted.

Request shapes (CTFEFaults!EntryShapes): a get-entry-and-proof reply with an absent part (nil leaf, empty leaf value, nil
Proof, Proof without hashes) is crossed with the request (leaf_index, tree_size): first / later / last leaf of a tree of
1, 2, 4, 5 leaves.  A Proof without hashes is the honest reply exactly for tree_size = 1 (named clause
SingleLeafEmptyPath: 200 with an empty audit_path); under every other shape it is 5xx (EntryShapeLaws).
Method tokens (CTFEFaults!MethodTokens): every endpoint x every token that is not exactly its method - the other
standard methods and the letter-case variants of GET and POST (get, Get, gET, GEt, post, Post, pOST, POSt; tokens are
case-sensitive, RFC 9110 9.1) - with the otherwise valid query / body: 4xx before any backend call, no SCT (MethodLaws).

Schedules (spec/ctfe/CTFETrace.tla over CTFE.tla): requests overlap.  The harness parks the backend call of one
request inside the backend, sends further requests (mostly the same endpoint of the same front end, half of them the
very same request), lets the tree grow, and only then lets the parked call fail (refusal or lost reply).  Every request
is the events Inv / Call / Ret; trace validation demands that a reply is the one the request's own backend call
explains (OwnBackendCall) - a 200 get-sth without a call of its own is acceptable only with a head that a successful
root fetch delivered while the request was pending (SharedFetch).
"""
from props import ctfe_common
from vlib import Infra

LEVEL = "fault_enumeration"


def run(ctx, replay=None):
    ctx.assumptions += [
        "malformed replies are those a wire decode can produce (absent optional messages, short hashes, surplus or "
        "mis-indexed leaves, undecodable echoed leaf); nil elements inside repeated fields and a nil response with a nil "
        "error are not generated",
        "named clause EchoVersionUnasserted: an echoed leaf that is a well-formed v1 MerkleTreeLeaf except for its version "
        "octet (1, 255) decodes with the library's codec and the front end answers 200 with a v1 SCT over the echoed entry; "
        "the property is silent on it: executed and recorded (notes of the evidence), judged only for no crash / request "
        "log coherence; a version other than v1 together with any other deviation is asserted (5xx, no SCT)",
        "named clause MapperOverrides / assumption MapperNeverSuccess: where a configured ErrorMapper answers (status, true) the "
        "status is the mapper's; the mappers of the matrix answer 4xx / 5xx only (a mapper that says 2xx is not generated)",
        "named clause ServedProofUnasserted: of a get-proof-by-hash backend reply with several proofs any well-formed one may "
        "be served (or 5xx); the extra proofs are genuine audit paths of the backend's tree for other leaf indices",
        "named clause SingleLeafEmptyPath: a GetEntryAndProof reply that carries the leaf and a Proof without hashes to a "
        "request with tree_size = 1 is the honest reply (200, empty audit_path), not a fault; for every other request "
        "shape it is a reply whose proof is absent (5xx)",
        "reference backend; the fault matrix runs in the in-backend (direct) issuance-chain mode; the external chain "
        "storage mode (where a reply is post-processed leaf by leaf before the handler's own checks) is covered by the "
        "ChainStore.tla replay and its page matrix: a page with one leaf that cannot be fixed up, at every position and "
        "under every completion order of the per-leaf work, is never answered 200",
    ]
    ctx.tlc("ctfe", "MCCTFEFaults", "CTFEFaults.cfg", workers=4)
    r = ctx.tlc("ctfe", "MCCTFEFaults", "CTFEFaultsExport.cfg", workers=1, count=False)
    cases = r.records.get("CASE", [])
    if not cases:
        raise Infra("no cases exported")
    ctx.exhaustive = True
    path = ctx.write_ndjson("cases.ndjson", cases)
    ctx.go_test("cctfe", run="TestFaults$", env={"VERIF_CASES": path}, timeout=3000)
    if replay:
        return
    # schedules: overlapping requests and a failing backend call.  The backend call of one request is parked inside the
    # backend until other requests have arrived and then fails; CTFETrace.tla demands that every reply is the one the
    # request's own backend call explains (a 200 get-sth needs a successful root fetch inside its own interval).
    ctfe_common.concurrent_traces(ctx, "C08")
    # the external chain storage mode: a reply whose leaves are fixed up one by one (ChainStore.tla: garbled leaves,
    # missing / damaged rows, storage faults at any position of a page x completion orders; failed storage.Add = 5xx)
    ctfe_common.external_storage(ctx)
