"""C08 - backend faults and bad requests never surface as success.

spec/ctfe/CTFEFaults.tla: the complete finite matrix (endpoint x RPC x gRPC code / malformed-reply class x fault
position x masking; endpoint x bad-parameter class) with the status class the property demands.  Binding: every case
is executed on a real ctfe.Instance whose backend replies are rewritten by an interceptor; status class, absence of an
SCT, RequestLog calls, masking, absence of backend calls for bad requests, and panics are checked.
"""
from vlib import Infra

LEVEL = "fault_enumeration"


def run(ctx, replay=None):
    ctx.assumptions += [
        "malformed replies are those a wire decode can produce (absent optional messages, short hashes, surplus or "
        "mis-indexed leaves, undecodable echoed leaf); nil elements inside repeated fields and a nil response with a nil "
        "error are not generated",
        "reference backend; in-backend (direct) issuance-chain mode (external chain storage faults belong to C14)",
    ]
    ctx.tlc("ctfe", "MCCTFEFaults", "CTFEFaults.cfg", workers=4)
    r = ctx.tlc("ctfe", "MCCTFEFaults", "CTFEFaultsExport.cfg", workers=1, count=False)
    cases = r.records.get("CASE", [])
    if not cases:
        raise Infra("no cases exported")
    ctx.exhaustive = True
    path = ctx.write_ndjson("cases.ndjson", cases)
    ctx.go_test("cctfe", run="TestFaults$", env={"VERIF_CASES": path}, timeout=3000)
