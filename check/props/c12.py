"""C12 - a log client holding the log key never hands back unverified signed data.

spec/client/LogClient.tla: adversarial server answering every request with [status, body class]; the ideal RFC 6962
client (methods of client.LogClient; submissions repeated on retryable statuses) with history variable Returned.
TLC checks the invariants exhaustively and exports every completed call (CASE), two-call sequences (BEH) and the
entry-decoder table (ECASE).  Binding: harness/c12 replays them into real client.LogClient instances behind a scripted
http.RoundTripper that renders each class with real keys and certificates, re-verifies whatever is returned with std
crypto over the independent encoding, and runs the entry decoder on the spec's classes and on seeded mutations.

spec/client/TemporalClient.tla (+ MCTemporalClient): the temporal (sharded) log client of client/multilog.go - 1..3
contiguous shards, each with its own key, window and adversarial server.  TLC checks RoutedToOneShard, OnlyVerifiedSCT
(per routed shard), RootsUnion (every completion order, context ending at any point, liveness RootsTerminate),
NoCrossTalk / PausesAreLocal exhaustively and exports every submission case (TCASE), submission sequence (TBEH) and
GetAcceptedRoots schedule (RCASE).  Binding: harness/vt/c12t (go1.26 testing/synctest) replays all of them into a real
client.NewTemporalLogClient behind a RoundTripper that routes by host to scripted per-shard servers with real keys.
"""
import json
import os
import random

from vlib import Infra

ASSUME_TEMPORAL = [
    "temporal client: shard lists are the well-formed ones (C18 decides what the constructor accepts) with bounds drawn from the "
    "model's instants 0..4 (thorough: 0..6) or absent; instants are materialized on whole seconds one second and one hour apart "
    "(sub-second bounds against second-resolution NotAfter are C18's subject); three key assignments (ECDSA/RSA/ECDSA, "
    "RSA/ECDSA/RSA, all ECDSA) plus a key of each type that belongs to no shard",
    "temporal client, NAMED CLAUSE LaxFirstElement: a first chain element that parses only leniently may be refused before "
    "anybody is contacted or routed by its NotAfter; nothing else is accepted",
    "temporal client, pacing: one caller at a time, calls spaced further apart (1000 s of virtual time) than the 128 s cap, so a "
    "shard's multiplier and pauses are a function of the answers that shard gave (concurrent callers and pending back-off are C13's)",
    "temporal client, NAMED CLAUSE FanOut: GetAcceptedRoots has a request outstanding at every shard before any of them is "
    "answered (the completion orders presuppose it)",
    "temporal client, roots: the per-shard requests are held at gates inside the RoundTripper and released one at a time "
    "(testing/synctest.Wait between releases), so the completion order is the specification's; requests still outstanding when the "
    "context ends all fail with the context's error; the ORDER of the returned roots is not asserted, nor WHICH failed shard's error "
    "is returned (it must be one of them, with its status and body, or the context's)",
]

ASSUME = [
    "SHA-256 / ECDSA P-256 / RSA PKCS#1 v1.5 soundness (signatures are tokens in the spec; the harness uses real keys: "
    "one ECDSA P-256 and one RSA 2048 log key, a foreign key of each type)",
    "server behaviours are drawn from the body-class catalogue of LogClient.tla (single deviations from the valid answer, "
    "a few double ones) x statuses {200,204,301,400,404,429,500}; 301 is answered without Location (redirect following is "
    "net/http's business)",
    "classes on which the property is silent are not judged either way, only 'what is returned verifies': JSON followed by "
    "junk, missing optional fields / null on unsigned endpoints, malformed leaves through GetRawEntries, whether an error "
    "raised by the entry decoder inside GetEntries carries the HTTP response, opaque chain elements",
    "retry pacing is C13's subject: retryable answers are sent with Retry-After: 0, an expiring context is simulated by "
    "cancelling it; no wall-clock judgment is made",
]


def dedup(records):
    out, seen = [], set()
    for r in records:
        steps = r if isinstance(r, list) else [r]
        key = json.dumps([[s["method"], s["chain"], s["answers"], s["end"]] for s in steps], sort_keys=True)
        if key not in seen:
            seen.add(key)
            out.append(steps)
    return out


def tlc_export(ctx, cfg, tag, count=False):
    r = ctx.tlc("client", "MCTemporalClient", cfg, workers=1, count=count, timeout=2400)
    recs = r.records.get(tag, [])
    if not recs:
        raise Infra("%s exported no %s record" % (cfg, tag))
    return recs


def temporal(ctx):
    """The temporal (sharded) log client: TemporalClient.tla checked and every exported case replayed."""
    ctx.assumptions += ASSUME_TEMPORAL
    workers = min(8, os.cpu_count() or 4)
    if os.environ.get("VERIF_C12_SKIP_MC") != "1":   # development aid for mutation runs: the model does not depend on /repo
        # 1. exhaustive: shard lists x instants x chains x first-element forms x answer scripts; safety of all scenes
        ctx.tlc("client", "MCTemporalClient", ctx.pick("TemporalClientSmall.cfg", "TemporalClient.cfg"), workers=workers, timeout=3000)
        if ctx.thorough():
            ctx.tlc("client", "MCTemporalClient", "TemporalClientTwoCalls.cfg", workers=workers, timeout=3000)
        # 2. liveness of the fan-out: it returns when no shard hangs, and when the context ends
        ctx.tlc("client", "MCTemporalClient", "TemporalClientRootsLive.cfg", workers=4)
    # 3. exports (the invariants are checked again on the exported state spaces)
    route = tlc_export(ctx, ctx.pick("TemporalClientRouteCases.cfg", "TemporalClientRouteCasesFull.cfg"), "TCASE")
    classes = tlc_export(ctx, ctx.pick("TemporalClientClassCases.cfg", "TemporalClientClassCasesFull.cfg"), "TCASE")
    seqs = tlc_export(ctx, ctx.pick("TemporalClientPacing.cfg", "TemporalClientPacingFull.cfg"), "TBEH")
    if ctx.thorough():
        seqs += tlc_export(ctx, "TemporalClientPacing3.cfg", "TBEH")
    roots = tlc_export(ctx, ctx.pick("TemporalClientRootsSmall.cfg", "TemporalClientRoots.cfg"), "RCASE", count=True)
    ctx.log("temporal client: %d routing cases, %d server-class cases, %d submission sequences, %d roots schedules"
            % (len(route), len(classes), len(seqs), len(roots)))
    ctx.notes["temporal_cases"] = {"routing": len(route), "server_classes": len(classes), "sequences": len(seqs),
                                   "roots_schedules": len(roots)}
    # 4. replay into the real client.TemporalLogClient under virtual time
    parts = []
    for name, items in (("c12t-route", route), ("c12t-classes", classes), ("c12t-sequences", seqs)):
        parts.append("%s=%s" % (name, ctx.write_ndjson(name + ".ndjson", items)))
    rpath = ctx.write_ndjson("c12t-roots.ndjson", roots)
    if ctx.thorough():
        ctx.go_test("vt/c12t", run="TestSubmit$", env={"VERIF_TCASES": ";".join(parts)}, toolchain="go1.26", timeout=2400,
                    name="c12t-submit")
        # the fan-out is the concurrent part: under the race detector
        ctx.go_test("vt/c12t", run="TestRoots$", env={"VERIF_RCASES": rpath}, toolchain="go1.26", race=True, timeout=2400,
                    name="c12t-roots")
    else:
        ctx.go_test("vt/c12t", run="TestSubmit$|TestRoots$", env={"VERIF_TCASES": ";".join(parts), "VERIF_RCASES": rpath},
                    toolchain="go1.26", timeout=2400, name="c12t")
    return {"temporal_routing_cases": len(route), "temporal_server_class_cases": len(classes),
            "temporal_roots_schedules": len(roots)}


def temporal_replay(ctx, data, env):
    case = data["case"]
    path = ctx.write_ndjson("temporal-replay.ndjson", [case])
    step = case.get("step") or {}
    if step.get("k") == "roots":
        ctx.go_test("vt/c12t", run="TestRoots$", env=dict(env, VERIF_RCASES=path, VERIF_ALL_WORLDS=1), toolchain="go1.26",
                    name="c12t-roots")
    else:
        ctx.go_test("vt/c12t", run="TestSubmit$", env=dict(env, VERIF_TCASES=path), toolchain="go1.26", name="c12t-submit")


def run(ctx, replay=None):
    ctx.assumptions += ASSUME
    if replay:
        with open(replay) as f:
            rp = json.load(f)
        data = rp.get("replay") or {}
        env = {"VERIF_SEED": rp.get("seed", ctx.seed)}
        if "case" in data:
            temporal_replay(ctx, data, env)
        elif "behaviour" in data:
            path = ctx.write_ndjson("replay.ndjson", [data["behaviour"]])
            ctx.go_test("c12", run="TestReplay$", env=dict(env, VERIF_BEHAVIOURS=path))
        elif "leaf_input" in data:
            path = ctx.write_ndjson("entry-replay.ndjson", [data])
            ctx.go_test("c12", run="TestEntryReplay$", env=dict(env, VERIF_ENTRY_REPLAY=path))
        else:
            raise Infra("replay file carries neither a behaviour nor a decoder input")
        return
    if os.environ.get("VERIF_C12_ONLY") == "temporal":   # development aid for mutation runs
        ctx.exhaustive = temporal(ctx)
        return
    # 1. exhaustive model check: methods x statuses x classes, sequences of calls, repeated submissions
    ctx.tlc("client", "MCLogClient", ctx.pick("LogClientSmall.cfg", "LogClient.cfg"), workers=min(8, os.cpu_count() or 4))
    # 2. every completed single call as a case, the entry-decoder table
    r = ctx.tlc("client", "MCLogClient", ctx.pick("LogClientCases.cfg", "LogClientCasesFull.cfg"), workers=1, count=False)
    cases = dedup(r.records.get("CASE", []))
    ecases = r.records.get("ECASE", [])
    if not cases or not ecases:
        raise Infra("case export produced nothing")
    # 3. sequences of two calls: representative first call x every second call
    r = ctx.tlc("client", "MCLogClient", ctx.pick("LogClientSeqSmall.cfg", "LogClientSeq.cfg"), workers=1, count=False)
    seqs = dedup(r.records.get("BEH", []))
    if not seqs:
        raise Infra("sequence export produced nothing")
    if not ctx.thorough():
        # quick tier: every second call after (at most) 6 seeded first calls
        rnd = random.Random(ctx.seed)
        by = {}
        for s in seqs:
            by.setdefault(json.dumps(s[1], sort_keys=True), []).append(s)
        seqs = []
        for k in sorted(by):
            grp = by[k]
            rnd.shuffle(grp)
            seqs += grp[:6]
    ctx.log("cases: %d single calls, %d two-call sequences, %d entry classes" % (len(cases), len(seqs), len(ecases)))
    ctx.exhaustive = {"single_calls": len(cases), "entry_classes": len(ecases)}
    path = ctx.write_ndjson("behaviours.ndjson", cases + seqs)
    ctx.go_test("c12", run="TestReplay$", env={"VERIF_BEHAVIOURS": path}, timeout=1200)
    epath = ctx.write_ndjson("ecases.ndjson", ecases)
    ctx.go_test("c12", run="TestEntryDecoder$", env={"VERIF_ECASES": epath, "VERIF_MUTATIONS": ctx.pick(20000, 400000)},
                timeout=1200, name="c12entries")
    # 4. the temporal (sharded) log client
    ctx.exhaustive.update(temporal(ctx))
