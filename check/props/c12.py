"""C12 - a log client holding the log key never hands back unverified signed data.

spec/client/LogClient.tla: adversarial server answering every request with [status, body class]; the ideal RFC 6962
client (methods of client.LogClient; submissions repeated on retryable statuses) with history variable Returned.
TLC checks the invariants exhaustively and exports every completed call (CASE), two-call sequences (BEH) and the
entry-decoder table (ECASE).  Binding: harness/c12 replays them into real client.LogClient instances behind a scripted
http.RoundTripper that renders each class with real keys and certificates, re-verifies whatever is returned with std
crypto over the independent encoding, and runs the entry decoder on the spec's classes and on seeded mutations.
"""
import json
import os
import random

from vlib import Infra

ASSUME = [
    "SHA-256 / ECDSA P-256 / RSA PKCS#1 v1.5 soundness (signatures are tokens in the spec; the harness uses real keys: "
    "one ECDSA P-256 and one RSA 2048 log key, a foreign key of each type)",
    "server behaviours are drawn from the body-class catalogue of LogClient.tla (single deviations from the valid answer, "
    "a few double ones) x statuses {200,204,301,400,404,429,500}; 301 is answered without Location (redirect following is "
    "net/http's business)",
    "classes on which the property is silent are not judged either way, only 'what is returned verifies': JSON followed by "
    "junk, missing optional fields / null on unsigned endpoints, malformed leaves through GetRawEntries, whether an error "
    "raised by the entry decoder inside GetEntries carries the HTTP response, opaque chain elements",
    "retry pacing is C13's subject: retryable answers are sent with Retry-After: 0, an expiring context is simulated by "
    "cancelling it; no wall-clock judgment is made",
]


def dedup(records):
    out, seen = [], set()
    for r in records:
        steps = r if isinstance(r, list) else [r]
        key = json.dumps([[s["method"], s["chain"], s["answers"], s["end"]] for s in steps], sort_keys=True)
        if key not in seen:
            seen.add(key)
            out.append(steps)
    return out


def run(ctx, replay=None):
    ctx.assumptions += ASSUME
    if replay:
        with open(replay) as f:
            rp = json.load(f)
        data = rp.get("replay") or {}
        env = {"VERIF_SEED": rp.get("seed", ctx.seed)}
        if "behaviour" in data:
            path = ctx.write_ndjson("replay.ndjson", [data["behaviour"]])
            ctx.go_test("c12", run="TestReplay$", env=dict(env, VERIF_BEHAVIOURS=path))
        elif "leaf_input" in data:
            path = ctx.write_ndjson("entry-replay.ndjson", [data])
            ctx.go_test("c12", run="TestEntryReplay$", env=dict(env, VERIF_ENTRY_REPLAY=path))
        else:
            raise Infra("replay file carries neither a behaviour nor a decoder input")
        return
    # 1. exhaustive model check: methods x statuses x classes, sequences of calls, repeated submissions
    ctx.tlc("client", "MCLogClient", ctx.pick("LogClientSmall.cfg", "LogClient.cfg"), workers=min(8, os.cpu_count() or 4))
    # 2. every completed single call as a case, the entry-decoder table
    r = ctx.tlc("client", "MCLogClient", ctx.pick("LogClientCases.cfg", "LogClientCasesFull.cfg"), workers=1, count=False)
    cases = dedup(r.records.get("CASE", []))
    ecases = r.records.get("ECASE", [])
    if not cases or not ecases:
        raise Infra("case export produced nothing")
    # 3. sequences of two calls: representative first call x every second call
    r = ctx.tlc("client", "MCLogClient", ctx.pick("LogClientSeqSmall.cfg", "LogClientSeq.cfg"), workers=1, count=False)
    seqs = dedup(r.records.get("BEH", []))
    if not seqs:
        raise Infra("sequence export produced nothing")
    if not ctx.thorough():
        # quick tier: every second call after (at most) 6 seeded first calls
        rnd = random.Random(ctx.seed)
        by = {}
        for s in seqs:
            by.setdefault(json.dumps(s[1], sort_keys=True), []).append(s)
        seqs = []
        for k in sorted(by):
            grp = by[k]
            rnd.shuffle(grp)
            seqs += grp[:6]
    ctx.log("cases: %d single calls, %d two-call sequences, %d entry classes" % (len(cases), len(seqs), len(ecases)))
    ctx.exhaustive = {"single_calls": len(cases), "entry_classes": len(ecases)}
    path = ctx.write_ndjson("behaviours.ndjson", cases + seqs)
    ctx.go_test("c12", run="TestReplay$", env={"VERIF_BEHAVIOURS": path}, timeout=1200)
    epath = ctx.write_ndjson("ecases.ndjson", ecases)
    ctx.go_test("c12", run="TestEntryDecoder$", env={"VERIF_ECASES": epath, "VERIF_MUTATIONS": ctx.pick(20000, 400000)},
                timeout=1200, name="c12entries")
