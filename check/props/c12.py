"""C12 - a log client holding the log key never hands back unverified signed data.

spec/client/LogClient.tla: adversarial server answering every request with [status, body class]; the ideal RFC 6962
client (methods of client.LogClient; submissions repeated on retryable statuses) with history variable Returned.
The server has a memory (variable served: the signed 200 answers given to this client) and may answer a later call
with an earlier body byte for byte, with its signature bytes under one altered field / for another chain or method, or
with its signature bytes in an answer of the other kind; OnlyVerifiedSTH / OnlyVerifiedSCT are stated against the
input of the call that RETURNS the object, NoCreditForHistory says a replayed answer gets the verdict a client that
never saw anything gives it.  TLC checks the invariants exhaustively and exports every completed call (CASE),
two-call sequences (BEH), three-call history sequences (HBEH, MCLogClientHist) and the entry-decoder table (ECASE).
Binding: harness/c12 replays them into real client.LogClient instances behind a scripted http.RoundTripper that renders
each class with real keys and certificates (a replay is cut out of the very bytes served earlier), each sequence on
ONE long-lived client and again on a fresh client per call (the two must hand back the same), re-verifies whatever is
returned with std crypto over the independent encoding of the chain THAT call submitted, and runs the entry decoder on
the spec's classes and on seeded mutations.

The CONSTRUCTION of the client is part of the specification (variable client, Constructs, ConstructionLaw): the two key
options of jsonclient.Options are slots [key, form]; the form is the key-material dimension (the standard
SubjectPublicKeyInfo; the log's key readable but not in the prescribed form - RSA under id-RSAES-OAEP / id-RSASSA-PSS /
without NULL / obsolete or private OID, compressed EC point, RSA 1024 / P-384, trailing bytes, other PEM label, certificate,
PKCS#1, text around the block, bare base64; no usable key - Ed25519, DSA, X25519, arbitrary / truncated / empty DER, no PEM
block, empty block, private key; absent), alone or next to the standard key in the other option.  Law: a key was configured
=> the construction fails \/ everything the client ever returns verifies under that key.  TLC checks it over every option
(LogClientKeys.cfg) and exports one construction case per option (KCASE) and, for every option, one call per signed
endpoint and probe class; harness/c12/material.go renders every form with the standard library, gives it to client.New
and holds a client that IS built to the specification's verdicts.  The submitted precertificate chains have a SHAPE
(AllShapes: who signed x position of the poison x last extension x notAfter form; the dimensions of
spec/codec/EntryOfChain.tla / harness/pki Opts.ExtOrder): every shape is submitted through add-pre-chain against the probe
classes, the expected entry coming from harness/ref (checked against the specification's description of the shape).

spec/client/TemporalClient.tla (+ MCTemporalClient): the temporal (sharded) log client of client/multilog.go - 1..3
contiguous shards, each with its own key, window and adversarial server.  TLC checks RoutedToOneShard, OnlyVerifiedSCT
(per routed shard), RootsUnion (every completion order, context ending at any point, liveness RootsTerminate),
NoCrossTalk / PausesAreLocal exhaustively and exports every submission case (TCASE), submission sequence (TBEH) and
GetAcceptedRoots schedule (RCASE).  Binding: harness/vt/c12t (go1.26 testing/synctest) replays all of them into a real
client.NewTemporalLogClient behind a RoundTripper that routes by host to scripted per-shard servers with real keys.
The DEPLOYMENT of the shards is a dimension of the configuration (variable dep, constant Deployments: per shard the
frontend / base URI it is served from and the key it is configured with): every shard its own URI and key; all shards
behind one base URI with different keys, with one key, with a first / middle shard that has no key; one key behind three
URIs; two of three shards behind one URI; URI shared with one neighbour and key with the other.  OnlyVerifiedSCT is
stated against the key CONFIGURED for the routed shard, RoutedToOneShard against the routed shard's frontend.
"""
import json
import os
import random

from vlib import Infra

ASSUME_TEMPORAL = [
    "temporal client: shard lists are the well-formed ones (C18 decides what the constructor accepts) with bounds drawn from the "
    "model's instants 0..4 (thorough: 0..6) or absent; instants are materialized on whole seconds one second and one hour apart "
    "(sub-second bounds against second-resolution NotAfter are C18's subject); three key assignments (ECDSA/RSA/ECDSA, "
    "RSA/ECDSA/RSA, all ECDSA) plus a key of each type that belongs to no shard",
    "temporal client, deployments (NAMED CLAUSE SharedFrontend): shards may share a base URI (materialized as the same string, "
    "and with / without the trailing slash) and / or a key; the SCT handed back for a certificate routed to shard s must verify under "
    "and name the key configured for s, whoever else is served from that URI; quick: exhaustive check over {own URI and key, one URI "
    "x three keys, one URI x one key}, server-class cases additionally over {three URIs x one key, one URI with a first shard without "
    "key}, routing cases and sequences over {own URI and key, one URI x three keys}; thorough: the same, and all eight deployments in the "
    "server-class cases; GetAcceptedRoots is explored with every shard behind its own URI only; NAMED CLAUSE "
    "UnkeyedShard: what a shard configured without a key hands back is not judged (routing, requests and pacing still are)",
    "temporal client, NAMED CLAUSE LaxFirstElement: a first chain element that parses only leniently may be refused before "
    "anybody is contacted or routed by its NotAfter; nothing else is accepted",
    "temporal client, pacing: one caller at a time, calls spaced further apart (1000 s of virtual time) than the 128 s cap, so a "
    "shard's multiplier and pauses are a function of the answers that shard gave (concurrent callers and pending back-off are C13's)",
    "temporal client, NAMED CLAUSE FanOut: GetAcceptedRoots has a request outstanding at every shard before any of them is "
    "answered (the completion orders presuppose it)",
    "temporal client, roots: the per-shard requests are held at gates inside the RoundTripper and released one at a time "
    "(testing/synctest.Wait between releases), so the completion order is the specification's; requests still outstanding when the "
    "context ends all fail with the context's error; the ORDER of the returned roots is not asserted, nor WHICH failed shard's error "
    "is returned (it must be one of them, with its status and body, or the context's)",
]

ASSUME = [
    "client configuration: the log key is given as PublicKeyDER, as PublicKey (PEM), as both naming the same key, or as both "
    "naming different keys (the PEM option then names the foreign key the adversarial classes use); NAMED CLAUSE DERWins: the "
    "key the documentation of jsonclient.Options names (PublicKeyDER when both are set) is the one signatures verify under AND "
    "the one whose hash the log ID must be; single calls are exported under all four options (unsigned endpoints: the two "
    "single-option ones), sequences are each executed under one of the four (round-robin from the seed)",
    "history: the server's memory is the set of 200 answers of the classes ReplaySources (quick: valid, sigCorrupt; thorough: "
    "nine classes) given on get-sth / add-chain / add-pre-chain; a later answer is an earlier body byte for byte, or its "
    "signature bytes under ONE altered field (tree_size+1, the other root, timestamp+1, extensions present<->absent), for "
    "another chain / method, or under the well-formed fields of the other kind; sequences of three calls, each replayed on one "
    "long-lived client and on a fresh client per call; NAMED CLAUSE NoCreditForHistory: a replayed answer gets the verdict it "
    "would get from a client that never saw anything",
    "key material: 81 key options (KeyOptionTable) - every non-standard form in PublicKeyDER or in PublicKey, alone and next to "
    "the log's standard key in the other option; NAMED CLAUSE LenientMaterial: where the log's key can be read out of the bytes "
    "but not in the form RFC 6962 2.1.4 / RFC 5280 prescribe, the construction may fail or succeed, a client that is built "
    "verifies with that key and may refuse what verifies (its log ID may be the hash of the prescribed SubjectPublicKeyInfo or "
    "of the bytes given); NAMED CLAUSE OnlyKeyItHas: documented option unusable, other option standard - a client that is built "
    "all the same verifies with the other option's key; material without any RFC 6962 key: the construction fails, or the client "
    "returns no signed object at all; no key configured: not judged.  Clients built from non-standard material are probed with "
    "one 200 answer per signed endpoint and probe class (15 classes), not with sequences",
    "chain shapes: 48 precertificate chains (signed directly / by a precertificate signing certificate: plain, with a "
    "keyid+issuer+serial AKI, with the CT usage second) x (poison last / before the AKI / first) x (last extension SAN / AKI) x "
    "(notAfter 2049 UTCTime / 2050 GeneralizedTime), each against the probe classes under the option der; a precertificate "
    "without AKI, a precertificate signing certificate without AKI and other subject key types are C04's (EntryOfChain.tla)",
    "SHA-256 / ECDSA P-256 / RSA PKCS#1 v1.5 soundness (signatures are tokens in the spec; the harness uses real keys: "
    "one ECDSA P-256 and one RSA 2048 log key, a foreign key of each type)",
    "server behaviours are drawn from the body-class catalogue of LogClient.tla (single deviations from the valid answer, "
    "a few double ones) x statuses {200,204,301,400,404,429,500}; 301 is answered without Location (redirect following is "
    "net/http's business)",
    "classes on which the property is silent are not judged either way, only 'what is returned verifies': JSON followed by "
    "junk, missing optional fields / null on unsigned endpoints, malformed leaves through GetRawEntries, whether an error "
    "raised by the entry decoder inside GetEntries carries the HTTP response, opaque chain elements",
    "retry pacing is C13's subject: retryable answers are sent with Retry-After: 0, an expiring context is simulated by "
    "cancelling it; no wall-clock judgment is made",
]


def dedup(records):
    out, seen = [], set()
    for r in records:
        steps = r if isinstance(r, list) else [r]
        key = json.dumps([[s.get("config"), s["method"], s["chain"], s["answers"], s["end"]] for s in steps], sort_keys=True)
        if key not in seen:
            seen.add(key)
            out.append(steps)
    return out


KEY_OPTIONS = ["der", "pem", "bothSame", "bothDifferent"]


def spread_key_options(ctx, seqs):
    """Single calls are exported by TLC under every key option (LogClientCases*.cfg).  The specification's verdicts do not
    depend on the option (VerifKey is the log's key under all four), so each SEQUENCE - exported once, under "der" - is
    executed under one of the four, assigned round-robin from the seed: a materialization choice over a universally
    quantified dimension, not part of the oracle."""
    for i, beh in enumerate(seqs):
        opt = KEY_OPTIONS[(i + ctx.seed) % len(KEY_OPTIONS)]
        for step in beh:
            step["config"] = opt
            step.pop("opt", None)    # (the description of the option the sequence was exported under)
            step["rotated"] = True   # keeps the fingerprints of sequences independent of the seed
    return seqs


def tlc_export(ctx, cfg, tag, count=False):
    r = ctx.tlc("client", "MCTemporalClient", cfg, workers=1, count=count, timeout=2400)
    recs = r.records.get(tag, [])
    if not recs:
        raise Infra("%s exported no %s record" % (cfg, tag))
    return recs


def temporal(ctx):
    """The temporal (sharded) log client: TemporalClient.tla checked and every exported case replayed."""
    ctx.assumptions += ASSUME_TEMPORAL
    workers = min(8, os.cpu_count() or 4)
    if os.environ.get("VERIF_C12_SKIP_MC") != "1":   # development aid for mutation runs: the model does not depend on /repo
        # 1. exhaustive: shard lists x instants x chains x first-element forms x answer scripts; safety of all scenes
        ctx.tlc("client", "MCTemporalClient", ctx.pick("TemporalClientSmall.cfg", "TemporalClient.cfg"), workers=workers, timeout=3000)
        if ctx.thorough():
            ctx.tlc("client", "MCTemporalClient", "TemporalClientTwoCalls.cfg", workers=workers, timeout=3000)
        # 2. liveness of the fan-out: it returns when no shard hangs, and when the context ends
        ctx.tlc("client", "MCTemporalClient", "TemporalClientRootsLive.cfg", workers=4)
    # 3. exports (the invariants are checked again on the exported state spaces)
    route = tlc_export(ctx, ctx.pick("TemporalClientRouteCases.cfg", "TemporalClientRouteCasesFull.cfg"), "TCASE")
    classes = tlc_export(ctx, ctx.pick("TemporalClientClassCases.cfg", "TemporalClientClassCasesFull.cfg"), "TCASE")
    seqs = tlc_export(ctx, ctx.pick("TemporalClientPacing.cfg", "TemporalClientPacingFull.cfg"), "TBEH")
    if ctx.thorough():
        seqs += tlc_export(ctx, "TemporalClientPacing3.cfg", "TBEH")
    roots = tlc_export(ctx, ctx.pick("TemporalClientRootsSmall.cfg", "TemporalClientRoots.cfg"), "RCASE", count=True)
    ctx.log("temporal client: %d routing cases, %d server-class cases, %d submission sequences, %d roots schedules"
            % (len(route), len(classes), len(seqs), len(roots)))
    ctx.notes["temporal_cases"] = {"routing": len(route), "server_classes": len(classes), "sequences": len(seqs),
                                   "roots_schedules": len(roots)}
    # 4. replay into the real client.TemporalLogClient under virtual time
    parts = []
    for name, items in (("c12t-route", route), ("c12t-classes", classes), ("c12t-sequences", seqs)):
        parts.append("%s=%s" % (name, ctx.write_ndjson(name + ".ndjson", items)))
    rpath = ctx.write_ndjson("c12t-roots.ndjson", roots)
    if ctx.thorough():
        ctx.go_test("vt/c12t", run="TestSubmit$", env={"VERIF_TCASES": ";".join(parts)}, toolchain="go1.26", timeout=2400,
                    name="c12t-submit")
        # the fan-out is the concurrent part: under the race detector
        ctx.go_test("vt/c12t", run="TestRoots$", env={"VERIF_RCASES": rpath}, toolchain="go1.26", race=True, timeout=2400,
                    name="c12t-roots")
    else:
        ctx.go_test("vt/c12t", run="TestSubmit$|TestRoots$", env={"VERIF_TCASES": ";".join(parts), "VERIF_RCASES": rpath},
                    toolchain="go1.26", timeout=2400, name="c12t")
    return {"temporal_routing_cases": len(route), "temporal_server_class_cases": len(classes),
            "temporal_roots_schedules": len(roots)}


def temporal_replay(ctx, data, env):
    case = data["case"]
    path = ctx.write_ndjson("temporal-replay.ndjson", [case])
    step = case.get("step") or {}
    if step.get("k") == "roots":
        ctx.go_test("vt/c12t", run="TestRoots$", env=dict(env, VERIF_RCASES=path, VERIF_ALL_WORLDS=1), toolchain="go1.26",
                    name="c12t-roots")
    else:
        ctx.go_test("vt/c12t", run="TestSubmit$", env=dict(env, VERIF_TCASES=path), toolchain="go1.26", name="c12t-submit")


def run(ctx, replay=None):
    ctx.assumptions += ASSUME
    if replay:
        with open(replay) as f:
            rp = json.load(f)
        data = rp.get("replay") or {}
        env = {"VERIF_SEED": rp.get("seed", ctx.seed)}
        if "case" in data:
            temporal_replay(ctx, data, env)
        elif "behaviour" in data:
            path = ctx.write_ndjson("replay.ndjson", [data["behaviour"]])
            ctx.go_test("c12", run="TestReplay$", env=dict(env, VERIF_BEHAVIOURS=path))
        elif "kcase" in data:
            path = ctx.write_ndjson("replay.ndjson", [])
            kpath = ctx.write_ndjson("kcases.ndjson", [data["kcase"]])
            ctx.go_test("c12", run="TestReplay$", env=dict(env, VERIF_BEHAVIOURS=path, VERIF_KCASES=kpath))
        elif "leaf_input" in data:
            path = ctx.write_ndjson("entry-replay.ndjson", [data])
            ctx.go_test("c12", run="TestEntryReplay$", env=dict(env, VERIF_ENTRY_REPLAY=path))
        else:
            raise Infra("replay file carries neither a behaviour nor a decoder input")
        return
    if os.environ.get("VERIF_C12_ONLY") == "temporal":   # development aid for mutation runs
        ctx.exhaustive = temporal(ctx)
        return
    # 1. exhaustive model check: methods x statuses x classes, sequences of calls, repeated submissions
    #    (quick: fresh answers and replays from three classes of earlier answers, two calls; thorough: fresh answers over three
    #    calls, then fresh and replayed answers from sixteen classes over two calls)
    if os.environ.get("VERIF_C12_SKIP_MC") != "1":   # development aid for mutation runs: the model does not depend on /repo
        ctx.tlc("client", "MCLogClient", ctx.pick("LogClientSmall.cfg", "LogClient.cfg"), workers=min(8, os.cpu_count() or 4))
        if ctx.thorough():
            ctx.tlc("client", "MCLogClient", "LogClientReplay.cfg", workers=min(8, os.cpu_count() or 4))
        # 1b. the key-material dimension (ConstructionLaw and the verification invariants): quick - one key option of every
        #     class (the verdicts depend on the option through its class only) x every endpoint x every class, all 81
        #     options over the probe classes in step 2; thorough - all options, and one of every class over two calls
        ctx.tlc("client", "MCLogClient", ctx.pick("LogClientKeys.cfg", "LogClientKeysFull.cfg"), workers=min(8, os.cpu_count() or 4))
        if ctx.thorough():
            ctx.tlc("client", "MCLogClient", "LogClientKeysPairs.cfg", workers=min(8, os.cpu_count() or 4))
    # 2. every completed single call as a case, the entry-decoder table
    r = ctx.tlc("client", "MCLogClient", ctx.pick("LogClientCases.cfg", "LogClientCasesFull.cfg"), workers=1, count=False)
    cases = dedup(r.records.get("CASE", []))
    ecases = r.records.get("ECASE", [])
    kcases = r.records.get("KCASE", [])
    if not cases or not ecases or not kcases:
        raise Infra("case export produced nothing")
    material = [c for c in cases if c[0]["config"] not in KEY_OPTIONS]
    shapes = [c for c in cases if (c[0].get("shape") or {}).get("k") == "shape"]
    if not material or not shapes:
        raise Infra("case export produced no key-material / chain-shape case")
    # 3. sequences of two calls: representative first call x every second call
    r = ctx.tlc("client", "MCLogClient", ctx.pick("LogClientSeqSmall.cfg", "LogClientSeq.cfg"), workers=1, count=False)
    seqs = dedup(r.records.get("BEH", []))
    if not seqs:
        raise Infra("sequence export produced nothing")
    if not ctx.thorough():
        # quick tier: every second call after (at most) 6 seeded first calls
        rnd = random.Random(ctx.seed)
        by = {}
        for s in seqs:
            by.setdefault(json.dumps(s[1], sort_keys=True), []).append(s)
        seqs = []
        for k in sorted(by):
            grp = by[k]
            rnd.shuffle(grp)
            seqs += grp[:6]
    # 3b. history: sequences of three calls to the signed endpoints on ONE client, the server drawing on what it answered
    #     before (the earlier body byte for byte; its signature bytes under altered fields, for another chain, in an answer of
    #     the other kind); the invariants and NoCreditForHistory are checked on the same state space
    r = ctx.tlc("client", "MCLogClientHist", ctx.pick("LogClientHistSmall.cfg", "LogClientHist.cfg"), workers=1, timeout=2400)
    hseqs = dedup(r.records.get("HBEH", []))
    if not hseqs:
        raise Infra("history export produced nothing")
    nrep = sum(1 for b in hseqs if any((a.get("src") or {}).get("method") for s in b for a in s["answers"]))
    ctx.log("cases: %d single calls, %d two-call sequences, %d history sequences (%d with a replayed answer), %d entry classes"
            % (len(cases), len(seqs), len(hseqs), nrep, len(ecases)))
    ctx.log("key material: %d key options, %d calls on clients built from non-standard material; %d calls with %d precertificate chain shapes"
            % (len(kcases), len(material), len(shapes), len({c[0]["chain"] for c in shapes})))
    ctx.exhaustive = {"single_calls": len(cases), "entry_classes": len(ecases), "history_sequences": len(hseqs),
                      "key_options": len(kcases), "key_material_calls": len(material), "chain_shape_calls": len(shapes)}
    path = ctx.write_ndjson("behaviours.ndjson", cases + spread_key_options(ctx, seqs) + spread_key_options(ctx, hseqs))
    kpath = ctx.write_ndjson("kcases.ndjson", kcases)
    ctx.go_test("c12", run="TestReplay$", env={"VERIF_BEHAVIOURS": path, "VERIF_KCASES": kpath}, timeout=1200)
    epath = ctx.write_ndjson("ecases.ndjson", ecases)
    ctx.go_test("c12", run="TestEntryDecoder$", env={"VERIF_ECASES": epath, "VERIF_MUTATIONS": ctx.pick(20000, 400000)},
                timeout=1200, name="c12entries")
    # 4. the temporal (sharded) log client
    if os.environ.get("VERIF_C12_ONLY") != "logclient":   # development aid for mutation runs
        ctx.exhaustive.update(temporal(ctx))
