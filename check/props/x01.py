"""X01 (extra coverage) - the chain fixer, package fixchain.

spec/fixchain/FixChain.tla: a FixAndLog as the package builds it - the caller (QueueChain, QueueAllCertsInChain, Wait), a
pool of fixer workers (verification with what was handed in; the walk over the AIA URLs of the certificates through the
shared URL cache: lookup / request / answer / store; the errors of a job pushed one by one; the fixed chain handed to the
forwarder), the forwarder with the de-duplication of Logger.QueueChain (posted-certificate cache, test-and-set on the
tried-chain cache), a pool of post workers (look at the posted-certificate cache / add-chain / store), the stages of Wait.
Certificates are names in a fixed hierarchy (two leaves under a two-level CA path, a leaf under a one-level path, a leaf
under a CA the log does not trust); chains are handed in complete / bare / in the wrong order / with the issuer missing /
with a superfluous certificate / with duplicates; every URL serves its issuer, another CA certificate, bytes that are no
certificate, a 404 or a transport error; the log accepts or refuses a leaf.

Laws (each from a sentence of the package's documentation, see spec/fixchain/README.md): ChainTriedOnce, IsPostedSound,
SkipsJustified, NoPostForPosted, FixedChainsValid, OutcomeExclusive, CacheFaithful, HitMeansNoFetch, ErrorsNotCached,
WaitMeansDone, Accounted, AfterDoneNothing, WaitReturns (liveness under weak fairness).

Binding (harness/vt/fixchain): real DER certificates with AIA extensions (harness/pki), a real fixchain.FixAndLog with 2
fixer workers and 2 post workers over a fake http.RoundTripper and a fake log client.  (1) specification -> code: TLC
simulates MCFixChainSim (random worlds; the steps decided outside the package - calls, URL answers, log answers - in
random order, the package running by itself until nothing moves in between); the harness reproduces each behaviour inside
a testing/synctest bubble, holding requests and add-chain calls at gates and releasing the one the behaviour names, and
compares at every point of rest what it can see with the model's state.  (2) code -> specification: free-running runs
under the race detector, events recorded at the fakes, validated line by line by FixChainTrace.tla with the laws as
invariants.  (3) two probes of the identity the package gives certificates (hash.go).
Not a listed property: evidence goes to evidence-extra/X01.json.
"""
import json
import os
import re

from vlib import Infra

LEVEL = "model_checking"
PKG = "vt/fixchain"

ASSUME = [
    "certificates are names, verification is path building over a fixed hierarchy (FixChain.tla, the PKI); the harness "
    "re-attaches real ECDSA P-256 certificates with AIA extensions and verifies every chain given to add-chain with the "
    "standard library (signatures, order, accepted root)",
    "at most one AIA URL per certificate, one accepted root, no cross-signed paths (removeSuperChains and the 20-certificate "
    "bound of the walk are not exercised)",
    "2 fixer workers, 2 post workers, one caller; programs of 2-5 calls; what a URL serves and what the log answers for a leaf "
    "is fixed per run",
    "replay: behaviours in which the scheduler, not the harness, decides an order that can be seen (two workers with different "
    "chains waiting for the forwarder; a QueueAllCertsInChain that hands on several jobs of which one runs to its end; two "
    "different jobs waiting for the same URL) are reproduced up to that point and then run free (laws on what reached the "
    "log still judged); the free-running traces cover those orders",
    "documentation silent, observed and unasserted: concurrent misses of the URL cache each fetch the URL; two different "
    "chains of one certificate may both be given to add-chain when neither has been accepted yet; the accepted roots are "
    "fetched once, when the Logger is made; Logger post workers never end",
]

HASH_FP = "hash:sum-appends-into-certificate-raw"


def canonical_races(ctx):
    """The race detector names the two frames it happened to catch; every race between hash()/hashChain() calls has one
    cause (hash.go appends to the certificate's encoding) and gets the fingerprint of the deterministic probe."""
    for v in ctx.violations:
        # (vlib cuts method frames such as fixchain.(*Logger).QueueChain down to "fixchain.")
        if re.fullmatch(r"race:(github\.com/google/certificate-transparency-go/fixchain\.(hash|hashChain|hashBag)?\|?)+", v["fingerprint"]) \
                and re.search(r"fixchain\.hash", v["fingerprint"]):
            v["what"] = "%s [%s]" % (v["what"], v["fingerprint"])
            v["fingerprint"] = HASH_FP
    seen, out = set(), []
    for v in ctx.violations:
        if v["fingerprint"] not in seen:
            seen.add(v["fingerprint"])
            out.append(v)
    ctx.violations[:] = out


def run(ctx, replay=None):
    ctx.assumptions += ASSUME
    try:
        _run(ctx, replay)
    finally:
        canonical_races(ctx)


def _run(ctx, replay):
    if replay:
        with open(replay) as f:
            rp = json.load(f).get("replay") or {}
        if "behaviour" in rp:
            path = ctx.write_ndjson("replay.ndjson", [rp["behaviour"]])
            ctx.go_test(PKG, run="TestReplay$", env={"VERIF_BEHAVIOURS": path}, toolchain="go1.26", race=True, timeout=600)
        elif "trace" in rp:
            path = os.path.join(ctx.work, "trace.ndjson")
            with open(path, "w") as f:
                f.write("\n".join(rp["trace"]) + "\n")
            validate_traces(ctx, path)
        else:
            ctx.go_test(PKG, run="TestIdentity$|TestAliasing$", toolchain="go1.26", timeout=600)
        return
    # 1. the laws on the model: exhaustive over small worlds; liveness; non-vacuity
    ctx.tlc("fixchain", "MCFixChain", ctx.pick("FixChainSmall.cfg", "FixChain.cfg"), workers=ctx.pick(6, 8), timeout=3000)
    ctx.tlc("fixchain", "MCFixChain", ctx.pick("FixChainLive.cfg", "FixChainLiveBig.cfg"), workers=ctx.pick(4, 8), timeout=3000)
    r = ctx.tlc("fixchain", "MCFixChain", "FixChainDefect.cfg", workers=2, timeout=600, expect_violation=True, count=False)
    if r.violated != "ChainTriedOnce":
        raise Infra("FixChainDefect.cfg: a logger without its tried-chain cache does not give a chain to add-chain twice in "
                    "the model (ChainTriedOnce would be vacuous): %s" % r.violated)
    # 2. specification -> code
    r = ctx.tlc("fixchain", "MCFixChainSim", "FixChainSim.cfg", simulate=ctx.pick(400, 4000), depth=800, count=False, timeout=3000)
    behs = r.records.get("BEH", [])
    if not behs:
        raise Infra("the simulation exported no behaviours")
    whole = sum(1 for b in behs if b[-1]["a"] == "End")
    conc = sum(1 for b in behs if any(sum(s["pre"]["fetching"].values()) >= 2 for s in b[1:]))
    dup = sum(1 for b in behs if any(max(s["pre"]["fetching"].values()) >= 2 for s in b[1:]))
    hits = sum(1 for b in behs if b[-1]["a"] == "End" and any(e["t"] == "LogPostFailed" for e in b[-1]["pre"]["reported"]))
    if not whole or not conc or not dup:
        raise Infra("the behaviours are too tame (whole=%d, two requests in flight=%d, the same URL twice in flight=%d)" % (whole, conc, dup))
    ctx.log("behaviours: %d (%d to the end of Wait, %d with two requests in flight, %d with one URL requested twice at once, "
            "%d with a refused post)" % (len(behs), whole, conc, dup, hits))
    path = ctx.write_ndjson("behaviours.ndjson", behs)
    ctx.go_test(PKG, run="TestReplay$", env={"VERIF_BEHAVIOURS": path}, toolchain="go1.26", race=True, timeout=3000, name="replay")
    # 3. code -> specification
    out, outdir, _ = ctx.go_test(PKG, run="TestTrace$", env={"VERIF_TRACES": ctx.pick(20, 150)}, toolchain="go1.26", race=True,
                                 timeout=3000, name="trace")
    tr = os.path.join(outdir, "traces.ndjson")
    if not os.path.exists(tr) or os.path.getsize(tr) == 0:
        raise Infra("no trace recorded")
    validate_traces(ctx, tr)
    # 4. the identity of certificates
    ctx.go_test(PKG, run="TestIdentity$|TestAliasing$", toolchain="go1.26", timeout=600, name="probes")


def validate_traces(ctx, tr):
    lines = open(tr).read().splitlines()
    n = sum(1 for line in lines if '"ev":"Reset"' in line)
    r = ctx.tlc("fixchain", "FixChainTrace", "FixChainTrace.cfg", workers=1, env={"TRACE_FILE": tr}, count=False, check=False,
                timeout=3000, label="trace", dfs=True)
    stuck = r.records.get("STUCK", [])
    if r.rc != 0 and not stuck and not r.violated:
        raise Infra("trace validation failed to run (rc=%d)\n%s" % (r.rc, "\n".join(r.out.splitlines()[-30:])))
    if stuck or r.violated:
        at = stuck[0]["line"] if stuck else len(lines)
        ev = stuck[0]["event"] if stuck else {}
        lo = min(at, len(lines))
        while lo > 1 and '"ev":"Reset"' not in lines[lo - 1]:
            lo -= 1
        hi = lo
        while hi < len(lines) and '"ev":"End"' not in lines[hi - 1]:
            hi += 1
        if r.violated and not stuck:
            fp = "trace:law:%s" % r.violated
        else:
            what = ev.get("ev", "?")
            detail = ev.get("t") or ev.get("url") or (ev.get("chain") or ["-"])[0]
            fp = "trace:%s:%s" % (what, detail)
        ctx.violation(fp, "a free run of the real FixAndLog is not a behaviour of FixChain.tla: no interleaving of the package's "
                      "silent steps explains the event %s at line %d of the trace%s" % (
                          json.dumps(ev), at - lo + 1, ("; law violated: " + r.violated) if r.violated else ""),
                      {"trace": lines[lo - 1:hi], "stuck": stuck, "violated": r.violated, "tlc": r.out.splitlines()[-12:]})
    else:
        ctx.traces += n
