"""C03 - the precertificate route and the embedded-SCT route yield the identical log entry.

spec/codec/Precert.tla (abstract TBSCertificate = opaque field tags + extension list; RemoveExt,
BuildPrecertTBS, Final, the two routes' entries, SCT list framing; laws ExactlyOne, OthersUntouched,
BuildTouchesOnly, Commutes, SameEntry, SCTListRoundTrip; the DER primitives an implementation that re-encodes
the TBSCertificate writes afresh - INTEGER contents octets by value, definite lengths, object identifier
subidentifiers - with their round-trip / minimality laws; SCTs as [log, over, form] with the clause
TrailingOctetsIgnored, the forms that are not a signature value and the RFC 6962 2.1.4 key policy: SctFormLaw),
MCPrecert.tla (case enumeration: layouts x criticality x issuer modes x field encodings - serial numbers by value
at the boundaries of the INTEGER encoding, both signs, 1/2/3/20/21 octets - x unknown-extension identifiers /
value lengths at the boundaries of their encodings x SCT kinds = log key / hash x signature form x signed entry;
laws as invariants, the model's verdict on every SCT, JSON export of cases and of the DER table).
Binding: every case is DER-encoded by the harness' own builder (cryptobyte), signed with real keys and replayed
into x509.BuildPrecertTBS / RemoveCTPoison / RemoveSCTList, ct.MerkleTreeLeafFromChain / FromRawChain /
ForEmbeddedSCT, ctutil.VerifySCT / VerifySCTWithVerifier / LeafHash, x509util SCT list helpers and
submission.ASN1MarshalSCTs; expected bytes = the builder applied to the model's expected TBS; expected SCT
verdicts = the model's; the specification's serial / length / subidentifier octets are compared with the builder's.
"""
import copy
import json

from vlib import Infra

LEVEL = "model_checking"

ASSUME = [
    "SHA-256 collision resistance and signature unforgeability (SCTs are signed with real P-256 / P-384 / P-521 / "
    "RSA-2048 / RSA-3072 log keys under SHA-256 / SHA-384 / SHA-512 over the independently encoded RFC 6962 3.2 "
    "signature input)",
    "trusted base of the expected bytes: golang.org/x/crypto/cryptobyte and the harness' own DER builder / RFC 6962 "
    "encoders (harness/c03/builder.go, harness/ref); TLA+ contributes the laws, the case space and the expected "
    "abstract result",
    "canonical TBSCertificates only (DER, RFC 5280 time rule: UTCTime through 2049, GeneralizedTime from 2050); "
    "extension lists of length <= 4 (quick) / 5 (thorough) over 8 extension kinds, at most one AKI; AKI forms: keyIdentifier only, keyIdentifier + authorityCertIssuer + "
    "authorityCertSerialNumber, issuer + serial without keyIdentifier (pre-issuer), absent",
    "named clauses recording the unchanged code where RFC 6962 is silent: EmptyExtensionsKept, AkiDropped, "
    "AkiAppended, AkiAbsent; TrailingOctetsIgnored (octets after a complete DER ECDSA value are not part of the "
    "signature: the wording of property C05) and the key policy of RFC 6962 2.1.4 (a verifier for another key only "
    "under the caller's opt-in) are taken over from C05",
    "serial numbers: 22 values at the boundaries of the two's complement encoding (both signs; 1, 2, 3, 20, 21 "
    "octets); unknown extensions with identifier arcs at the boundaries of the base-128 subidentifier (1..5 octets, "
    "joint first subidentifier 2.999) and values of 0..65536 octets at the boundaries of the length octets",
]


def corrupt(cases):
    """Seven corrupted expectations (the harness must flag each): order, AKI content (twice), verdict, SCT verdicts
    (twice), serial number."""
    out = []
    for c in cases:
        if c["build"]["k"] == "tbs" and len(c["build"]["exts"]) >= 2 and c["c"]["mode"] == "direct" \
                and c["build"]["exts"][0] != c["build"]["exts"][1]:
            x = copy.deepcopy(c)
            e = x["build"]["exts"]
            e[0], e[1] = e[1], e[0]
            out.append(x)
            break
    for c in cases:
        if c["clause"] == "AkiReplaced" and c["chain"]["k"] == "entry" and c["c"]["preAki"] == "k2" \
                and c["embedded"]["k"] == "entry" and c["build"]["k"] == "tbs":
            x = copy.deepcopy(c)
            for t in (x["build"], x["chain"]["tbs"], x["finalrmsct"], x["embedded"]["tbs"]):
                for e in t["exts"]:
                    if e[0] == "AKI":
                        e[2] = "k1"     # as if the AKI had not been rewritten
            out.append(x)
            break
    for c in cases:
        if c["clause"] == "AkiReplaced" and c["c"]["preAki"] == "k2full" and c["embedded"]["k"] == "entry" \
                and c["build"]["k"] == "tbs":
            x = copy.deepcopy(c)
            for t in (x["build"], x["chain"]["tbs"], x["finalrmsct"], x["embedded"]["tbs"]):
                for e in t["exts"]:
                    if e[0] == "AKI":
                        e[2] = "k2"     # as if only the key identifier of the pre-issuer's AKI were carried over
            out.append(x)
            break
    for c in cases:
        if c["rmpoison"]["k"] == "err" and c["rmpoison"]["why"] == "multiple":
            x = copy.deepcopy(c)
            x["rmpoison"] = copy.deepcopy(x["t"])
            i = [e[0] for e in x["t"]["exts"]].index("POISON")
            del x["rmpoison"]["exts"][i]      # as if the first of two poisons were to be removed
            out.append(x)
            break
    # the SCT dimension: as if octets after a DER ECDSA value made the signature invalid (embedded route), and as if
    # a value with content after s inside the SEQUENCE were a signature (precertificate route)
    for c in cases:
        idx = [i for i, k in enumerate(c["c"]["scts"]) if k["form"].startswith("trail") and k["over"] == "this"
               and c["sctemb"][i]["optin"]]
        if idx and c["embedded"]["k"] == "entry":
            x = copy.deepcopy(c)
            x["sctemb"][idx[0]] = {"plain": False, "optin": False}
            out.append(x)
            break
    for c in cases:
        idx = [i for i, k in enumerate(c["c"]["scts"]) if k["form"] == "inner" and k["over"] == "this"]
        if idx and c["chain"]["k"] == "entry":
            x = copy.deepcopy(c)
            x["sctchain"][idx[0]] = {"plain": True, "optin": True}
            out.append(x)
            break
    # the serial dimension: as if -128 were to come out as ff 80 (the expected TBS carries another serial number)
    for c in cases:
        if c["c"]["enc"]["serial"] == "m128" and c["build"]["k"] == "tbs" and c["c"]["mode"] == "direct":
            x = copy.deepcopy(c)
            x["build"]["serial"] = "m127"
            out.append(x)
            break
    if len(out) != 7:
        raise Infra("could not build the canary cases")
    return out


def run(ctx, replay=None):
    ctx.assumptions += ASSUME
    if replay:
        with open(replay) as f:
            rp = json.load(f)
        path = ctx.write_ndjson("replay.ndjson", [rp["replay"]["case"]])
        ctx.go_test("c03", run="TestReplay$", env={"VERIF_CASES": path, "VERIF_RANDOMIZE": "0"})
        return
    # 1. the laws over the whole enumeration + export of every case with the model's expected results
    r = ctx.tlc("codec", "MCPrecert", ctx.pick("MCPrecert.cfg", "MCPrecertFull.cfg"), workers=1, timeout=1500)
    cases = r.records.get("CASE", [])
    if not cases or len(cases) != r.distinct:
        raise Infra("TLC exported %d cases for %d states" % (len(cases), r.distinct))
    ctx.exhaustive = ("all %d cases of MCPrecert (%s) checked against the laws by TLC and replayed into the code"
                      % (len(cases), ctx.pick("MCPrecert.cfg", "MCPrecertFull.cfg")))
    der = r.records.get("DER", [])
    if len(der) != 1:
        raise Infra("TLC exported %d DER tables" % len(der))
    path = ctx.write_ndjson("cases.ndjson", cases)
    derpath = ctx.write_ndjson("der.ndjson", der)
    canary = ctx.write_ndjson("canary.ndjson", corrupt(cases))
    # 2. replay into the real code (field tags of the default-encoding cases are re-materialized at random per seed)
    ctx.go_test("c03", run="TestReplay$", env={"VERIF_CASES": path, "VERIF_CANARY": canary, "VERIF_DER": derpath,
                                               "VERIF_ROUNDS": ctx.pick(1, 3)}, timeout=2400)
