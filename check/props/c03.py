"""C03 - the precertificate route and the embedded-SCT route yield the identical log entry.

spec/codec/Precert.tla (abstract TBSCertificate = opaque field tags + extension list; RemoveExt,
BuildPrecertTBS, Final, the two routes' entries, SCT list framing; laws ExactlyOne, OthersUntouched,
BuildTouchesOnly, Commutes, SameEntry, SCTListRoundTrip; the DER primitives an implementation that re-encodes
the TBSCertificate writes afresh - INTEGER contents octets by value, definite lengths, object identifier
subidentifiers - with their round-trip / minimality laws; SCTs as [log, over, form] with the clause
TrailingOctetsIgnored, the forms that are not a signature value and the RFC 6962 2.1.4 key policy: SctFormLaw),
MCPrecert.tla (case enumeration: layouts x criticality x issuer modes x field encodings - serial numbers by value
at the boundaries of the INTEGER encoding, both signs, 1/2/3/20/21 octets - x unknown-extension identifiers /
value lengths at the boundaries of their encodings x SCT kinds = log key / hash x signature form x signed entry;
laws as invariants, the model's verdict on every SCT, JSON export of cases and of the DER table).
Binding: every case is DER-encoded by the harness' own builder (cryptobyte), signed with real keys and replayed
into x509.BuildPrecertTBS / RemoveCTPoison / RemoveSCTList, ct.MerkleTreeLeafFromChain / FromRawChain /
ForEmbeddedSCT, ctutil.VerifySCT / VerifySCTWithVerifier / LeafHash, x509util SCT list helpers and
submission.ASN1MarshalSCTs; expected bytes = the builder applied to the model's expected TBS; expected SCT
verdicts = the model's; the specification's serial / length / subidentifier octets are compared with the builder's.
Reading back (last sentence of the property): Precert.tla clause OwnOctetsOnly - a certificate as the record of its
OPTIONAL parts (version element, unique identifiers, extensions field, algorithm parameters), DecodeInto / Reported /
ReadAll with the parameter `carry` (FALSE = the specification, TRUE = the reader that leaves absent parts as the
previous certificate set them), the entry points (EntryPoints: singular / plural, certificate / TBSCertificate,
DER / PEM / leaf entry, everything / the SCT list alone) with CallsOf / ResultAt.  MCPrecertBundle.tla enumerates every sequence of
<= 3 (4) of nine certificate kinds; TLC checks the clause, REFUTES it for carry = TRUE (MCPrecertBundleRefute.cfg) and
exports per bundle what every position reads back and which fields a carrying reader gets wrong.  Binding: TestBundle
builds the kinds, reads every bundle through all nine entry points (x509.ParseCertificate / ParseCertificates /
ParseTBSCertificate, x509util.CertificateFromPEM / CertificatesFromPEM / ParseSCTsFromCertificate DER + PEM,
(*ct.MerkleTreeLeaf).X509Certificate / Precertificate) and
compares every position with the embedded list, the builder's identifiers and - field by field - the same octets read
alone; the replay of MCPrecert reads the chain of every final certificate through the same entry points.
"""
import copy
import json

from vlib import Infra

LEVEL = "model_checking"

ASSUME = [
    "SHA-256 collision resistance and signature unforgeability (SCTs are signed with real P-256 / P-384 / P-521 / "
    "RSA-2048 / RSA-3072 log keys under SHA-256 / SHA-384 / SHA-512 over the independently encoded RFC 6962 3.2 "
    "signature input)",
    "trusted base of the expected bytes: golang.org/x/crypto/cryptobyte and the harness' own DER builder / RFC 6962 "
    "encoders (harness/c03/builder.go, harness/ref); TLA+ contributes the laws, the case space and the expected "
    "abstract result",
    "canonical TBSCertificates only (DER, RFC 5280 time rule: UTCTime through 2049, GeneralizedTime from 2050); "
    "extension lists of length <= 4 (quick) / 5 (thorough) over 8 extension kinds, at most one AKI; AKI forms: keyIdentifier only, keyIdentifier + authorityCertIssuer + "
    "authorityCertSerialNumber, issuer + serial without keyIdentifier (pre-issuer), absent",
    "named clauses recording the unchanged code where RFC 6962 is silent: EmptyExtensionsKept, AkiDropped, "
    "AkiAppended, AkiAbsent; TrailingOctetsIgnored (octets after a complete DER ECDSA value are not part of the "
    "signature: the wording of property C05) and the key policy of RFC 6962 2.1.4 (a verifier for another key only "
    "under the caller's opt-in) are taken over from C05",
    "serial numbers: 22 values at the boundaries of the two's complement encoding (both signs; 1, 2, 3, 20, 21 "
    "octets); unknown extensions with identifier arcs at the boundaries of the base-128 subidentifier (1..5 octets, "
    "joint first subidentifier 2.999) and values of 0..65536 octets at the boundaries of the length octets",
    "reading back: nine certificate kinds (versions 1-3, unique identifiers, extensions field non-empty / empty / "
    "absent, SCT lists of two and of one SCT, RSA / ECDSA / Ed25519 algorithm identifiers), sequences of <= 3 (quick) "
    "/ 4 (thorough) of them; the unique identifiers and algorithm parameters are not fields of x509.Certificate and "
    "are observed only through the field-by-field comparison with the same octets read alone",
]


def corrupt(cases):
    """Seven corrupted expectations (the harness must flag each): order, AKI content (twice), verdict, SCT verdicts
    (twice), serial number."""
    out = []
    for c in cases:
        if c["build"]["k"] == "tbs" and len(c["build"]["exts"]) >= 2 and c["c"]["mode"] == "direct" \
                and c["build"]["exts"][0] != c["build"]["exts"][1]:
            x = copy.deepcopy(c)
            e = x["build"]["exts"]
            e[0], e[1] = e[1], e[0]
            out.append(x)
            break
    for c in cases:
        if c["clause"] == "AkiReplaced" and c["chain"]["k"] == "entry" and c["c"]["preAki"] == "k2" \
                and c["embedded"]["k"] == "entry" and c["build"]["k"] == "tbs":
            x = copy.deepcopy(c)
            for t in (x["build"], x["chain"]["tbs"], x["finalrmsct"], x["embedded"]["tbs"]):
                for e in t["exts"]:
                    if e[0] == "AKI":
                        e[2] = "k1"     # as if the AKI had not been rewritten
            out.append(x)
            break
    for c in cases:
        if c["clause"] == "AkiReplaced" and c["c"]["preAki"] == "k2full" and c["embedded"]["k"] == "entry" \
                and c["build"]["k"] == "tbs":
            x = copy.deepcopy(c)
            for t in (x["build"], x["chain"]["tbs"], x["finalrmsct"], x["embedded"]["tbs"]):
                for e in t["exts"]:
                    if e[0] == "AKI":
                        e[2] = "k2"     # as if only the key identifier of the pre-issuer's AKI were carried over
            out.append(x)
            break
    for c in cases:
        if c["rmpoison"]["k"] == "err" and c["rmpoison"]["why"] == "multiple":
            x = copy.deepcopy(c)
            x["rmpoison"] = copy.deepcopy(x["t"])
            i = [e[0] for e in x["t"]["exts"]].index("POISON")
            del x["rmpoison"]["exts"][i]      # as if the first of two poisons were to be removed
            out.append(x)
            break
    # the SCT dimension: as if octets after a DER ECDSA value made the signature invalid (embedded route), and as if
    # a value with content after s inside the SEQUENCE were a signature (precertificate route)
    for c in cases:
        idx = [i for i, k in enumerate(c["c"]["scts"]) if k["form"].startswith("trail") and k["over"] == "this"
               and c["sctemb"][i]["optin"]]
        if idx and c["embedded"]["k"] == "entry":
            x = copy.deepcopy(c)
            x["sctemb"][idx[0]] = {"plain": False, "optin": False}
            out.append(x)
            break
    for c in cases:
        idx = [i for i, k in enumerate(c["c"]["scts"]) if k["form"] == "inner" and k["over"] == "this"]
        if idx and c["chain"]["k"] == "entry":
            x = copy.deepcopy(c)
            x["sctchain"][idx[0]] = {"plain": True, "optin": True}
            out.append(x)
            break
    # the serial dimension: as if -128 were to come out as ff 80 (the expected TBS carries another serial number)
    for c in cases:
        if c["c"]["enc"]["serial"] == "m128" and c["build"]["k"] == "tbs" and c["c"]["mode"] == "direct":
            x = copy.deepcopy(c)
            x["build"]["serial"] = "m127"
            out.append(x)
            break
    if len(out) != 7:
        raise Infra("could not build the canary cases")
    return out


def corrupt_bundles(bundles):
    """Four corrupted expectations (TestBundle must flag each): the embedded list not read back, an extension less,
    another version, the extensions of the neighbour (what a carrying reader reports)."""
    out = []

    def first(pred, edit):
        for b in bundles:
            for i, e in enumerate(b["expect"]):
                if pred(b, i, e):
                    x = copy.deepcopy(b)
                    edit(x, i)
                    out.append(x)
                    return

    first(lambda b, i, e: e["sct"] != "none" and i > 0, lambda x, i: x["expect"][i].update(sct="none"))
    first(lambda b, i, e: len(e["exts"]) >= 2 and e["sct"] == "none", lambda x, i: x["expect"][i]["exts"].pop())
    first(lambda b, i, e: e["version"] == "v1" and i > 0, lambda x, i: x["expect"][i].update(version="v3"))
    first(lambda b, i, e: i > 0 and "exts" in b["carried"][i] and "sct" not in b["carried"][i],
          lambda x, i: x["expect"][i].update(exts=list(x["expect"][i - 1]["exts"])))
    if len(out) != 4:
        raise Infra("could not build the bundle canaries")
    return out


def bundles(ctx):
    """The reading clause OwnOctetsOnly: model check, refute for the carrying reader, replay every bundle."""
    cfg = ctx.pick("MCPrecertBundle.cfg", "MCPrecertBundleFull.cfg")
    r = ctx.tlc("codec", "MCPrecertBundle", cfg, workers=1, timeout=1500)
    bs = r.records.get("BUNDLE", [])
    if not bs or len(bs) != r.distinct:
        raise Infra("TLC exported %d bundles for %d states" % (len(bs), r.distinct))
    kinds = r.records.get("KINDS", [])[:1]
    if len(kinds) != 1:
        raise Infra("TLC exported no KINDS table")
    sens = sum(1 for b in bs for c in b["carried"] if c)
    if sens == 0:
        raise Infra("no bundle can tell a carrying reader from the specified one")
    # the clause is not vacuous: the reader it excludes violates it on this case space
    rv = ctx.tlc("codec", "MCPrecertBundle", "MCPrecertBundleRefute.cfg", workers=1, timeout=600,
                 expect_violation=True, count=False)
    if rv.violated != "BundleLaws":
        raise Infra("the carrying reader was not refuted (violated=%r)" % rv.violated)
    ctx.log("bundles: %d (%s), %d positions a carrying reader gets wrong" % (len(bs), cfg, sens))
    ctx.go_test("c03", run="TestBundle$", name="c03bundle", timeout=1800,
                env={"VERIF_BUNDLES": ctx.write_ndjson("bundles.ndjson", bs),
                     "VERIF_KINDS": ctx.write_ndjson("kinds.ndjson", kinds),
                     "VERIF_BUNDLE_CANARY": ctx.write_ndjson("bundle-canary.ndjson", corrupt_bundles(bs))})
    return len(bs), cfg


def run(ctx, replay=None):
    ctx.assumptions += ASSUME
    if replay:
        with open(replay) as f:
            rp = json.load(f)
        if "bundle" in rp["replay"]:
            ctx.go_test("c03", run="TestBundle$", name="c03bundle",
                        env={"VERIF_BUNDLES": ctx.write_ndjson("replay-bundle.ndjson", [rp["replay"]["bundle"]]),
                             "VERIF_KINDS": ctx.write_ndjson("replay-kinds.ndjson", [rp["replay"]["kinds"]])})
            return
        path = ctx.write_ndjson("replay.ndjson", [rp["replay"]["case"]])
        ctx.go_test("c03", run="TestReplay$", env={"VERIF_CASES": path, "VERIF_RANDOMIZE": "0"})
        return
    # 1. the laws over the whole enumeration + export of every case with the model's expected results
    r = ctx.tlc("codec", "MCPrecert", ctx.pick("MCPrecert.cfg", "MCPrecertFull.cfg"), workers=1, timeout=1500)
    cases = r.records.get("CASE", [])
    if not cases or len(cases) != r.distinct:
        raise Infra("TLC exported %d cases for %d states" % (len(cases), r.distinct))
    exhaustive = ("all %d cases of MCPrecert (%s) checked against the laws by TLC and replayed into the code"
                  % (len(cases), ctx.pick("MCPrecert.cfg", "MCPrecertFull.cfg")))
    ctx.exhaustive = exhaustive
    der = r.records.get("DER", [])
    if len(der) != 1:
        raise Infra("TLC exported %d DER tables" % len(der))
    path = ctx.write_ndjson("cases.ndjson", cases)
    derpath = ctx.write_ndjson("der.ndjson", der)
    canary = ctx.write_ndjson("canary.ndjson", corrupt(cases))
    # 2. replay into the real code (field tags of the default-encoding cases are re-materialized at random per seed)
    ctx.go_test("c03", run="TestReplay$", env={"VERIF_CASES": path, "VERIF_CANARY": canary, "VERIF_DER": derpath,
                                               "VERIF_ROUNDS": ctx.pick(1, 3)}, timeout=2400)
    # 3. the reading clause: bundles of certificate kinds x entry points
    nb, cfg = bundles(ctx)
    ctx.exhaustive = exhaustive + ("; all %d bundles of MCPrecertBundle (%s) checked against OwnOctetsOnly by TLC and read "
                                   "through every entry point" % (nb, cfg))
