#!/usr/bin/env python3
"""seedtest.py <dir with patch.diff, meta.json, demo> <PROP> [--keep] [--tier quick]

Confirms a seeded change (built by an independent sub-agent from the property text alone) in a scratch
worktree of /repo and runs the property's check against it:
  1. demonstration passes on the unchanged tree;
  2. the patch applies, the tree builds, the existing tests of the touched packages pass;
  3. the demonstration fails with the patch;
  4. `VERIF_REPO=<worktree> check.py <PROP>` -> exit code and violation fingerprints.
Prints a JSON summary; never touches /repo's working tree or the committed evidence.
"""
import glob
import json
import os
import re
import shutil
import subprocess
import sys

VERIF = os.path.dirname(os.path.dirname(os.path.abspath(__file__)))
ENV = dict(os.environ, GOFLAGS="-mod=mod", GOPROXY="off", GOSUMDB="off", GOTOOLCHAIN="local")


def sh(cmd, cwd, timeout=1800, env=None):
    p = subprocess.run(cmd, cwd=cwd, shell=True, stdout=subprocess.PIPE, stderr=subprocess.STDOUT, text=True,
                       timeout=timeout, env=env or ENV, errors="replace")
    return p.returncode, p.stdout


def main():
    src, prop = sys.argv[1], sys.argv[2]
    tier = "quick"
    if "--tier" in sys.argv:
        tier = sys.argv[sys.argv.index("--tier") + 1]
    meta = json.load(open(os.path.join(src, "meta.json")))
    wt = "/tmp/seedwt-%d" % os.getpid()
    res = {"property": prop, "source": src}
    rc, out = sh("git -C /repo worktree add -q %s HEAD" % wt, "/")
    if rc != 0:
        print(out)
        sys.exit(2)
    try:
        demos = [f for f in glob.glob(os.path.join(src, "*")) if f.endswith("_test.go")]
        placement = meta.get("demo_placement", "")
        demo_cmd = None
        demo_dst = None
        if demos:
            demo_file = demos[0]
            text = open(demo_file).read()
            pkg = re.search(r"^package (\w+)", text, re.M).group(1)
            base = pkg[:-5] if pkg.endswith("_test") else pkg
            # directory: a path with a directory named in the placement note, else the directory declaring that package
            pkgdir = None
            for tok in re.findall(r"([\w./-]+/[\w.-]+_test\.go)", placement):
                d = os.path.dirname(tok)
                d = re.sub(r"^(/tmp/seed[0-9]?/C\d+/|\./)", "", d)
                if os.path.isdir(os.path.join(wt, d)):
                    pkgdir = d
            if pkgdir is None:
                rc0, found = sh("grep -rl --include=*.go -E '^package %s$' . | grep -v _test.go | xargs -n1 dirname | sort | uniq -c | sort -rn | head -1" % base, wt)
                pkgdir = found.split()[-1].lstrip("./") if found.split() else "."
                pkgdir = pkgdir or "."
            demo_dst = os.path.join(wt, pkgdir, "zz_seed_demo_test.go")
            shutil.copy(demo_file, demo_dst)
            names = re.findall(r"^func (Test\w+)\(", text, re.M)
            race = " -race" if any("-race" in str(c) for c in meta.get("commands_run", [])) else ""
            demo_cmd = "go test -count=1%s -run '^(%s)$' ./%s" % (race, "|".join(names), pkgdir)
        res["demo_cmd"] = demo_cmd
        if demo_cmd:
            rc, out = sh(demo_cmd, wt)
            res["demo_passes_without_patch"] = rc == 0
            if rc != 0:
                res["demo_out_clean"] = out[-1500:]
            os.remove(demo_dst)
        rc, out = sh("git apply %s" % os.path.join(src, "patch.diff"), wt)
        res["patch_applies"] = rc == 0
        if rc != 0:
            res["apply_out"] = out[-800:]
            print(json.dumps(res, indent=1))
            return
        rc, out = sh("go build ./...", wt)
        res["builds"] = rc == 0
        rc2, changed = sh("git diff --name-only", wt)
        pkgs = sorted({"./" + (os.path.dirname(f) or ".") for f in changed.split() if f.endswith(".go") and not f.endswith("_test.go")})
        res["changed"] = changed.split()
        extra = {"./tls": ["./", "./x509util", "./ctutil"], "./asn1": ["./x509", "./x509util", "./"], "./x509": ["./x509util", "./ctutil", "./trillian/ctfe"],
                 "./jsonclient": ["./client"], "./scanner": ["./trillian/migrillian/core"], "./ctpolicy": ["./submission"], "./.": ["./ctutil", "./client", "./trillian/ctfe"]}
        allp = set(pkgs)
        for p in pkgs:
            allp.update(extra.get(p, []))
        rc, out = sh("go test -count=1 %s" % " ".join(sorted(allp)), wt, timeout=2400)
        res["existing_tests_pass"] = rc == 0
        if rc != 0:
            res["existing_tests_out"] = out[-1500:]
        if demo_cmd:
            shutil.copy(demos[0], demo_dst)
            rc, out = sh(demo_cmd, wt)
            res["demo_fails_with_patch"] = rc != 0
            os.remove(demo_dst)  # the demonstration is not part of the change
        env = dict(os.environ, VERIF_REPO=wt)
        rc, out = sh("python3 check/check.py %s --tier %s" % (prop, tier), VERIF, timeout=7200, env=env)
        res["check_exit"] = rc
        res["violations"] = re.findall(r"^  what: (.*)$", out, re.M)[:6]
        res["check_tail"] = out.splitlines()[-6:] if rc not in (0, 1) else []
        ev = os.path.join(VERIF, ".work", "evidence-" + os.path.basename(wt), "replay")
        fps = []
        for f in sorted(glob.glob(os.path.join(ev, "*.json")))[:8]:
            try:
                fps.append(json.load(open(f))["fingerprint"])
            except Exception:
                pass
        res["fingerprints"] = fps
        res["detected"] = rc == 1
    finally:
        if "--keep" not in sys.argv:
            sh("git -C /repo worktree remove --force %s" % wt, "/")
            shutil.rmtree(os.path.join(VERIF, ".work", "evidence-" + os.path.basename(wt)), ignore_errors=True)
    print(json.dumps(res, indent=1))


if __name__ == "__main__":
    main()
