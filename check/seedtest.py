#!/usr/bin/env python3
"""seedtest.py <dir with patch.diff, meta.json, demo> <PROP> [--keep] [--tier quick]

Confirms a seeded change (built by an independent sub-agent from the property text alone) in a scratch
worktree of /repo and runs the property's check against it:
  1. demonstration passes on the unchanged tree;
  2. the patch applies, the tree builds, the existing tests of the touched packages pass;
  3. the demonstration fails with the patch;
  4. `VERIF_REPO=<worktree> check.py <PROP>` -> exit code and violation fingerprints.
Prints a JSON summary; never touches /repo's working tree or the committed evidence.
"""
import glob
import json
import os
import re
import shutil
import subprocess
import sys

VERIF = os.path.dirname(os.path.dirname(os.path.abspath(__file__)))
ENV = dict(os.environ, GOFLAGS="-mod=mod", GOPROXY="off", GOSUMDB="off")


def sh(cmd, cwd, timeout=1800, env=None):
    p = subprocess.run(cmd, cwd=cwd, shell=True, stdout=subprocess.PIPE, stderr=subprocess.STDOUT, text=True,
                       timeout=timeout, env=env or ENV, errors="replace")
    return p.returncode, p.stdout


def main():
    src, prop = sys.argv[1], sys.argv[2]
    tier = "quick"
    if "--tier" in sys.argv:
        tier = sys.argv[sys.argv.index("--tier") + 1]
    meta = json.load(open(os.path.join(src, "meta.json")))
    wt = "/tmp/seedwt-%d" % os.getpid()
    res = {"property": prop, "source": src}
    rc, out = sh("git -C /repo worktree add -q %s HEAD" % wt, "/")
    if rc != 0:
        print(out)
        sys.exit(2)
    try:
        demos = [f for f in glob.glob(os.path.join(src, "*")) if f.endswith("_test.go") or os.path.isdir(f)]
        placement = meta.get("demo_placement", "")
        m = re.search(r"([\w./-]+_test\.go)", placement)
        demo_cmd = None
        if m and demos:
            rel = m.group(1)
            rel = rel[rel.index(os.sep) + 1:] if rel.startswith("/tmp/") else rel
            demo_file = [d for d in demos if d.endswith("_test.go")][0]
            dst = os.path.join(wt, rel)
            os.makedirs(os.path.dirname(dst), exist_ok=True)
            shutil.copy(demo_file, dst)
            names = re.findall(r"^func (Test\w+)\(", open(demo_file).read(), re.M)
            pkgdir = os.path.dirname(rel) or "."
            demo_cmd = "go test -count=1 -run '^(%s)$' ./%s" % ("|".join(names), pkgdir)
        res["demo_cmd"] = demo_cmd
        if demo_cmd:
            rc, out = sh(demo_cmd, wt)
            res["demo_passes_without_patch"] = rc == 0
            if rc != 0:
                res["demo_out_clean"] = out[-1500:]
        rc, out = sh("git apply %s" % os.path.join(src, "patch.diff"), wt)
        res["patch_applies"] = rc == 0
        if rc != 0:
            res["apply_out"] = out[-800:]
            print(json.dumps(res, indent=1))
            return
        rc, out = sh("go build ./...", wt)
        res["builds"] = rc == 0
        rc2, changed = sh("git diff --name-only", wt)
        pkgs = sorted({"./" + (os.path.dirname(f) or ".") for f in changed.split() if f.endswith(".go") and not f.endswith("_test.go")})
        res["changed"] = changed.split()
        extra = {"./tls": ["./", "./x509util", "./ctutil"], "./asn1": ["./x509", "./x509util", "./"], "./x509": ["./x509util", "./ctutil", "./trillian/ctfe"],
                 "./jsonclient": ["./client"], "./scanner": ["./trillian/migrillian/core"], "./ctpolicy": ["./submission"], "./.": ["./ctutil", "./client", "./trillian/ctfe"]}
        allp = set(pkgs)
        for p in pkgs:
            allp.update(extra.get(p, []))
        rc, out = sh("go test -count=1 %s" % " ".join(sorted(allp)), wt, timeout=2400)
        res["existing_tests_pass"] = rc == 0
        if rc != 0:
            res["existing_tests_out"] = out[-1500:]
        if demo_cmd:
            rc, out = sh(demo_cmd, wt)
            res["demo_fails_with_patch"] = rc != 0
            # remove the demonstration before the check runs (it is not part of the change)
            os.remove(os.path.join(wt, re.search(r"([\w./-]+_test\.go)", meta.get("demo_placement", "")).group(1)))
        env = dict(os.environ, VERIF_REPO=wt)
        rc, out = sh("python3 check/check.py %s --tier %s" % (prop, tier), VERIF, timeout=7200, env=env)
        res["check_exit"] = rc
        res["violations"] = re.findall(r"^  what: (.*)$", out, re.M)[:6]
        res["check_tail"] = out.splitlines()[-6:] if rc not in (0, 1) else []
        ev = os.path.join(VERIF, ".work", "evidence-" + os.path.basename(wt), "replay")
        fps = []
        for f in sorted(glob.glob(os.path.join(ev, "*.json")))[:8]:
            try:
                fps.append(json.load(open(f))["fingerprint"])
            except Exception:
                pass
        res["fingerprints"] = fps
        res["detected"] = rc == 1
    finally:
        if "--keep" not in sys.argv:
            sh("git -C /repo worktree remove --force %s" % wt, "/")
            shutil.rmtree(os.path.join(VERIF, ".work", "evidence-" + os.path.basename(wt)), ignore_errors=True)
    print(json.dumps(res, indent=1))


if __name__ == "__main__":
    main()
