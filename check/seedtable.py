#!/usr/bin/env python3
"""Prints the DESIGN.md table of the seeded changes m<lo>..m<hi> from seeded/*/meta.json (+ first-pass results)."""
import glob, json, os, re, sys
VERIF = os.path.dirname(os.path.dirname(os.path.abspath(__file__)))
lo, hi = int(sys.argv[1]), int(sys.argv[2])
first = {}
for f in glob.glob(os.path.join(VERIF, "check", "firstpass", "*.json")):
    try:
        r = json.load(open(f))
    except Exception:
        continue
    first[os.path.basename(f)[:-5]] = "caught" if r.get("detected") else ("infra" if r.get("check_exit") == 2 else "missed")
rows = []
for d in sorted(glob.glob(os.path.join(VERIF, "seeded", "C*-m*")), key=lambda p: (p.split("/")[-1].split("-")[0], int(p.split("-m")[-1]))):
    name = os.path.basename(d)
    k = int(name.split("-m")[1])
    if not lo <= k <= hi:
        continue
    m = json.load(open(os.path.join(d, "meta.json")))
    what = re.sub(r"\s+", " ", m.get("what_breaks", "")).replace("|", "/")
    files = ", ".join(m.get("files_changed", []))
    c = m.get("confirmed_by_coordinator", {})
    fp = (c.get("fingerprints") or ["-"])[0].replace("|", "/")
    fpass = first.get(name, "?")
    note = m.get("note", "")
    if fpass != "caught" and note:
        note = note.replace("|", "/")
        fpass = ("missed " + note[len("missed at first pass "):]) if note.startswith("missed at first pass ") else fpass + ": " + note
    rows.append("| %s | %s: %s... | `%s` | %s |" % (name, files, what[:170], fp[:150], fpass))
print("| change | what it breaks (sub-agent's words, shortened) | first fingerprint that reports it now | first pass |")
print("|---|---|---|---|")
print("\n".join(rows))
