//go:build go1.25

// Package c20 binds spec/migrate/Migrillian.tla to the real migrillian Controller
// (trillian/migrillian/core) under testing/synctest virtual time.
//
// Everything the Controller talks to is an in-process fake guarded by ONE mutex (World.mu):
// the source CT log (http.RoundTripper under the real client.LogClient: signed STHs, entries,
// consistency proofs computed by harness/ref), the pre-ordered Trillian backend
// (trillian.TrillianLogClient) and the master election.  Trace events are emitted under that
// mutex, so their order is the order in which the fakes' critical sections took effect.
package c20

import (
	"bytes"
	"context"
	"crypto/ecdsa"
	"crypto/elliptic"
	"crypto/rand"
	"crypto/sha256"
	"encoding/base64"
	"encoding/binary"
	"encoding/json"
	"fmt"
	"io"
	mrand "math/rand"
	"net/http"
	"strconv"
	"strings"
	"sync"
	"time"

	"github.com/google/trillian"
	"github.com/google/trillian/types"
	"github.com/google/trillian/util/election2"
	"google.golang.org/genproto/googleapis/rpc/status"
	"google.golang.org/grpc"
	"google.golang.org/grpc/codes"
	gstatus "google.golang.org/grpc/status"

	"verifharness/pki"
	"verifharness/ref"
	"verifharness/vh"
)

// MaxN is the largest source size used (entries are generated once per process).
const MaxN = 8

// Entry is one source log entry with what the harness knows about it by construction.
type Entry struct {
	LeafInput []byte
	ExtraData []byte
	CertData  []byte // the DER whose SHA-256 CTFE uses as identity hash (leaf cert / submitted precert)
	Bad       bool   // certificate bytes do not parse
	Precert   bool
}

// Pool holds, per index, a good and an unparsable entry for the honest history ("H") and for the
// alternative history ("F") a misbehaving source may serve.
type Pool struct {
	Key  *ecdsa.PrivateKey
	DER  []byte // SubjectPublicKeyInfo of the log key
	ents map[string]*Entry
}

func pkey(fam string, i int, bad bool) string { return fmt.Sprintf("%s/%d/%v", fam, i, bad) }

// NewPool generates the log key and the entries.
func NewPool(rng *mrand.Rand) (*Pool, error) {
	k, err := ecdsa.GenerateKey(elliptic.P256(), rand.Reader)
	if err != nil {
		return nil, err
	}
	_, der, err := ref.KeyID(&k.PublicKey)
	if err != nil {
		return nil, err
	}
	p := &Pool{Key: k, DER: der, ents: map[string]*Entry{}}
	root := pki.NewRoot(pki.Opts{CN: "c20 root"})
	inter := root.Issue(pki.Opts{CN: "c20 inter", IsCA: true})
	junk := func(n int) []byte {
		b := make([]byte, n)
		rng.Read(b)
		b[0] = 0x30 // looks like a SEQUENCE, then nonsense
		return b
	}
	for _, fam := range []string{"H", "F"} {
		for i := 0; i < MaxN; i++ {
			ts := uint64(1700000000000 + i)
			if fam == "F" {
				ts += 500
			}
			for _, bad := range []bool{false, true} {
				e := &Entry{Bad: bad, Precert: i%3 == 1}
				cn := fmt.Sprintf("%s%d.c20.example", strings.ToLower(fam), i)
				switch {
				case !e.Precert && !bad:
					leaf := inter.Issue(pki.Opts{CN: cn, DNS: []string{cn}})
					e.CertData = leaf.DER
					e.LeafInput = ref.MerkleTreeLeaf(ts, ref.Entry{Type: ref.X509Entry, Cert: leaf.DER}, nil)
					e.ExtraData = ref.CertChain(inter.DER, root.DER)
				case !e.Precert && bad:
					g := junk(40 + i)
					if i%2 == 0 { // a real certificate cut short
						g = inter.Issue(pki.Opts{CN: cn}).DER
						g = g[:len(g)/2]
					}
					e.CertData = g
					e.LeafInput = ref.MerkleTreeLeaf(ts, ref.Entry{Type: ref.X509Entry, Cert: g}, nil)
					e.ExtraData = ref.CertChain(inter.DER, root.DER)
				case e.Precert && !bad:
					pre := inter.Issue(pki.Opts{CN: cn, DNS: []string{cn}, Poison: "ok"})
					re, err := ref.EntryForChain([][]byte{pre.DER, inter.DER, root.DER}, false)
					if err != nil {
						return nil, err
					}
					e.CertData = pre.DER
					e.LeafInput = ref.MerkleTreeLeaf(ts, re, nil)
					e.ExtraData = ref.PrecertChainEntry(pre.DER, inter.DER, root.DER)
				default:
					g := junk(60 + i)
					e.CertData = junk(50 + i)
					e.LeafInput = ref.MerkleTreeLeaf(ts, ref.Entry{Type: ref.PrecertEntry, IssuerKeyHash: inter.SPKIHash(), TBS: g}, nil)
					e.ExtraData = ref.PrecertChainEntry(e.CertData, inter.DER, root.DER)
				}
				p.ents[pkey(fam, i, bad)] = e
			}
		}
	}
	return p, nil
}

// Cfg is one scenario: the counterpart of the specification's constants.
type Cfg struct {
	Src0       int    `json:"src0"`    // source size at the start
	Growth     int    `json:"growth"`  // how much it may grow
	Ahead      int    `json:"ahead"`   // entries the source's get-entries serves beyond the STH it announces (lagging front end)
	Bad        []int  `json:"bad"`     // indices of unparsable entries
	DestLen    int    `json:"destLen"` // leaves initially present at the destination (indices 0..DestLen-1, honest history)
	DestInt    int    `json:"destInt"` // of which integrated
	Batch      int    `json:"batch"`   // get-entries batch size
	Fetchers   int    `json:"fetchers"`
	Submitters int    `json:"submitters"`
	Chan       int    `json:"chan"`   // ChannelSize
	Cont       bool   `json:"cont"`   // continuous mode
	Start      int    `json:"start"`  // start_index: -1 (= destination tree size), 0, inside, equal to or beyond the STH (continuous mode ignores it)
	End        int    `json:"end"`    // end_index: 0 (none), inside, equal to or beyond the STH (continuous mode ignores it)
	Forked     bool   `json:"forked"` // the source serves history F, which shares only its first ForkAt leaves with H
	ForkAt     int    `json:"forkAt"`
	IDFunc     string `json:"idfunc"` // "cert" | "index"
	Mode       string `json:"mode"`   // "run" (Controller.Run) | "master" (RunWhenMaster, scripted election) | "noop" (RunWhenMaster, election2.NoopFactory)
	// Lag is the signer's schedule (specification: cfg.lag, SignerAwake): the destination queues what AddSequencedLeaves
	// brings, its signed root moves only when the signer integrates - and the signer sleeps until the migrator has asked
	// for the root more than Lag times (0: it works whenever the environment lets it).  Replayed behaviours carry the
	// root sizes themselves (Faults.RootAt), which says the same thing pass by pass.
	Lag int `json:"lag"`
}

// inRange: index i belongs to the job the configuration describes (specification: InRange).
func (c Cfg) inRange(i int) bool {
	return c.Cont || (i >= c.Start && (c.End == 0 || i < c.End))
}

// rangeClass names the configured range relative to the STH of a pass ("" for the default configuration).
func (c Cfg) rangeClass(sth int) string {
	if (c.Start == 0 || c.Start == -1) && c.End == 0 && c.Ahead == 0 {
		return ""
	}
	rel := func(v int) string {
		switch {
		case v < sth:
			return "inside"
		case v == sth:
			return "equal"
		}
		return "beyond"
	}
	s, e := "0", "none"
	if c.Start < 0 {
		s = "tree"
	} else if c.Start > 0 {
		s = rel(c.Start)
	}
	if c.End > 0 {
		e = rel(c.End)
	}
	a := "0"
	if c.Ahead > 0 {
		a = "+"
	}
	return fmt.Sprintf("range:cont=%v:start=%s:end=%s:ahead=%s", c.Cont, s, e, a)
}

func (c Cfg) isBad(i int) bool {
	for _, b := range c.Bad {
		if b == i {
			return true
		}
	}
	return false
}

// Faults is the scripted misbehaviour of the environment; every script is a counted list, consumed
// per key in call order.  Keys are "<pass>:<start>" (pass = number of GetRoot calls so far).
type Faults struct {
	Fetch map[string][]int `json:"fetch"` // get-entries starting at <start>: k>0 = return only k entries, 0 = as asked, -1 = HTTP 500, -2 = HTTP 429,
	// -3/-4/-5 = the empty page: 200 with zero entries, spelled {"entries":[]} / {"entries":null} / {}
	Add  map[string][]string `json:"add"`  // AddSequencedLeaves of the batch starting at <start>: gRPC code names, then OK
	Root map[string][]string `json:"root"` // key "<pass>": GetLatestSignedLogRoot codes
	STH  map[string][]int    `json:"sth"`  // key "<pass>": HTTP status codes for get-sth
	Cons map[string][]int    `json:"cons"` // key "<pass>": HTTP status codes for get-sth-consistency
	// environment actions attached to the n-th fake call of a pass (key "<pass>:<n>", n from 1), executed before the call is served
	Env map[string][]string `json:"env"` // "grow", "integrate", "revoke", "cancel"
	// replay of specification behaviours: what GetRoot / get-sth of pass <pass> answered in the behaviour
	RootAt map[string]int `json:"rootAt"`
	SizeAt map[string]int `json:"sizeAt"`
	Replay bool           `json:"replay"` // the environment acts only as scripted (no spontaneous growth / integration)
}

func cloneFaults(f Faults) Faults {
	b, _ := json.Marshal(f)
	var g Faults
	_ = json.Unmarshal(b, &g)
	g.init()
	return g
}

func (f *Faults) init() {
	if f.Fetch == nil {
		f.Fetch = map[string][]int{}
	}
	if f.Add == nil {
		f.Add = map[string][]string{}
	}
	if f.Root == nil {
		f.Root = map[string][]string{}
	}
	if f.STH == nil {
		f.STH = map[string][]int{}
	}
	if f.Cons == nil {
		f.Cons = map[string][]int{}
	}
	if f.Env == nil {
		f.Env = map[string][]string{}
	}
}

type stored struct {
	val, extra, id []byte
}

// World is one scenario instance: source log, destination backend, election, monitor.
type World struct {
	mu   sync.Mutex
	P    *Pool
	C    Cfg
	F    Faults
	F0   Faults // as scripted (F is consumed)
	Rec  *vh.Recorder
	Rep  *vh.Report
	T    int // trace number
	Seed int64

	srcSize int
	grown   int
	dest    map[int64]*stored
	destInt int

	// election
	master   bool
	mwait    chan struct{} // closed when mastership is (re)gained
	mcancel  []context.CancelFunc
	Cancel   context.CancelFunc // cancels the context the Controller runs under
	canceled bool

	// monitor state (per pass)
	pass         int
	calls        int    // fake calls in this pass
	rootSize     int    // what GetRoot answered in this pass
	rootHash     []byte // and the root
	sthSize      int    // STH served in this pass (-1: none yet)
	sthRoot      []byte
	consOK       bool           // a valid consistency proof root->sth was served in this pass
	consBad      bool           // an invalid one was
	maxVerified  int            // largest STH size of a pass that passed the gate
	quotaOpen    map[string]int // batch key -> ResourceExhausted replies not yet followed by a retry
	quotaAt      map[string]time.Time
	quotaSeen    int
	passTerminal bool // a fault that legitimately ends the current pass was injected (fatal code, cancel, revoked mastership, failed root/sth/cons)
	anyTerminal  bool // ... in any pass
	lastIdle     bool // the last pass saw an STH not larger than its position (nothing to do)
	events       int
	badRange     int
	addOK        int
	emptyPages   int // empty get-entries pages served
	emptyAdds    int // AddSequencedLeaves requests without leaves refused
	endBeyond    int // one-shot passes whose explicit end_index lay beyond the STH while the source served entries beyond that STH
	rangePasses  int // passes run under a non-default range configuration
	kinds        map[string]bool

	// one run of the controller (Controller.Run from its start: the specification's ghost subm).  The harness cannot see
	// Run being called again, but it knows every reason for which a pass may fail (it injects them): a pass that saw none
	// of them succeeded, and Run went on to the next round with its position.
	subm       map[int64]bool // indices submitted with an OK answer in this run
	runDirty   bool           // a reason to end the run has occurred: the next root request belongs to a new run
	runPos     int            // the position the rounds of this run have reached (largest STH of a pass that saw no such reason)
	lagRounds  int            // rounds started with the root behind the run's position and the source grown beyond it
	lagEntries int            // entries the signer had not integrated when such a round started
	repeats    int
	lastRoot   time.Time // virtual time of the last root request
	spin       int       // root requests in a row without any virtual time passing
}

// NewWorld creates the scenario.
func NewWorld(p *Pool, c Cfg, f Faults, rec *vh.Recorder, rep *vh.Report, t int) *World {
	f.init()
	w := &World{P: p, C: c, F: f, F0: cloneFaults(f), Rec: rec, Rep: rep, T: t, srcSize: c.Src0, dest: map[int64]*stored{}, destInt: c.DestInt,
		master: true, mwait: make(chan struct{}), sthSize: -1, quotaOpen: map[string]int{}, quotaAt: map[string]time.Time{}, kinds: map[string]bool{},
		subm: map[int64]bool{}}
	close(w.mwait)
	for i := 0; i < c.DestLen; i++ {
		e := w.entry("H", i)
		w.dest[int64(i)] = &stored{e.LeafInput, e.ExtraData, w.refID(int64(i), e)}
	}
	w.maxVerified = c.DestLen
	return w
}

// served is the history the source serves.
func (w *World) served() string {
	if w.C.Forked {
		return "F"
	}
	return "H"
}

func (w *World) entry(fam string, i int) *Entry {
	if fam == "F" && i < w.C.ForkAt {
		fam = "H"
	}
	return w.P.ents[pkey(fam, i, w.C.isBad(i))]
}

// refID is the identity hash the configuration promises (configpb.IdentityFunction):
// SHA256_CERT_DATA = SHA-256 of the certificate DER (as CTFE does: leaf certificate, or the submitted
// precertificate); SHA256_LEAF_INDEX = SHA-256 of the leaf index (8 bytes little endian: named clause
// LeafIndexEncoding, the proto comment does not fix the encoding).
func (w *World) refID(index int64, e *Entry) []byte {
	if w.C.IDFunc == "index" {
		var b [8]byte
		binary.LittleEndian.PutUint64(b[:], uint64(index))
		h := sha256.Sum256(b[:])
		return h[:]
	}
	h := sha256.Sum256(e.CertData)
	return h[:]
}

func (w *World) srcTree(n int) *ref.Tree {
	t := ref.NewTree()
	for i := 0; i < n; i++ {
		t.Append(w.entry(w.served(), i).LeafInput)
	}
	return t
}

func (w *World) destRoot(n int) []byte {
	t := ref.NewTree()
	for i := 0; i < n; i++ {
		t.Append(w.dest[int64(i)].val)
	}
	return t.Root(n)
}

func (w *World) contiguous() int {
	n := 0
	for w.dest[int64(n)] != nil {
		n++
	}
	return n
}

func (w *World) emit(ev map[string]any) {
	ev["t"] = w.T
	w.events++
	w.Rec.Emit(ev)
}

func (w *World) ctxt() map[string]any {
	return map[string]any{"cfg": w.C, "faults": w.F0, "trace": w.T, "seed": w.Seed}
}

func pop[T any](m map[string][]T, key string) (T, bool) {
	var zero T
	l := m[key]
	if len(l) == 0 {
		return zero, false
	}
	m[key] = l[1:]
	return l[0], true
}

// hook runs at the start of every fake call (under mu): scripted environment actions.
func (w *World) hook() {
	w.calls++
	acts := w.F.Env[fmt.Sprintf("%d:%d", w.pass, w.calls)]
	delete(w.F.Env, fmt.Sprintf("%d:%d", w.pass, w.calls))
	for _, a := range acts {
		w.envLocked(a)
	}
}

// Env performs an environment action from the driver.
func (w *World) Env(a string) {
	w.mu.Lock()
	defer w.mu.Unlock()
	w.envLocked(a)
}

func (w *World) envLocked(a string) {
	switch a {
	case "grow":
		if w.grown < w.C.Growth {
			w.grown++
			w.srcSize++
			w.emit(map[string]any{"ev": "Grow", "size": w.srcSize})
		}
	case "integrate":
		if w.signerAwake() {
			w.integrateOne()
		}
	case "integrateall":
		if c := w.contiguous(); w.destInt < c && w.signerAwake() {
			w.destInt = c
			w.emit(map[string]any{"ev": "Integrate", "size": w.destInt})
		}
	case "revoke":
		if w.C.Mode == "master" && w.master && !w.canceled {
			w.master = false
			w.mwait = make(chan struct{})
			for _, c := range w.mcancel {
				c()
			}
			w.mcancel = nil
			w.passTerminal = true // losing mastership legitimately ends the pass; completion is still promised
			w.runDirty = true
			w.emit(map[string]any{"ev": "Master", "on": false})
		}
	case "regain":
		if !w.master {
			w.master = true
			close(w.mwait)
			w.emit(map[string]any{"ev": "Master", "on": true})
		}
	case "cancel":
		if !w.canceled {
			w.canceled = true
			w.setTerminal()
			w.emit(map[string]any{"ev": "Cancel"})
			w.Cancel()
		}
	}
}

// signerAwake: the signer's schedule (specification: SignerAwake).
func (w *World) signerAwake() bool { return w.pass > w.C.Lag }

// integrateOne: the signer integrates one queued leaf (the root moves by one).
func (w *World) integrateOne() {
	if c := w.contiguous(); w.destInt < c {
		w.destInt++
		w.emit(map[string]any{"ev": "Integrate", "size": w.destInt})
	}
}

// newRunLocked: Controller.Run starts (again): it knows nothing of what an earlier run submitted.
func (w *World) newRunLocked() {
	w.subm = map[int64]bool{}
	w.runPos, w.runDirty = 0, false
}

// ---------------------------------------------------------------- source log (http.RoundTripper)

// RoundTrip serves get-sth, get-sth-consistency and get-entries of the source log.
func (w *World) RoundTrip(req *http.Request) (*http.Response, error) {
	w.mu.Lock()
	defer w.mu.Unlock()
	if err := req.Context().Err(); err != nil {
		return nil, err // a cancelled request never reaches the log
	}
	w.hook()
	q := req.URL.Query()
	code, body := 404, []byte("not found")
	switch {
	case strings.HasSuffix(req.URL.Path, "/ct/v1/get-sth"):
		code, body = w.getSTH()
	case strings.HasSuffix(req.URL.Path, "/ct/v1/get-sth-consistency"):
		first, _ := strconv.Atoi(q.Get("first"))
		second, _ := strconv.Atoi(q.Get("second"))
		code, body = w.getConsistency(first, second)
	case strings.HasSuffix(req.URL.Path, "/ct/v1/get-entries"):
		start, _ := strconv.Atoi(q.Get("start"))
		end, _ := strconv.Atoi(q.Get("end"))
		code, body = w.getEntries(start, end)
	}
	return &http.Response{StatusCode: code, Status: fmt.Sprintf("%d %s", code, http.StatusText(code)), Proto: "HTTP/1.1", ProtoMajor: 1, ProtoMinor: 1,
		Header: http.Header{"Content-Type": []string{"application/json"}}, Body: io.NopCloser(bytes.NewReader(body)),
		ContentLength: int64(len(body)), Request: req}, nil
}

func b64(b []byte) string { return base64.StdEncoding.EncodeToString(b) }

func (w *World) getSTH() (int, []byte) {
	if st, ok := pop(w.F.STH, strconv.Itoa(w.pass)); ok {
		w.setTerminal()
		w.emit(map[string]any{"ev": "STH", "code": "ERR", "size": 0})
		return st, []byte("injected")
	}
	if w.sthSize >= 0 {
		w.Rep.Violate("bounded:second-sth-in-pass", "the migrator asked the source for a second STH within one pass; entries beyond the STH it verified may be fetched", w.ctxt())
	}
	if want, ok := w.F.SizeAt[strconv.Itoa(w.pass)]; ok {
		for w.srcSize < want && w.grown < w.C.Growth {
			w.envLocked("grow")
		}
	}
	n := w.srcSize
	root := w.srcTree(n).Root(n)
	ts := uint64(1700000100000 + w.pass)
	sig, err := ref.Sign(w.P.Key, ref.STHSignatureInput(ts, uint64(n), root))
	if err != nil {
		panic(err)
	}
	w.sthSize, w.sthRoot = n, root
	w.lastIdle = false
	if w.C.Cont && !w.runDirty && w.rootSize < w.runPos && n > w.runPos {
		// a later round of a run: the root still lags behind what the earlier rounds submitted, and there is new work
		w.lagRounds++
		w.lagEntries += w.runPos - w.rootSize
		w.kinds["lag:root-behind-position:new-entries"] = true
	}
	if rc := w.C.rangeClass(n); rc != "" {
		w.kinds[rc] = true
		w.rangePasses++
		if !w.C.Cont && w.C.End > n && w.C.Ahead > 0 {
			w.endBeyond++
		}
	}
	w.emit(map[string]any{"ev": "STH", "code": "OK", "size": n})
	b, _ := json.Marshal(map[string]any{"tree_size": n, "timestamp": ts, "sha256_root_hash": b64(root), "tree_head_signature": b64(sig)})
	return 200, b
}

func (w *World) getConsistency(first, second int) (int, []byte) {
	if st, ok := pop(w.F.Cons, strconv.Itoa(w.pass)); ok {
		w.setTerminal()
		w.emit(map[string]any{"ev": "Cons", "first": first, "second": second, "code": "ERR", "valid": false})
		return st, []byte("injected")
	}
	if first < 0 || second > w.srcSize+w.C.Ahead || first > second {
		w.runDirty = true
		w.emit(map[string]any{"ev": "Cons", "first": first, "second": second, "code": "ERR", "valid": false})
		return 400, []byte("bad range")
	}
	proof := w.srcTree(second).Consistency(first, second)
	// does this proof link the destination's root to the STH of this pass?  Judged by the reference verifier.
	valid := false
	if first <= w.contiguous() && w.sthSize == second {
		valid = ref.VerifyConsistency(uint64(first), uint64(second), w.destRoot(first), w.sthRoot, proof) == nil
	}
	if first == w.rootSize && second == w.sthSize {
		if valid {
			w.consOK = true
		} else {
			w.consBad = true
		}
	}
	w.kinds[fmt.Sprintf("cons:%v", valid)] = true
	if !valid {
		w.runDirty = true // the migrator must refuse: the pass, and with it the run, ends
	}
	w.emit(map[string]any{"ev": "Cons", "first": first, "second": second, "code": "OK", "valid": valid})
	ps := make([]string, len(proof))
	for i, p := range proof {
		ps[i] = b64(p)
	}
	b, _ := json.Marshal(map[string]any{"consistency": ps})
	return 200, b
}

func (w *World) getEntries(start, end int) (int, []byte) {
	reqEnd := end
	key := fmt.Sprintf("%d:%d", w.pass, start)
	empty := 0
	if k, ok := pop(w.F.Fetch, key); ok && (k == -1 || k == -2) {
		st := 500
		if k == -2 {
			st = 429
		}
		w.kinds["fetch:err"] = true
		w.emit(map[string]any{"ev": "Fetch", "start": start, "end": end, "code": "ERR", "n": 0})
		return st, []byte("injected")
	} else if ok && k <= -3 {
		empty = k
	} else if ok && k > 0 && k < end-start+1 {
		end = start + k - 1 // short read
		w.kinds[fmt.Sprintf("fetch:short:%d/%d", k, reqEnd-start+1)] = true
	}
	// the log serves what it has, which may be more than the STH it announced covers (Cfg.Ahead; growth during the pass)
	have := w.srcSize + w.C.Ahead
	if start < 0 || start >= have {
		w.emit(map[string]any{"ev": "Fetch", "start": start, "end": reqEnd, "code": "ERR", "n": 0})
		// the fetcher retries such a request at once and for ever: stop a runaway run (counted, not timed)
		// (every 50 such requests: a restarted process may run away again)
		if w.badRange++; w.badRange%50 == 0 {
			w.Rep.Violate("fetch:runaway-beyond-source", fmt.Sprintf("get-entries starting at %d asked 50 times although the source (serving %d entries, STH of this pass %d) has no such entry", start, have, w.sthSize), w.ctxt())
			w.envLocked("cancel")
		}
		return 400, []byte("bad range")
	}
	if empty != 0 {
		// the extreme short read: 200 and no entries (a lagging frontend); the same request is served when asked again
		w.kinds["fetch:empty"] = true
		w.emptyPages++
		w.emit(map[string]any{"ev": "Fetch", "start": start, "end": reqEnd, "code": "OK", "n": 0})
		return 200, []byte([]string{`{"entries":[]}`, `{"entries":null}`, `{}`}[(-empty-3)%3])
	}
	if end >= have {
		end = have - 1
	}
	type le struct {
		LeafInput string `json:"leaf_input"`
		ExtraData string `json:"extra_data"`
	}
	var out []le
	for i := start; i <= end; i++ {
		e := w.entry(w.served(), i)
		out = append(out, le{b64(e.LeafInput), b64(e.ExtraData)})
	}
	w.emit(map[string]any{"ev": "Fetch", "start": start, "end": reqEnd, "code": "OK", "n": len(out)})
	b, _ := json.Marshal(map[string]any{"entries": out})
	return 200, b
}

// ---------------------------------------------------------------- destination backend

// Backend is the reference pre-ordered log: trillian.TrillianLogClient.
type Backend struct {
	trillian.TrillianLogClient // the other RPCs are not used by the migrator (nil: a call would panic)
	W                          *World
}

func codeByName(n string) codes.Code {
	for c := codes.OK; c <= codes.Unauthenticated; c++ {
		if c.String() == n {
			return c
		}
	}
	return codes.Unknown
}

// GetLatestSignedLogRoot returns the root over the integrated prefix.
func (b *Backend) GetLatestSignedLogRoot(ctx context.Context, in *trillian.GetLatestSignedLogRootRequest, _ ...grpc.CallOption) (*trillian.GetLatestSignedLogRootResponse, error) {
	w := b.W
	w.mu.Lock()
	defer w.mu.Unlock()
	if err := ctx.Err(); err != nil {
		return nil, gstatus.FromContextError(err).Err() // a cancelled RPC never reaches the backend
	}
	// a new pass starts here
	w.closePassLocked()
	if w.runDirty {
		w.newRunLocked()
	}
	w.pass++
	w.calls = 0
	w.passTerminal = false
	// a controller that starts round after round without ever pausing never reaches a quiescent point, so the driver
	// could never act: stop such a run (counted in virtual time, not timed; the monitors have judged every request)
	if now := time.Now(); now.Equal(w.lastRoot) {
		if w.spin++; w.spin > 300 && !w.canceled {
			w.kinds["runaway:rounds-without-pause"] = true
			w.envLocked("cancel")
		}
	} else {
		w.spin, w.lastRoot = 0, now
	}
	w.hook()
	w.sthSize, w.consOK, w.consBad = -1, false, false
	if c, ok := pop(w.F.Root, strconv.Itoa(w.pass)); ok {
		w.setTerminal()
		w.rootSize = 0
		w.emit(map[string]any{"ev": "GetRoot", "code": "ERR", "size": 0})
		return nil, gstatus.Error(codeByName(c), "injected")
	}
	if want, ok := w.F.RootAt[strconv.Itoa(w.pass)]; ok {
		for c := w.contiguous(); w.destInt < want && w.destInt < c; {
			w.integrateOne() // the behaviour says where the root stood: that is the signer's schedule
		}
	}
	w.rootSize = w.destInt
	w.rootHash = w.destRoot(w.destInt)
	lr := types.LogRootV1{TreeSize: uint64(w.destInt), RootHash: w.rootHash, TimestampNanos: uint64(1700000000000000000 + w.pass)}
	raw, err := lr.MarshalBinary()
	if err != nil {
		panic(err)
	}
	w.emit(map[string]any{"ev": "GetRoot", "code": "OK", "size": w.destInt})
	return &trillian.GetLatestSignedLogRootResponse{SignedLogRoot: &trillian.SignedLogRoot{LogRoot: raw}}, nil
}

func (w *World) setTerminal() { w.passTerminal, w.anyTerminal, w.runDirty = true, true, true }

// closePassLocked: a pass is over when the next begins or the run returns; every quota reply must have been retried by then.
func (w *World) closePassLocked() {
	if !w.runDirty && w.sthSize > w.runPos {
		w.runPos = w.sthSize // nothing ended the pass: it transferred everything below its STH, Run goes on from there
	}
	for k, n := range w.quotaOpen {
		if n > 0 && !w.passTerminal && !w.canceled {
			w.Rep.Violate("quota:ResourceExhausted:pass-aborted",
				fmt.Sprintf("AddSequencedLeaves of batch %s was answered ResourceExhausted and the migrator did not retry it: the pass ended instead (no fatal error, no cancellation had been injected)", k), w.ctxt())
		}
		delete(w.quotaOpen, k)
	}
}

// AddSequencedLeaves stores leaves under their indices: OK / ALREADY_EXISTS for an identical leaf /
// FAILED_PRECONDITION for a different leaf under an occupied index.  A request without leaves is refused with
// InvalidArgument, as Trillian's log server does (server/validate.go, validateLogLeaves: "Leaves empty"):
// clause EmptyRequestRefused of the specification.
func (b *Backend) AddSequencedLeaves(ctx context.Context, in *trillian.AddSequencedLeavesRequest, _ ...grpc.CallOption) (*trillian.AddSequencedLeavesResponse, error) {
	w := b.W
	w.mu.Lock()
	defer w.mu.Unlock()
	if err := ctx.Err(); err != nil {
		return nil, gstatus.FromContextError(err).Err()
	}
	w.hook()
	start, n := int64(-1), len(in.Leaves)
	if n > 0 {
		start = in.Leaves[0].LeafIndex
	}
	key := fmt.Sprintf("%d:%d", w.pass, start)
	bkey := fmt.Sprintf("[%d,%d)", start, start+int64(n))
	// the request itself is judged whatever the reply will be
	leaves := w.judge(in.Leaves)
	if n == 0 {
		w.setTerminal() // the pass fails, loudly: completion is not promised for it
		w.emptyAdds++
		w.kinds["add:empty-refused"] = true
		w.emit(map[string]any{"ev": "Add", "start": start, "n": 0, "code": "InvalidArgument", "leaves": leaves})
		return nil, gstatus.Error(codes.InvalidArgument, "AddSequencedLeavesRequest.Leaves empty")
	}
	if w.quotaOpen[bkey] > 0 {
		w.quotaOpen[bkey]--                     // this is the retry of a batch that had been refused for quota
		if !time.Now().After(w.quotaAt[bkey]) { // virtual time (synctest): a retry "with back-off" comes later, not at once
			w.Rep.Violate("quota:retried-without-delay", "a batch answered ResourceExhausted was retried without any delay", w.ctxt())
		}
		w.kinds["add:retried"] = true
	}
	if c, ok := pop(w.F.Add, key); ok && c != "OK" {
		code := codeByName(c)
		if code == codes.ResourceExhausted {
			w.quotaOpen[bkey]++
			w.quotaAt[bkey] = time.Now()
			w.quotaSeen++
			w.kinds["add:quota"] = true
		} else {
			w.setTerminal()
			w.kinds["add:fatal"] = true
		}
		w.emit(map[string]any{"ev": "Add", "start": start, "n": n, "code": c, "leaves": leaves})
		return nil, gstatus.Error(code, "injected "+c)
	}
	for i := 1; i < n; i++ {
		if in.Leaves[i].LeafIndex != start+int64(i) {
			w.emit(map[string]any{"ev": "Add", "start": start, "n": n, "code": "InvalidArgument", "leaves": leaves})
			return nil, gstatus.Error(codes.InvalidArgument, "leaf indices not contiguous")
		}
	}
	rsp := &trillian.AddSequencedLeavesResponse{}
	for i, l := range in.Leaves {
		// NoRepeat: within one run every index is submitted (and answered OK) once, however far the root lags behind
		if w.subm[l.LeafIndex] {
			w.repeats++
			w.Rep.Violate(fmt.Sprintf("repeat:index-submitted-twice-in-one-run:cont=%v", w.C.Cont),
				fmt.Sprintf("index %d was submitted (and answered OK) a second time within one run of the Controller: pass %d, root of this pass %d, position the earlier rounds reached %d, STH %d - no pass had failed, no submission had been refused in between",
					l.LeafIndex, w.pass, w.rootSize, w.runPos, w.sthSize), w.ctxt())
		}
		w.subm[l.LeafIndex] = true
		st := &status.Status{Code: int32(codes.OK)}
		cur := w.dest[l.LeafIndex]
		switch {
		case cur == nil:
			w.dest[l.LeafIndex] = &stored{append([]byte{}, l.LeafValue...), append([]byte{}, l.ExtraData...), append([]byte{}, l.LeafIdentityHash...)}
			leaves[i]["st"] = "OK"
		case bytes.Equal(cur.val, l.LeafValue) && bytes.Equal(cur.extra, l.ExtraData) && bytes.Equal(cur.id, l.LeafIdentityHash):
			st.Code = int32(codes.AlreadyExists)
			leaves[i]["st"] = "DUP"
			w.kinds["add:dup"] = true
		default:
			st.Code = int32(codes.FailedPrecondition)
			leaves[i]["st"] = "CONFLICT"
			w.Rep.Violate("noconflict:different-content-under-occupied-index",
				fmt.Sprintf("AddSequencedLeaves submitted index %d with content different from what the destination already holds there", l.LeafIndex), w.ctxt())
		}
		rsp.Results = append(rsp.Results, &trillian.QueuedLogLeaf{Leaf: l, Status: st})
	}
	w.addOK++
	w.emit(map[string]any{"ev": "Add", "start": start, "n": n, "code": "OK", "leaves": leaves})
	return rsp, nil
}

// judge is the oracle-free monitor of Mirror / Bounded / Gate on one request; it also produces the
// per-leaf classification the trace specification consumes.
func (w *World) judge(ls []*trillian.LogLeaf) []map[string]any {
	out := make([]map[string]any, len(ls))
	for k, l := range ls {
		i := int(l.LeafIndex)
		c, id := "other", "bad"
		if i >= 0 && i < MaxN {
			e := w.entry(w.served(), i)
			if bytes.Equal(l.LeafValue, e.LeafInput) && bytes.Equal(l.ExtraData, e.ExtraData) {
				c = "src"
				if e.Bad {
					w.kinds["add:unparsable-copied"] = true
				}
			}
			if bytes.Equal(l.LeafIdentityHash, w.refID(l.LeafIndex, e)) {
				id = "ok"
			}
		}
		if c != "src" {
			what, fp := fmt.Sprintf("leaf submitted under index %d is not the source's leaf_input/extra_data for that index", i), "mirror:content-mismatch"
			for j := 0; j < MaxN; j++ {
				if e := w.entry(w.served(), j); bytes.Equal(l.LeafValue, e.LeafInput) && bytes.Equal(l.ExtraData, e.ExtraData) {
					what += fmt.Sprintf(" (it is the source's entry %d)", j)
					fp = fmt.Sprintf("mirror:index-shift:%+d", i-j)
				}
			}
			w.Rep.Violate(fp, what, w.ctxt())
		}
		if id != "ok" {
			w.Rep.Violate("mirror:identity-hash:"+w.C.IDFunc, fmt.Sprintf("leaf %d carries an identity hash that is not the configured function (%s) of the entry", i, w.C.IDFunc), w.ctxt())
		}
		if w.sthSize < 0 || i >= w.sthSize {
			w.Rep.Violate("bounded:beyond-verified-sth", fmt.Sprintf("leaf %d submitted although the STH of this pass covers only %d entries", i, w.sthSize), w.ctxt())
		}
		if w.rootSize > 0 && !w.consOK {
			fp := "gate:submit-without-consistency-proof"
			if w.consBad {
				fp = "gate:submit-after-failed-consistency"
			}
			w.Rep.Violate(fp, fmt.Sprintf("leaf %d submitted in a pass whose non-empty destination root (size %d) was not proven consistent with the source STH", i, w.rootSize), w.ctxt())
		}
		out[k] = map[string]any{"i": i, "c": c, "id": id, "st": "-"}
	}
	if w.sthSize > w.maxVerified && (w.rootSize == 0 || w.consOK) {
		w.maxVerified = w.sthSize
	}
	return out
}

// ---------------------------------------------------------------- election

// Factory is the scripted election2.Factory.
type Factory struct{ W *World }

type election struct{ w *World }

// NewElection implements election2.Factory.
func (f Factory) NewElection(ctx context.Context, id string) (election2.Election, error) {
	return &election{f.W}, nil
}

func (e *election) Await(ctx context.Context) error {
	for {
		e.w.mu.Lock()
		m, ch := e.w.master, e.w.mwait
		e.w.mu.Unlock()
		if m {
			return nil
		}
		select {
		case <-ch:
		case <-ctx.Done():
			return ctx.Err()
		}
	}
}

func (e *election) WithMastership(ctx context.Context) (context.Context, error) {
	e.w.mu.Lock()
	defer e.w.mu.Unlock()
	cctx, cancel := context.WithCancel(ctx)
	if !e.w.master {
		cancel()
		return cctx, nil
	}
	e.w.mcancel = append(e.w.mcancel, cancel)
	return cctx, nil
}

func (e *election) Resign(ctx context.Context) error { return nil }
func (e *election) Close(ctx context.Context) error  { return nil }

// ---------------------------------------------------------------- final comparison

// Final compares the destination with the source index by index (Mirror, Bounded) and, when the
// run is promised to be complete, demands completeness (no gaps).
func (w *World) Final(ret string, complete bool, from int) {
	w.mu.Lock()
	defer w.mu.Unlock()
	w.closePassLocked()
	for i, s := range w.dest {
		if int(i) < w.C.DestLen {
			e := w.entry("H", int(i))
			if bytes.Equal(s.val, e.LeafInput) && bytes.Equal(s.extra, e.ExtraData) {
				continue // what was there before
			}
		}
		if i < 0 || int(i) >= MaxN {
			w.Rep.Violate("bounded:index-out-of-range", fmt.Sprintf("destination holds index %d", i), w.ctxt())
			continue
		}
		e := w.entry(w.served(), int(i))
		if !bytes.Equal(s.val, e.LeafInput) || !bytes.Equal(s.extra, e.ExtraData) {
			w.Rep.Violate("mirror:final-content-mismatch", fmt.Sprintf("destination index %d does not hold the source's entry %d", i, i), w.ctxt())
		}
		if !bytes.Equal(s.id, w.refID(i, e)) {
			w.Rep.Violate("mirror:identity-hash:"+w.C.IDFunc, fmt.Sprintf("destination index %d has the wrong identity hash", i), w.ctxt())
		}
		if int(i) >= w.maxVerified {
			w.Rep.Violate("bounded:beyond-verified-sth", fmt.Sprintf("destination holds index %d, the largest verified STH covers %d", i, w.maxVerified), w.ctxt())
		}
	}
	if complete {
		for i := from; i < w.sthSize; i++ {
			if w.C.inRange(i) && w.dest[int64(i)] == nil {
				w.Rep.Violate("mirror:gap", fmt.Sprintf("run ended %s, but destination lacks index %d of [%d,%d)", ret, i, from, w.sthSize), w.ctxt())
				break
			}
		}
	}
}

// DestDomain lists the indices present.
func (w *World) DestDomain() []int {
	w.mu.Lock()
	defer w.mu.Unlock()
	var out []int
	for i := 0; i < MaxN+2; i++ {
		if w.dest[int64(i)] != nil {
			out = append(out, i)
		}
	}
	return out
}
