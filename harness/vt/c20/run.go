//go:build go1.25

package c20

import (
	"context"
	"flag"
	"fmt"
	"io"
	"net/http"
	"testing/synctest"
	"time"

	"github.com/google/certificate-transparency-go/client"
	"github.com/google/certificate-transparency-go/jsonclient"
	"github.com/google/certificate-transparency-go/scanner"
	"github.com/google/certificate-transparency-go/trillian/migrillian/configpb"
	"github.com/google/certificate-transparency-go/trillian/migrillian/core"
	"github.com/google/trillian"
	"github.com/google/trillian/monitoring"
	"github.com/google/trillian/util/election2"
	"k8s.io/klog/v2"
)

func init() {
	fs := flag.NewFlagSet("klog", flag.ContinueOnError)
	klog.InitFlags(fs)
	_ = fs.Set("logtostderr", "false")
	_ = fs.Set("alsologtostderr", "false")
	_ = fs.Set("stderrthreshold", "FATAL")
	klog.SetOutput(io.Discard)
}

type quiet struct{}

func (quiet) Printf(string, ...interface{}) {}

// Result is what one scenario ended with.
type Result struct {
	Ret      string `json:"ret"` // class of the last return: nil | canceled | error
	Err      string `json:"err"`
	Dest     []int  `json:"dest"`
	DestInt  int    `json:"destInt"`
	Passes   int    `json:"passes"`
	Steps    int    `json:"steps"`
	Complete bool   `json:"complete"` // the driver saw the destination cover the whole source
	Restarts int    `json:"restarts"`
}

func (w *World) newController() (*core.Controller, error) {
	lc, err := client.New("http://source.test/log", &http.Client{Transport: w}, jsonclient.Options{PublicKeyDER: w.P.DER, Logger: quiet{}})
	if err != nil {
		return nil, err
	}
	idf := configpb.IdentityFunction_SHA256_CERT_DATA
	if w.C.IDFunc == "index" {
		idf = configpb.IdentityFunction_SHA256_LEAF_INDEX
	}
	pl, err := core.NewPreorderedLogClient(&Backend{W: w}, &trillian.Tree{TreeId: 20, TreeType: trillian.TreeType_PREORDERED_LOG}, idf, "c20")
	if err != nil {
		return nil, err
	}
	opts := core.Options{
		FetcherOptions: scanner.FetcherOptions{BatchSize: w.C.Batch, ParallelFetch: w.C.Fetchers, StartIndex: int64(w.C.Start), EndIndex: int64(w.C.End), Continuous: w.C.Cont},
		Submitters:     w.C.Submitters,
		ChannelSize:    w.C.Chan,
	}
	var ef election2.Factory = election2.NoopFactory{}
	if w.C.Mode == "master" {
		ef = Factory{w}
	}
	if w.C.Mode != "run" && w.C.Cont {
		opts.StartDelay = 10 * time.Second // runWithRestarts spins without it
	}
	return core.NewController(opts, lc, pl, ef, monitoring.InertMetricFactory{}), nil
}

// Run executes the scenario inside a synctest bubble: the Controller runs in its own goroutine,
// this goroutine is the environment.  It acts only at quiescent points (every goroutine of the
// bubble durably blocked: the Controller sleeps, backs off or waits for mastership) and through the
// scripted hooks inside the fakes; between its actions it lets virtual time pass.
func (w *World) Run(restarts int) (res Result, err error) {
	const maxSteps = 400
	forkedRefusals := 0
	for {
		ctx, cancel := context.WithCancel(context.Background())
		w.mu.Lock()
		w.Cancel = cancel
		w.canceled, w.passTerminal = false, false
		w.newRunLocked() // the process starts: a new run
		w.mu.Unlock()
		for _, a := range w.F.Env["0:1"] { // scripted before anything was called
			w.Env(a)
		}
		delete(w.F.Env, "0:1")
		ctrl, cerr := w.newController()
		if cerr != nil {
			cancel()
			return res, cerr
		}
		done := make(chan error, 1)
		go func() {
			defer func() {
				if r := recover(); r != nil {
					w.Rep.Violate("panic:Controller", fmt.Sprintf("panic in the Controller: %v", r), w.ctxt())
					done <- fmt.Errorf("panic: %v", r)
				}
			}()
			if w.C.Mode == "run" {
				done <- ctrl.Run(ctx)
			} else {
				done <- ctrl.RunWhenMaster(ctx)
			}
		}()
		var rerr error
		returned := false
		for !returned {
			synctest.Wait()
			select {
			case rerr = <-done:
				returned = true
				continue
			default:
			}
			res.Steps++
			if res.Steps > maxSteps {
				cancel()
				<-done
				w.mu.Lock()
				if !w.anyTerminal && !w.C.Forked && !w.F.Replay {
					w.Rep.Violate("progress:no-completion", fmt.Sprintf("after %d quiescent points with all scripted faults consumed the migration has neither completed nor returned", maxSteps), w.ctxt())
				}
				w.mu.Unlock()
				return res, nil
			}
			w.mu.Lock()
			act := ""
			switch {
			case !w.master:
				act = "regain"
			case w.lateEnv():
				// scripted actions whose call never came (the pass had fewer calls): now
			case !w.F.Replay && w.grown < w.C.Growth && res.Steps%2 == 0:
				act = "grow"
			case !w.F.Replay && w.destInt < w.contiguous() && w.signerAwake():
				act = "integrateall"
			case w.C.Forked && w.pass >= 3+forkedRefusals:
				act = "cancel" // a source that cannot prove consistency is refused pass after pass
			case w.C.Cont && w.grown >= w.C.Growth && w.contiguous() >= w.srcSize && w.sthSize == w.srcSize && w.calls == 2: // an idle pass (GetRoot, STH, nothing to do) is asleep
				res.Complete = true
				act = "cancel"
			}
			if act != "" {
				w.envLocked(act)
			}
			w.mu.Unlock()
			time.Sleep(7 * time.Second)
		}
		cancel()
		res.Ret, res.Err = "nil", ""
		w.mu.Lock()
		if rerr != nil {
			res.Err = rerr.Error()
			res.Ret = "error"
			if w.canceled {
				res.Ret = "canceled"
			}
		}
		w.emit(map[string]any{"ev": "Return", "err": res.Ret})
		w.kinds["ret:"+res.Ret] = true
		w.mu.Unlock()
		w.Final(res.Ret, res.Ret == "nil" && !w.C.Cont, 0)
		if restarts > 0 && !res.Complete && res.Ret != "nil" {
			restarts--
			res.Restarts++
			w.mu.Lock()
			w.emit(map[string]any{"ev": "Restart"})
			w.kinds["restart"] = true
			w.mu.Unlock()
			continue
		}
		break
	}
	res.Dest = w.DestDomain()
	w.mu.Lock()
	res.DestInt, res.Passes = w.destInt, w.pass
	w.mu.Unlock()
	return res, nil
}

// lateEnv executes scripted environment actions of passes that are over or that have not had that many calls.
func (w *World) lateEnv() bool {
	done := false
	for p := 0; p <= w.pass; p++ {
		for n := 1; n <= 64; n++ {
			if p == w.pass && n <= w.calls {
				continue
			}
			key := fmt.Sprintf("%d:%d", p, n)
			for _, a := range w.F.Env[key] {
				if a == "revoke" || a == "cancel" {
					w.envLocked(a)
					done = true
				}
			}
			if done {
				delete(w.F.Env, key)
				return true
			}
		}
	}
	return false
}
