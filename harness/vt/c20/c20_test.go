//go:build go1.25

package c20

import (
	"encoding/json"
	"fmt"
	"os"
	"sort"
	"strings"
	"testing"
	"testing/synctest"

	"verifharness/vh"
)

func kindsKey(w *World) string {
	ks := make([]string, 0, len(w.kinds))
	for k := range w.kinds {
		ks = append(ks, k)
	}
	sort.Strings(ks)
	return strings.Join(ks, ";")
}

// TestProbe runs one hand-written scenario and prints what happened (development aid; VERIF_PROBE=json of {cfg,faults}).
func TestProbe(t *testing.T) {
	spec := os.Getenv("VERIF_PROBE")
	if spec == "" {
		t.Skip("VERIF_PROBE not set")
	}
	var in struct {
		Cfg      Cfg    `json:"cfg"`
		Faults   Faults `json:"faults"`
		Restarts int    `json:"restarts"`
	}
	if err := json.Unmarshal([]byte(spec), &in); err != nil {
		t.Fatal(err)
	}
	pool, err := NewPool(vh.Rand(20))
	if err != nil {
		t.Fatal(err)
	}
	rec, err := vh.NewRecorder("traces.ndjson")
	if err != nil {
		t.Fatal(err)
	}
	rep := vh.NewReport("c20-probe", "probe")
	synctest.Test(t, func(t *testing.T) {
		w := NewWorld(pool, in.Cfg, in.Faults, rec, rep, 0)
		w.emit(map[string]any{"ev": "Reset", "cfg": in.Cfg})
		res, err := w.Run(in.Restarts)
		if err != nil {
			t.Fatal(err)
		}
		b, _ := json.Marshal(res)
		fmt.Printf("RESULT %s kinds=%s\n", b, kindsKey(w))
	})
	rec.Close()
	for _, v := range rep.Violations {
		fmt.Printf("VIOLATION %s: %s\n", v.Fingerprint, v.What)
	}
	rep.Write()
	b, _ := os.ReadFile(vh.OutDir() + "/traces.ndjson")
	fmt.Print(string(b))
}
