//go:build go1.25

package c20

import (
	"encoding/json"
	"fmt"
	"os"
	"sort"
	"strings"
	"testing"
	"testing/synctest"

	"verifharness/vh"
)

func kindsKey(w *World) string {
	ks := make([]string, 0, len(w.kinds))
	for k := range w.kinds {
		ks = append(ks, k)
	}
	sort.Strings(ks)
	return strings.Join(ks, ";")
}

// TestProbe runs one hand-written scenario and prints what happened (development aid; VERIF_PROBE=json of {cfg,faults}).
func TestProbe(t *testing.T) {
	spec := os.Getenv("VERIF_PROBE")
	if spec == "" {
		t.Skip("VERIF_PROBE not set")
	}
	var in struct {
		Cfg      Cfg    `json:"cfg"`
		Faults   Faults `json:"faults"`
		Restarts int    `json:"restarts"`
	}
	if err := json.Unmarshal([]byte(spec), &in); err != nil {
		t.Fatal(err)
	}
	pool, err := NewPool(vh.Rand(20))
	if err != nil {
		t.Fatal(err)
	}
	rec, err := vh.NewRecorder("traces.ndjson")
	if err != nil {
		t.Fatal(err)
	}
	rep := vh.NewReport("c20-probe", "one scenario (cfg, counted fault script) re-executed on the real Controller")
	synctest.Test(t, func(t *testing.T) {
		w := NewWorld(pool, in.Cfg, in.Faults, rec, rep, 0)
		w.emit(map[string]any{"ev": "Reset", "cfg": in.Cfg})
		res, err := w.Run(in.Restarts)
		if err != nil {
			t.Fatal(err)
		}
		b, _ := json.Marshal(res)
		fmt.Printf("RESULT %s kinds=%s\n", b, kindsKey(w))
		rep.Eval(kindsKey(w))
	})
	rec.Close()
	for _, v := range rep.Violations {
		fmt.Printf("VIOLATION %s: %s\n", v.Fingerprint, v.What)
	}
	if err := rep.Write(); err != nil {
		t.Fatal(err)
	}
	if os.Getenv("VERIF_PROBE_PRINT") != "" {
		b, _ := os.ReadFile(vh.OutDir() + "/traces.ndjson")
		fmt.Print(string(b))
	}
}

// randomScenario draws a scenario and a counted fault script.
func randomScenario(rng interface{ Intn(int) int }, n int) (Cfg, Faults, int) {
	c := Cfg{Bad: []int{}}
	c.Src0 = 1 + rng.Intn(4)
	if rng.Intn(12) == 0 {
		c.Src0 = 0
	}
	c.Growth = rng.Intn(3)
	for i := 0; i < c.Src0+c.Growth; i++ {
		if rng.Intn(3) == 0 {
			c.Bad = append(c.Bad, i)
		}
	}
	switch rng.Intn(3) {
	case 0: // empty
	case 1: // partial
		if c.Src0 > 0 {
			c.DestLen = 1 + rng.Intn(c.Src0)
		}
	default:
		c.DestLen = c.Src0
	}
	switch rng.Intn(3) {
	case 0:
		c.DestInt = c.DestLen
	case 1:
		if c.DestLen > 0 {
			c.DestInt = c.DestLen - 1
		}
	}
	c.Batch = 1 + rng.Intn(3)
	c.Fetchers = 1 + rng.Intn(2)
	c.Submitters = 1 + rng.Intn(2)
	if rng.Intn(6) == 0 {
		c.Fetchers, c.Submitters = 3, 3
	}
	c.Chan = rng.Intn(3)
	c.Cont = rng.Intn(2) == 0
	// one scenario in five is signer lag for certain: continuous rounds over a growing source while the signer sleeps
	lagSure := n%5 == 2
	if lagSure {
		c.Cont = true
		if c.Growth == 0 {
			c.Growth = 1 + rng.Intn(3)
		}
	}
	if !c.Cont && rng.Intn(2) == 0 {
		c.Start = -1
	}
	// the configured range, in one scenario out of three: start_index / end_index at 0, inside, equal to and beyond the
	// source's STH (continuous mode too: it must ignore them), on a source that serves up to two entries more than the
	// STH it announces covers
	lagging := n%10 == 3 // one scenario in ten is the lagging front end for certain: one-shot, end_index beyond the STH, source ahead
	if lagging {
		c.Cont = false
	}
	if rng.Intn(3) == 0 || lagging {
		top := c.Src0 + c.Growth
		pickIdx := func() int {
			switch rng.Intn(4) {
			case 0: // inside
				if c.Src0 > 1 {
					return 1 + rng.Intn(c.Src0-1)
				}
				return 1
			case 1: // equal to the first STH
				return c.Src0
			case 2: // beyond it, possibly within what the source serves
				return c.Src0 + 1 + rng.Intn(3)
			}
			return top + 3 // beyond everything
		}
		if rng.Intn(3) > 0 {
			c.End = pickIdx()
		}
		switch rng.Intn(4) {
		case 0:
			c.Start = pickIdx()
		case 1:
			c.Start = -1
		case 2:
			c.Start = 0
		}
		if c.Cont && c.Start < 0 {
			c.Start = 0
		}
		if a := MaxN - top; a > 0 && (rng.Intn(4) > 0 || lagging) {
			c.Ahead = 1 + rng.Intn(2)
			if c.Ahead > a {
				c.Ahead = a
			}
		}
		if lagging {
			c.End = c.Src0 + 1 + rng.Intn(3)
		}
	}
	c.IDFunc = []string{"cert", "index"}[rng.Intn(2)]
	c.Mode = []string{"run", "master", "master", "noop"}[rng.Intn(4)]
	if c.Src0 >= 2 && rng.Intn(4) == 0 {
		c.Forked = true
		c.ForkAt = 1 + rng.Intn(c.Src0-1)
		if c.DestLen > c.ForkAt {
			c.DestInt = c.DestLen // what lies beyond the integrated prefix must not already contradict the fork
		}
	}
	f := Faults{}
	f.init()
	restarts := 0
	nf := rng.Intn(4)
	if n%5 == 0 {
		nf = 0
	}
	if lagSure && nf > 1 {
		nf = 1 // let the rounds happen
	}
	for k := 0; k < nf; k++ {
		pass := 1 + rng.Intn(2)
		start := 0
		if c.Src0+c.Growth > 0 {
			start = rng.Intn(c.Src0 + c.Growth)
		}
		if rng.Intn(4) > 0 { // aim at a batch the first pass will really see
			first := 0
			if c.Cont || c.Start < 0 {
				first = c.DestInt
			} else if c.Start > 0 {
				first = c.Start
			}
			if n := (c.Src0 - first + c.Batch - 1) / c.Batch; n > 0 {
				pass, start = 1, first+c.Batch*rng.Intn(n)
			}
		}
		key := fmt.Sprintf("%d:%d", pass, start)
		switch rng.Intn(14) {
		case 0, 1:
			k := 1
			if c.Batch > 2 {
				k += rng.Intn(c.Batch - 1)
			}
			f.Fetch[key] = append(f.Fetch[key], k) // short read
			if rng.Intn(3) == 0 {                  // and the remainder comes short / empty again
				rk := fmt.Sprintf("%d:%d", pass, start+k)
				f.Fetch[rk] = append(f.Fetch[rk], []int{1, -3}[rng.Intn(2)])
			}
		case 12, 13:
			// the empty page (in one of its spellings), possibly more than once for the same request; the pass
			// fails on it, so the process may be started again
			for j := 0; j <= rng.Intn(3)/2; j++ {
				f.Fetch[key] = append(f.Fetch[key], -3-rng.Intn(3))
			}
			if rng.Intn(2) == 0 {
				restarts = 1
			}
		case 2:
			f.Fetch[key] = append(f.Fetch[key], -1-rng.Intn(2))
		case 3, 4, 5:
			for j := 0; j <= rng.Intn(3); j++ {
				f.Add[key] = append(f.Add[key], "ResourceExhausted")
			}
		case 6:
			f.Add[key] = append(f.Add[key], []string{"Internal", "Unknown", "PermissionDenied", "InvalidArgument"}[rng.Intn(4)])
		case 7:
			switch rng.Intn(3) {
			case 0:
				f.Root[fmt.Sprint(pass)] = []string{"Unavailable"}
			case 1:
				f.STH[fmt.Sprint(pass)] = []int{500}
			default:
				f.Cons[fmt.Sprint(pass)] = []int{500}
			}
		case 8:
			ek := fmt.Sprintf("%d:%d", pass, 1+rng.Intn(8))
			f.Env[ek] = append(f.Env[ek], "revoke")
		case 9:
			ek := fmt.Sprintf("%d:%d", pass, 1+rng.Intn(8))
			f.Env[ek] = append(f.Env[ek], "cancel")
			restarts = rng.Intn(2)
		case 10:
			ek := fmt.Sprintf("%d:%d", pass, 2+rng.Intn(6))
			f.Env[ek] = append(f.Env[ek], "grow")
		default:
			ek := fmt.Sprintf("%d:%d", pass, 1+rng.Intn(8))
			f.Env[ek] = append(f.Env[ek], "integrate")
		}
	}
	// the signer's schedule (Cfg.Lag): in one scenario out of three - and in the lag scenarios for certain - the signer
	// sleeps through the first root requests, so that whole rounds of a continuous run begin with the root behind what
	// was submitted; the source grows at the quiescent points between the rounds (driver) and, in the lag scenarios, also
	// while the first round is under way, so that the very next round finds new entries and a root that has not moved
	switch {
	case lagSure:
		c.Lag = 2 + rng.Intn(4)
		if rng.Intn(3) > 0 {
			ek := fmt.Sprintf("1:%d", 3+rng.Intn(3))
			f.Env[ek] = append(f.Env[ek], "grow")
		}
	case rng.Intn(3) == 0:
		c.Lag = 1 + rng.Intn(5)
	}
	return c, f, restarts
}

// TestTrace runs random scenarios on the real Controller and records the traces; the driver has
// MigrillianTrace.tla validate traces.ndjson.  Runs in which the oracle-free monitor saw a quota reply
// end the pass go to traces-quota.ndjson: the driver expects the specification to reject exactly those.
func TestTrace(t *testing.T) {
	n := vh.EnvInt("VERIF_TRACES", 60)
	pool, err := NewPool(vh.Rand(20))
	if err != nil {
		t.Fatal(err)
	}
	rec, err := vh.NewRecorder("traces.ndjson")
	if err != nil {
		t.Fatal(err)
	}
	recQ, err := vh.NewRecorder("traces-quota.ndjson")
	if err != nil {
		t.Fatal(err)
	}
	rep := vh.NewReport("c20-trace", "random scenarios (source sizes/growth/unparsable entries, destination empty/partial/full, batch, fetchers, submitters, one-shot/continuous, Run/RunWhenMaster, honest/forked source, counted fault scripts) on the real Controller under synctest virtual time and -race; every AddSequencedLeaves request and the final destination map judged index by index against the source by reference code; traces validated by MigrillianTrace.tla; non-trivial = distinct set of observed behaviour kinds")
	rng := vh.Rand(2020)
	nq, emptyPages, emptyAdds, endBeyond, rangePasses, lagRounds, lagEntries := 0, 0, 0, 0, 0, 0, 0
	scen := map[string]any{}
	for i := 0; i < n; i++ {
		c, f, restarts := randomScenario(rng, i)
		scen[fmt.Sprint(i)] = map[string]any{"cfg": c, "faults": f, "restarts": restarts}
		tmp, err := vh.NewRecorder(fmt.Sprintf("trace-%d.tmp", i))
		if err != nil {
			t.Fatal(err)
		}
		sub := vh.NewReport("tmp", "")
		var w *World
		synctest.Test(t, func(t *testing.T) {
			w = NewWorld(pool, c, cloneFaults(f), tmp, sub, i)
			w.Seed = vh.Seed()
			w.emit(map[string]any{"ev": "Reset", "cfg": c})
			if _, err := w.Run(restarts); err != nil {
				t.Fatal(err)
			}
		})
		tmp.Close()
		quota := false
		for _, v := range sub.Violations {
			if strings.HasPrefix(v.Fingerprint, "quota:ResourceExhausted") {
				quota = true
			}
			rep.Violate(v.Fingerprint, v.What, map[string]any{"cfg": c, "faults": f, "restarts": restarts})
		}
		path := vh.OutDir() + fmt.Sprintf("/trace-%d.tmp", i)
		lines, err := vh.LoadNDJSON[map[string]any](path)
		if err != nil {
			t.Fatal(err)
		}
		os.Remove(path)
		dst := rec
		if quota {
			dst = recQ
			nq++
		}
		for _, ev := range lines {
			delete(ev, "seq")
			dst.Emit(ev)
		}
		rep.Eval(kindsKey(w))
		emptyPages += w.emptyPages
		emptyAdds += w.emptyAdds
		endBeyond += w.endBeyond
		rangePasses += w.rangePasses
		lagRounds += w.lagRounds
		lagEntries += w.lagEntries
		if i < 3 {
			rep.Sample(map[string]any{"cfg": c, "faults": f})
		}
	}
	rec.Close()
	recQ.Close()
	rep.Extra["empty_pages_served"] = emptyPages
	rep.Extra["empty_requests_refused"] = emptyAdds
	rep.Extra["passes_end_index_beyond_sth_source_ahead"] = endBeyond
	rep.Extra["passes_with_configured_range"] = rangePasses
	rep.Extra["rounds_root_behind_position_source_grown"] = lagRounds
	rep.Extra["entries_not_integrated_at_such_rounds"] = lagEntries
	if b, err := json.Marshal(scen); err == nil {
		_ = os.WriteFile(vh.OutDir()+"/scenarios.json", b, 0o644)
	}
	rep.Extra["events"] = rec.N + recQ.N
	rep.Extra["traces_quota_aborted"] = nq
	if err := rep.Write(); err != nil {
		t.Fatal(err)
	}
}

// Beh is one behaviour exported by SimMigrillian.tla.
type Beh struct {
	Cfg struct {
		Src0, Growth, Ahead, DestLen, DestInt, Batch, Fetchers, Submitters, Start, End, ForkAt, Lag int
		Bad                                                                                         []int
		Cont, Forked                                                                                bool
		Mode                                                                                        string
	} `json:"cfg"`
	Hist []struct {
		Ev     string `json:"ev"`
		Pass   int    `json:"pass"`
		Calls  int    `json:"calls"`
		Size   int    `json:"size"`
		Code   string `json:"code"`
		Start  int    `json:"start"`
		End    int    `json:"end"`
		N      int    `json:"n"`
		Result string `json:"result"`
	} `json:"hist"`
	Dest     []int  `json:"dest"`
	DestSize int    `json:"destSize"`
	SrcSize  int    `json:"srcSize"`
	Result   string `json:"result"`
	Terminal bool   `json:"terminal"`
}

// schedule turns a behaviour into a scenario + counted fault script; clean = no cancellation, lost
// mastership or fatal fault, so that the outcome is determined whatever the goroutine interleaving.
func schedule(b Beh, idx int) (c Cfg, f Faults, restarts int, clean bool, covered bool) {
	c = Cfg{Src0: b.Cfg.Src0, Growth: b.SrcSize - b.Cfg.Src0, Ahead: b.Cfg.Ahead, End: b.Cfg.End, Bad: append([]int{}, b.Cfg.Bad...), DestLen: b.Cfg.DestLen, DestInt: b.Cfg.DestInt,
		Batch: b.Cfg.Batch, Fetchers: b.Cfg.Fetchers, Submitters: b.Cfg.Submitters, Chan: idx % 3, Cont: b.Cfg.Cont, Start: b.Cfg.Start,
		Forked: b.Cfg.Forked, ForkAt: b.Cfg.ForkAt, IDFunc: []string{"cert", "index"}[idx%2], Mode: b.Cfg.Mode, Lag: b.Cfg.Lag}
	f.init()
	f.Replay = true
	f.RootAt, f.SizeAt = map[string]int{}, map[string]int{}
	clean = !b.Cfg.Forked
	h := b.Hist
	covered = len(b.Dest) >= b.SrcSize && b.DestSize >= b.SrcSize
	// a continuous run is ended by the operator once it has caught up: the driver does that itself
	if n := len(h); b.Cfg.Cont && covered && n >= 2 && h[n-1].Ev == "Return" && h[n-2].Ev == "Cancel" {
		h = h[:n-2]
	}
	for _, e := range h {
		p := fmt.Sprint(e.Pass)
		key := fmt.Sprintf("%d:%d", e.Pass, e.Start)
		hook := fmt.Sprintf("%d:%d", e.Pass, e.Calls+1)
		switch e.Ev {
		case "GetRoot":
			if e.Code != "OK" {
				f.Root[p] = append(f.Root[p], "Unavailable")
				clean = false
			} else {
				f.RootAt[p] = e.Size
			}
		case "STH":
			if e.Code != "OK" {
				f.STH[p] = append(f.STH[p], 500)
				clean = false
			} else {
				f.SizeAt[p] = e.Size
			}
		case "Cons":
			if e.Code != "OK" {
				f.Cons[p] = append(f.Cons[p], 500)
				clean = false
			}
		case "Fetch":
			switch {
			case e.Code != "OK":
				f.Fetch[key] = append(f.Fetch[key], -1-idx%2)
			case e.N == 0: // the empty page; the pass fails on it while other calls are still in flight
				f.Fetch[key] = append(f.Fetch[key], -3-idx%3)
				clean = false
			case e.N < e.End-e.Start+1:
				f.Fetch[key] = append(f.Fetch[key], e.N)
			default:
				f.Fetch[key] = append(f.Fetch[key], 0)
			}
		case "Add":
			if e.N == 0 {
				break // a request without leaves: the destination refuses it by itself, nothing to script
			}
			f.Add[key] = append(f.Add[key], e.Code)
			if e.Code != "OK" && e.Code != "ResourceExhausted" {
				clean = false
			}
		case "Grow":
			f.Env[hook] = append(f.Env[hook], "grow")
		case "Revoke":
			f.Env[hook] = append(f.Env[hook], "revoke")
			clean = false
		case "Cancel":
			f.Env[hook] = append(f.Env[hook], "cancel")
			clean = false
		case "Restart":
			restarts++
		}
	}
	return
}

// TestReplay drives the real Controller with the fault schedules of TLC-generated behaviours of
// Migrillian.tla and compares what is determined by the schedule with the specification's outcome.
func TestReplay(t *testing.T) {
	path := os.Getenv("VERIF_BEHAVIOURS")
	if path == "" {
		t.Skip("VERIF_BEHAVIOURS not set")
	}
	behs, err := vh.LoadNDJSON[Beh](path)
	if err != nil {
		t.Fatal(err)
	}
	pool, err := NewPool(vh.Rand(20))
	if err != nil {
		t.Fatal(err)
	}
	rec, err := vh.NewRecorder("replay-traces.ndjson")
	if err != nil {
		t.Fatal(err)
	}
	rep := vh.NewReport("c20-replay", "behaviours of Migrillian.tla (TLC simulation: scenario + environment choices) replayed as counted fault schedules into the real Controller; monitors on every request; for schedules without cancellation / lost mastership / fatal faults the return class, the destination domain and the consumption of the whole schedule are compared with the specification's behaviour; non-trivial = distinct set of behaviour kinds")
	nclean, emptyPages, emptyAdds, endBeyond, rangePasses, lagRounds, lagEntries := 0, 0, 0, 0, 0, 0, 0
	for i, b := range behs {
		c, f, restarts, clean, covered := schedule(b, i)
		sub := vh.NewReport("tmp", "")
		var w *World
		var res Result
		synctest.Test(t, func(t *testing.T) {
			w = NewWorld(pool, c, cloneFaults(f), rec, sub, i)
			w.Seed = vh.Seed()
			w.emit(map[string]any{"ev": "Reset", "cfg": c})
			var err error
			if res, err = w.Run(restarts); err != nil {
				t.Fatal(err)
			}
		})
		ctxt := map[string]any{"behaviour": b, "cfg": c, "faults": f, "restarts": restarts, "result": res}
		for _, v := range sub.Violations {
			rep.Violate(v.Fingerprint, v.What, ctxt)
		}
		if clean && len(sub.Violations) == 0 {
			nclean++
			want := b.Result
			if c.Cont && covered {
				want = "canceled" // ended by the driver after completion
			}
			if res.Ret != want {
				rep.Violate(fmt.Sprintf("replay:return:want=%s:got=%s", want, res.Ret),
					fmt.Sprintf("specification behaviour ends with %q, the Controller returned %q (%s)", want, res.Ret, res.Err), ctxt)
			}
			if covered || b.Result == "nil" {
				if fmt.Sprint(res.Dest) != fmt.Sprint(b.Dest) {
					rep.Violate("replay:destination-differs", fmt.Sprintf("destination holds %v, the specification's %v", res.Dest, b.Dest), ctxt)
				}
			}
			left := 0
			for _, l := range w.F.Add {
				left += len(l)
			}
			for _, l := range w.F.Fetch {
				left += len(l)
			}
			if left > 0 {
				rep.Violate("replay:schedule-not-consumed", fmt.Sprintf("%d scripted get-entries / AddSequenced outcomes of the behaviour were never asked for: the Controller made other calls than the specification", left), ctxt)
			}
		}
		key := ""
		if clean {
			key = kindsKey(w)
		}
		rep.Eval(key)
		emptyPages += w.emptyPages
		emptyAdds += w.emptyAdds
		endBeyond += w.endBeyond
		rangePasses += w.rangePasses
		lagRounds += w.lagRounds
		lagEntries += w.lagEntries
		if i < 2 {
			rep.Sample(map[string]any{"cfg": c, "faults": f})
		}
	}
	rec.Close()
	rep.Replayed = len(behs)
	rep.Extra["empty_pages_served"] = emptyPages
	rep.Extra["empty_requests_refused"] = emptyAdds
	rep.Extra["passes_end_index_beyond_sth_source_ahead"] = endBeyond
	rep.Extra["passes_with_configured_range"] = rangePasses
	rep.Extra["rounds_root_behind_position_source_grown"] = lagRounds
	rep.Extra["entries_not_integrated_at_such_rounds"] = lagEntries
	rep.Extra["clean"] = nclean
	if err := rep.Write(); err != nil {
		t.Fatal(err)
	}
}
