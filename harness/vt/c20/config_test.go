//go:build go1.25

package c20

// The configuration-SET dimension of C20 (spec/migrate/MigrillianConfig.tla): every case TLC exported - a sequence of
// migration configs with the model's verdict - is handed to the real validator three ways: as a configpb value to
// core.ValidateConfig, and as a text-format and a binary file through core.LoadConfigFromFile + core.ValidateConfig
// (the way main.go starts).  Single members also go through core.ValidateMigrationConfig.

import (
	"fmt"
	"os"
	"path/filepath"
	"strings"
	"testing"

	"github.com/google/certificate-transparency-go/trillian/migrillian/configpb"
	"github.com/google/certificate-transparency-go/trillian/migrillian/core"
	"github.com/google/trillian/crypto/keyspb"
	"google.golang.org/protobuf/proto"

	"verifharness/vh"
)

type cfgMember struct {
	URI     string `json:"uri"`
	Key     bool   `json:"key"`
	ID      int64  `json:"id"`
	Batch   int32  `json:"batch"`
	IDFn    int32  `json:"idfn"`
	Backend string `json:"backend"`
}

type cfgCase struct {
	Members    []cfgMember `json:"members"`
	Expect     string      `json:"expect"` // accept | member | duplicate
	N          int         `json:"n"`
	SharedTree bool        `json:"sharedtree"`
	SharedKeyB bool        `json:"sharedkeyb"`
	Conflict   bool        `json:"conflict"`
}

var keyDER = []byte{0x30, 0x03, 0x02, 0x01, 0x01}

func (m cfgMember) pb() *configpb.MigrationConfig {
	mc := &configpb.MigrationConfig{
		SourceUri:        m.URI,
		LogId:            m.ID,
		BatchSize:        m.Batch,
		IdentityFunction: configpb.IdentityFunction(m.IDFn),
		LogBackendName:   m.Backend,
	}
	if m.Key {
		mc.PublicKey = &keyspb.PublicKey{Der: keyDER}
	}
	return mc
}

// text writes the member in protobuf text format by hand (field names of config.proto), so that the file path does not
// depend on a serializer reading its own output.
func (m cfgMember) text() string {
	var b strings.Builder
	b.WriteString("  config: {\n")
	if m.URI != "" {
		fmt.Fprintf(&b, "    source_uri: %q\n", m.URI)
	}
	if m.Key {
		b.WriteString("    public_key: { der: \"\\x30\\x03\\x02\\x01\\x01\" }\n")
	}
	if m.Backend != "" {
		fmt.Fprintf(&b, "    log_backend_name: %q\n", m.Backend)
	}
	fmt.Fprintf(&b, "    log_id: %d\n    batch_size: %d\n", m.ID, m.Batch)
	switch m.IDFn {
	case 1:
		b.WriteString("    identity_function: SHA256_CERT_DATA\n")
	case 2:
		b.WriteString("    identity_function: SHA256_LEAF_INDEX\n")
	default:
		fmt.Fprintf(&b, "    identity_function: %d\n", m.IDFn)
	}
	b.WriteString("  }\n")
	return b.String()
}

// firstInsane names the first single-member rule (in the order the validator documents them) a member breaks.
func (m cfgMember) firstInsane() string {
	switch {
	case m.URI == "":
		return "missing-source-uri"
	case !m.Key:
		return "missing-public-key"
	case m.ID <= 0:
		return "non-positive-log-id"
	case m.Batch <= 0:
		return "non-positive-batch-size"
	case m.IDFn != 1 && m.IDFn != 2:
		return "undefined-identity-function"
	}
	return ""
}

func guarded(site string, rep *vh.Report, replay any, f func() error) (err error, panicked bool) {
	defer func() {
		if r := recover(); r != nil {
			rep.Violate("panic:"+site, fmt.Sprintf("%s panicked: %v", site, r), replay)
			panicked = true
		}
	}()
	return f(), false
}

func TestConfigSets(t *testing.T) {
	path := os.Getenv("VERIF_CASES")
	if path == "" {
		t.Skip("VERIF_CASES not set")
	}
	cases, err := vh.LoadNDJSON[cfgCase](path)
	if err != nil {
		t.Fatal(err)
	}
	rep := vh.NewReport("c20-config", "every configuration set of MigrillianConfig.tla through core.ValidateConfig (value, text file, binary file via "+
		"LoadConfigFromFile) and core.ValidateMigrationConfig; accepted exactly when the specification accepts")
	dir := t.TempDir()
	stats := map[string]int{}
	for _, c := range cases {
		replay := map[string]any{"members": c.Members, "expect": c.Expect}
		cfg := &configpb.MigrillianConfig{MigrationConfigs: &configpb.MigrationConfigSet{}}
		var txt strings.Builder
		txt.WriteString("migration_configs: {\n")
		for _, m := range c.Members {
			cfg.MigrationConfigs.Config = append(cfg.MigrationConfigs.Config, m.pb())
			txt.WriteString(m.text())
		}
		txt.WriteString("}\n")
		bin, err := proto.Marshal(cfg)
		if err != nil {
			t.Fatal(err)
		}
		insane := ""
		for _, m := range c.Members {
			if r := m.firstInsane(); r != "" {
				insane = r
				break
			}
		}
		if (insane != "") != (c.Expect == "member") {
			t.Fatalf("harness and specification disagree on the members of %+v", c)
		}
		judge := func(way string, got error) {
			rep.Eval(fmt.Sprintf("%s:%s:n%d:tree%v:keyb%v:conf%v", way, c.Expect, c.N, c.SharedTree, c.SharedKeyB, c.Conflict))
			stats[way+":"+c.Expect]++
			switch {
			case got == nil && c.Expect == "duplicate":
				kind := "same-source"
				if c.Conflict {
					kind = "different-sources"
				}
				names := "equal-backend-names"
				if !c.SharedKeyB {
					names = "different-backend-names"
				}
				rep.Violate("config:accepted:two-migrations-one-destination-tree:"+names,
					fmt.Sprintf("a configuration in which two migrations (%s, %s; log_backend_name is deprecated and ignored, the process dials one "+
						"backend) feed the same destination tree was accepted (%s): both controllers submit under the same indices - conflicting "+
						"duplicates (MigrillianConfig.tla: NoConflictingFeeds / OneTreeOneMigration)", kind, names, way), replay)
			case got == nil && c.Expect == "member":
				rep.Violate("config:accepted:"+insane, fmt.Sprintf("a configuration with a member that breaks the single-config rule %q was accepted (%s) "+
					"(MigrillianConfig.tla: SaneAccepted)", insane, way), replay)
			case got != nil && c.Expect == "accept":
				rep.Violate("config:refused:usable-set", fmt.Sprintf("a configuration of sane members feeding pairwise different trees was refused (%s): %v "+
					"(MigrillianConfig.tla: UsableAccepted)", way, got), replay)
			}
		}
		// 1. the value
		if got, p := guarded("core.ValidateConfig", rep, replay, func() error { return core.ValidateConfig(cfg) }); !p {
			judge("value", got)
		}
		// 2. single members through the member validator
		if c.N == 1 {
			if got, p := guarded("core.ValidateMigrationConfig", rep, replay, func() error { return core.ValidateMigrationConfig(cfg.MigrationConfigs.Config[0]) }); !p {
				judge("member", got)
			}
		}
		// 3. the files, as main.go reads them
		for _, f := range []struct {
			way  string
			data []byte
		}{{"textfile", []byte(txt.String())}, {"binfile", bin}} {
			fn := filepath.Join(dir, f.way+".cfg")
			if err := os.WriteFile(fn, f.data, 0o644); err != nil {
				t.Fatal(err)
			}
			var loaded *configpb.MigrillianConfig
			lerr, p := guarded("core.LoadConfigFromFile", rep, replay, func() error {
				var e error
				loaded, e = core.LoadConfigFromFile(fn)
				return e
			})
			if p {
				continue
			}
			if lerr != nil || loaded == nil {
				rep.Violate("config:load:well-formed-file-refused:"+f.way, fmt.Sprintf("LoadConfigFromFile refused a well-formed %s: %v", f.way, lerr),
					map[string]any{"members": c.Members, "expect": c.Expect, "file": string(f.data)})
				continue
			}
			if !proto.Equal(loaded, cfg) {
				rep.Violate("config:load:file-read-differently:"+f.way, fmt.Sprintf("LoadConfigFromFile read a %s as %v, written %v", f.way, loaded, cfg),
					map[string]any{"members": c.Members, "expect": c.Expect, "file": string(f.data)})
				continue
			}
			if got, p := guarded("core.ValidateConfig", rep, replay, func() error { return core.ValidateConfig(loaded) }); !p {
				judge(f.way, got)
			}
		}
		rep.Replayed++
	}
	for k, v := range stats {
		rep.Add("cfg_"+k, v)
	}
	if err := rep.Write(); err != nil {
		t.Fatal(err)
	}
}
