//go:build go1.25

// Package c16 binds spec/client/Fetcher.tla to scanner.Fetcher / scanner.Scanner: a scripted log
// client (short reads, counted transient errors, a tree that grows), the real Fetcher.Run /
// Scanner.Scan under testing/synctest virtual time, recorded traces for FetcherTrace.tla, replay
// of TLC-generated reply scripts, and oracle-free monitors.
package c16

import (
	"context"
	"crypto/x509/pkix"
	"encoding/asn1"
	"errors"
	"fmt"
	"io"
	"math/rand"
	"net"
	"net/url"
	"sync"
	"time"

	ct "github.com/google/certificate-transparency-go"
	"github.com/google/certificate-transparency-go/jsonclient"
	"github.com/google/certificate-transparency-go/x509"
	"google.golang.org/grpc/codes"
	"google.golang.org/grpc/status"
	"k8s.io/klog/v2"

	"verifharness/pki"
	"verifharness/ref"
)

func init() {
	// the fetcher logs every failed request
	klog.LogToStderr(false)
	klog.SetOutput(io.Discard)
}

// MaxN is the number of entries the world's log can publish (FetcherTrace.cfg: MaxSize; ScannerFanout*.cfg: WorldSize).
const MaxN = 24

// TraceN bounds the tree sizes of the randomly configured runs (TestTrace, TestBeyondTree); the cases of
// ScannerFanout.tla use the whole world.
const TraceN = 16

// Entry is what the harness knows about the entry it built for one index, independently of the repository's parsers.
type Entry struct {
	Leaf    ct.LeafEntry
	Precert bool
	// Class: how the (pre-)certificate inside the entry parses.
	//   clean    - without complaint
	//   nonfatal - the repository's parser yields the certificate together with non-fatal errors only (a 3-byte
	//              iPAddress in the SAN, an empty AuthorityInfoAccess): such entries are matched like any other
	//   fatal    - not a certificate at all (truncated DER): a Matcher-type matcher never gets to see it, a LeafMatcher does
	Class string
	CN      string
	TS      uint64
	DER     []byte // the (pre-)certificate as submitted
}

// World is the log content: entries of both kinds with subject names from two families.
type World struct {
	Entries []Entry
}

var (
	oidSAN = asn1.ObjectIdentifier{2, 5, 29, 17}
	oidAIA = asn1.ObjectIdentifier{1, 3, 6, 1, 5, 5, 7, 1, 1}
)

// NewWorld builds MaxN entries: real X.509 / precertificate entries (leaf_input and extra_data encoded by harness/ref)
// of the three parse classes.
func NewWorld(rng *rand.Rand) *World {
	root := pki.NewRoot(pki.Opts{CN: "c16 root"})
	w := &World{}
	pattern := []string{"clean", "nonfatal", "clean", "nonfatal", "fatal"}
	off := rng.Intn(len(pattern))
	flip := rng.Intn(2)
	perClass := map[string]int{}
	for i := 0; i < MaxN; i++ {
		fam := "alpha"
		if rng.Intn(3) == 0 {
			fam = "beta"
		}
		class := pattern[(i+off)%len(pattern)]
		perClass[class]++ // kinds alternate within a class, so every (class, kind) pair occurs
		variant := 0
		if class == "nonfatal" {
			variant = rng.Intn(2)
		}
		w.Entries = append(w.Entries, buildEntry(root, i, class, (perClass[class]+flip)%2 == 0, fam, variant))
	}
	return w
}

// WorldSpec is the log content a specification prescribes (ScannerFanoutMC.tla, record WORLD): per index the entry
// kind ("x509" | "precert"), the parse class and the family of the subject name.
type WorldSpec struct {
	Kind, Class, Fam []string
}

// NewWorldFrom builds the entries the specification describes.
func NewWorldFrom(ws *WorldSpec) (*World, error) {
	if len(ws.Kind) != MaxN || len(ws.Class) != MaxN || len(ws.Fam) != MaxN {
		return nil, fmt.Errorf("the specification's log has %d/%d/%d entries, the harness is built for %d", len(ws.Kind), len(ws.Class), len(ws.Fam), MaxN)
	}
	root := pki.NewRoot(pki.Opts{CN: "c16 root"})
	w := &World{}
	for i := 0; i < MaxN; i++ {
		if ws.Kind[i] != "x509" && ws.Kind[i] != "precert" || ws.Fam[i] != "alpha" && ws.Fam[i] != "beta" {
			return nil, fmt.Errorf("entry %d: kind %q family %q", i, ws.Kind[i], ws.Fam[i])
		}
		w.Entries = append(w.Entries, buildEntry(root, i, ws.Class[i], ws.Kind[i] == "precert", ws.Fam[i], i/2%2))
	}
	return w, nil
}

// buildEntry makes entry i of a log: a (pre-)certificate for h<i>.<fam>.test of the given parse class with the
// timestamp 1700000000000 + 1000*i ms (so that the second of the timestamp has the parity of i).
func buildEntry(root *pki.Node, i int, class string, precert bool, fam string, variant int) Entry {
	e := Entry{Precert: precert, CN: fmt.Sprintf("h%d.%s.test", i, fam), TS: uint64(1700000000000 + i*1000), Class: class}
	o := pki.Opts{CN: e.CN, DNS: []string{e.CN}}
	if e.Precert {
		o.Poison = "ok"
	}
	if e.Class == "nonfatal" {
		o.Unparsable = true
		if variant == 0 {
			o.Extra = []pkix.Extension{{Id: oidSAN, Value: []byte{0x30, 0x05, 0x87, 0x03, 1, 2, 3}}} // iPAddress of 3 bytes
		} else {
			o.Extra = []pkix.Extension{{Id: oidAIA, Value: []byte{0x30, 0x00}}} // empty AuthorityInfoAccess
		}
	}
	leaf := root.Issue(o)
	e.DER = leaf.DER
	ent, err := ref.EntryForChain([][]byte{leaf.DER, root.DER}, false)
	if err != nil {
		panic(err)
	}
	if (ent.Type == ref.PrecertEntry) != e.Precert {
		panic("entry type")
	}
	if e.Class == "fatal" {
		// the logged (pre-)certificate is cut in the middle; the TLS structures around it are intact
		e.CN = ""
		if e.Precert {
			ent.TBS = ent.TBS[:len(ent.TBS)/2]
		} else {
			ent.Cert = ent.Cert[:len(ent.Cert)/2]
			e.DER = ent.Cert
		}
	}
	e.Leaf.LeafInput = ref.MerkleTreeLeaf(e.TS, ent, nil)
	if e.Precert {
		e.Leaf.ExtraData = ref.PrecertChainEntry(leaf.DER, root.DER)
	} else {
		e.Leaf.ExtraData = ref.CertChain(root.DER)
	}
	return e
}

// CheckClasses confirms the precondition the classes rest on (an input check, not an oracle): the repository's parser
// accepts the clean entries silently, yields the nonfatal ones with non-fatal errors only, refuses the fatal ones.
func (w *World) CheckClasses() error {
	for i := range w.Entries {
		e := &w.Entries[i]
		le, err := ct.LogEntryFromLeaf(int64(i), &e.Leaf)
		got := "clean"
		switch {
		case le == nil || x509.IsFatal(err):
			got = "fatal"
		case err != nil:
			got = "nonfatal"
		}
		if got != e.Class {
			return fmt.Errorf("entry %d (precert=%v) was built as %s but parses as %s: %v", i, e.Precert, e.Class, got, err)
		}
	}
	return nil
}

// Reply is one scripted answer to get-entries: N entries (clipped to what was asked), or an error class.
type Reply struct {
	N   int
	Err string // "", "429", "5xx", "net", "unavail", "deadline", "canceled"
}

// STHReply is one scripted answer to get-sth.
type STHReply struct {
	Size int64
	Err  string
}

func errorOf(kind string) error {
	switch kind {
	case "429":
		return jsonclient.RspError{Err: errors.New("got HTTP Status \"429 Too Many Requests\""), StatusCode: 429}
	case "5xx":
		return jsonclient.RspError{Err: errors.New("got HTTP Status \"503 Service Unavailable\""), StatusCode: 503}
	case "net":
		return &net.OpError{Op: "read", Net: "tcp", Err: errors.New("connection reset by peer")}
	case "unavail":
		return status.Error(codes.Unavailable, "backend unavailable") // the class backoff.Retry pauses on
	case "deadline":
		// the request timed out on its own (http.Client.Timeout / a per-request deadline); the run's context is alive
		return &url.Error{Op: "Get", URL: "fake://c16/ct/v1/get-entries", Err: context.DeadlineExceeded}
	case "canceled":
		// the transport gave the request up (e.g. a per-request context of the client); the run's context is alive
		return fmt.Errorf("get-entries: request abandoned by the transport: %w", context.Canceled)
	}
	panic("unknown error kind " + kind)
}

// Fake is the scripted scanner.LogClient.  Everything observable happens under mu, which also orders the trace.
type Fake struct {
	mu   sync.Mutex
	w    *World
	size int64 // entries published
	ev   []map[string]any

	// scripted mode (replay of TLC runs)
	scripted  bool
	reqScript map[int64][]Reply
	sthScript []STHReply
	sthPos    int
	final     int64
	run       any // the TLC run the scripts come from

	// random mode (trace recording)
	rng       *rand.Rand
	errBudget int
	errKinds  []string

	// case mode (ScannerFanout.tla): the reply to a request starting at s has replyAt[s] entries (clipped to what was
	// asked; everything asked for when s is not listed), whatever was injected before; tree heads never fail
	replyAt map[int64]int
	ws      *WorldSpec // the WORLD record the log content was built from (goes into replay files)

	lat *rand.Rand // virtual latencies (never influences which reply is given in scripted mode)

	nreq     int
	onReq    func(n int) // called under mu after the n-th Req was logged
	reqCap   int
	runaway  bool
	beyond   bool
	cancel   context.CancelFunc
	sthCalls int
	sthErrs  int
	reqErrs  int
	shorts   int

	// what the callbacks got
	got     map[int64][]ct.LeafEntry
	batches [][2]int64
	certs   map[int64][]string // index -> kinds of callbacks
	badRaw  []string
}

func (f *Fake) emit(ev map[string]any) {
	f.ev = append(f.ev, ev)
}

// Emit logs an event of the test driver (Reset, Stop, Cancel, Return) in trace order.
func (f *Fake) Emit(ev map[string]any, then func()) {
	f.mu.Lock()
	defer f.mu.Unlock()
	f.emit(ev)
	if then != nil {
		then()
	}
}

// Publish makes the log grow to size n.
func (f *Fake) Publish(n int64) {
	f.mu.Lock()
	defer f.mu.Unlock()
	if n > f.size {
		f.size = n
		f.emit(map[string]any{"ev": "Publish", "size": n})
	}
}

// BaseURI implements scanner.LogClient.
func (f *Fake) BaseURI() string { return "fake://c16" }

// GetSTH implements scanner.LogClient.
func (f *Fake) GetSTH(ctx context.Context) (*ct.SignedTreeHead, error) {
	f.mu.Lock()
	defer f.mu.Unlock()
	f.sthCalls++
	if err := ctx.Err(); err != nil {
		f.emit(map[string]any{"ev": "STH", "size": 0, "err": "ctx"})
		return nil, err
	}
	kind := ""
	if f.scripted {
		if f.sthPos < len(f.sthScript) {
			r := f.sthScript[f.sthPos]
			f.sthPos++
			if r.Err != "" {
				kind = r.Err
			} else if r.Size > f.size {
				f.size = r.Size
				f.emit(map[string]any{"ev": "Publish", "size": r.Size})
			}
		} else if f.final > f.size {
			f.size = f.final
			f.emit(map[string]any{"ev": "Publish", "size": f.final})
		}
	} else if f.replyAt == nil && f.errBudget > 0 && f.rng.Intn(4) == 0 {
		f.errBudget--
		kind = f.errKinds[f.rng.Intn(len(f.errKinds))]
	}
	if kind != "" {
		f.sthErrs++
		f.emit(map[string]any{"ev": "STH", "size": 0, "err": kind})
		return nil, errorOf(kind)
	}
	f.emit(map[string]any{"ev": "STH", "size": f.size, "err": ""})
	return &ct.SignedTreeHead{TreeSize: uint64(f.size), Timestamp: uint64(f.size)}, nil
}

// GetRawEntries implements scanner.LogClient.
func (f *Fake) GetRawEntries(ctx context.Context, start, end int64) (*ct.GetEntriesResponse, error) {
	f.mu.Lock()
	f.nreq++
	f.emit(map[string]any{"ev": "Req", "start": start, "end": end})
	bad := start < 0 || end < start || end >= f.size
	if bad {
		f.beyond = true // a request no log could answer: outside the published tree or empty
	}
	if f.nreq > f.reqCap && !f.runaway {
		f.runaway = true
		f.emit(map[string]any{"ev": "Cancel"})
		f.cancel()
	}
	if f.onReq != nil {
		f.onReq(f.nreq)
	}
	d := time.Duration(f.lat.Intn(2000)) * time.Millisecond
	f.mu.Unlock()

	select { // the request is on the wire
	case <-time.After(d):
	case <-ctx.Done():
	}

	f.mu.Lock()
	defer f.mu.Unlock()
	if err := ctx.Err(); err != nil && f.lat.Intn(2) == 0 {
		// (a reply that raced with the cancellation may still arrive: the other half of the cases)
		f.emit(map[string]any{"ev": "Rsp", "start": start, "n": 0, "err": "ctx"})
		return nil, err
	}
	if bad {
		f.emit(map[string]any{"ev": "Rsp", "start": start, "n": 0, "err": "400"})
		return nil, jsonclient.RspError{Err: errors.New("got HTTP Status \"400 Bad Request\""), StatusCode: 400}
	}
	asked := int(end - start + 1)
	n, kind := asked, ""
	if f.scripted {
		if q := f.reqScript[start]; len(q) > 0 {
			f.reqScript[start] = q[1:]
			if q[0].Err != "" {
				kind = q[0].Err
			} else if q[0].N < asked {
				n = q[0].N
			}
		}
	} else {
		if f.errBudget > 0 && f.rng.Intn(4) == 0 {
			f.errBudget--
			kind = f.errKinds[f.rng.Intn(len(f.errKinds))]
		} else if f.replyAt != nil {
			if k, ok := f.replyAt[start]; ok && k >= 1 && k < asked {
				n = k
			}
		} else if f.rng.Intn(2) == 0 {
			n = 1 + f.rng.Intn(asked)
		}
	}
	if kind != "" {
		f.reqErrs++
		f.emit(map[string]any{"ev": "Rsp", "start": start, "n": 0, "err": kind})
		return nil, errorOf(kind)
	}
	if n < asked {
		f.shorts++
	}
	f.emit(map[string]any{"ev": "Rsp", "start": start, "n": n, "err": ""})
	rsp := &ct.GetEntriesResponse{}
	for i := int64(0); i < int64(n); i++ {
		e := f.w.Entries[start+i].Leaf
		rsp.Entries = append(rsp.Entries, ct.LeafEntry{LeafInput: append([]byte{}, e.LeafInput...), ExtraData: append([]byte{}, e.ExtraData...)})
	}
	return rsp, nil
}
