//go:build go1.25

// Package c16 binds spec/client/Fetcher.tla to scanner.Fetcher / scanner.Scanner: a scripted log
// client (short reads, counted transient errors, a tree that grows), the real Fetcher.Run /
// Scanner.Scan under testing/synctest virtual time, recorded traces for FetcherTrace.tla, replay
// of TLC-generated reply scripts, and oracle-free monitors.
package c16

import (
	"context"
	"errors"
	"fmt"
	"io"
	"math/rand"
	"net"
	"net/url"
	"strings"
	"sync"
	"time"

	ct "github.com/google/certificate-transparency-go"
	"github.com/google/certificate-transparency-go/jsonclient"
	"github.com/google/certificate-transparency-go/x509"
	"google.golang.org/grpc/codes"
	"google.golang.org/grpc/status"
	"k8s.io/klog/v2"

	"verifharness/pki"
	"verifharness/ref"
)

func init() {
	// the fetcher logs every failed request
	klog.LogToStderr(false)
	klog.SetOutput(io.Discard)
}

// MaxN is the number of entries the world's log can publish (FetcherTrace.cfg: MaxSize; ScannerFanout*.cfg: WorldSize).
const MaxN = 24

// TraceN bounds the tree sizes of the randomly configured runs (TestTrace, TestBeyondTree); the cases of
// ScannerFanout.tla use the whole world.
const TraceN = 16

// Entry is what the harness knows about the entry it built for one index, independently of the repository's parsers.
type Entry struct {
	Leaf    ct.LeafEntry
	Precert bool
	// Class (ScanSelect.tla, ClassName): the layers of the defects the (pre-)certificate inside the entry carries -
	//   clean                       none
	//   der, field, der+field, ...  tolerable defects only (a strict decoder refuses the outer structure and a lenient one
	//                               reads it; a field breaks its own syntax): the certificate can be read, such entries are
	//                               matched like any other - real logs are full of them
	//   fatal, fatal+...            not a certificate at all: a Matcher-type matcher never gets to see it, a LeafMatcher does
	Class   string
	Defects []string // the concrete defects (defects.go)
	Fam     string   // family of the subject name: alpha | beta
	CN      string
	TS      uint64
	DER     []byte // the (pre-)certificate as submitted
}

// World is the log content: entries of both kinds with subject names from two families.
type World struct {
	Entries []Entry
}

// WorldClasses is the pattern of the random worlds: every class of ScanSelect.tla; kinds alternate within a class.
var WorldClasses = []string{"clean", "der", "field", "der+field", "fatal", "clean", "field+field", "der+der", "fatal+der+field", "der+field+field",
	"der+der+field", "fatal+field"}

// NewWorld builds MaxN entries: real X.509 / precertificate entries (leaf_input and extra_data encoded by harness/ref)
// of every class, the concrete defects drawn from the catalogue.
func NewWorld(rng *rand.Rand) *World {
	root := pki.NewRoot(pki.Opts{CN: "c16 root"})
	w := &World{}
	off := rng.Intn(len(WorldClasses))
	flip := rng.Intn(2)
	perClass := map[string]int{}
	for i := 0; i < MaxN; i++ {
		fam := "alpha"
		if rng.Intn(3) == 0 {
			fam = "beta"
		}
		class := WorldClasses[(i+off)%len(WorldClasses)]
		perClass[class]++ // kinds alternate within a class, so every (class, kind) pair occurs
		w.Entries = append(w.Entries, buildEntry(root, i, defectsFor(class, rng.Intn(60)), (perClass[class]+flip)%2 == 0, fam))
	}
	return w
}

// EntryDesc describes one entry of a log (replay files carry the whole log in this form).
type EntryDesc struct {
	Precert bool
	Fam     string
	Defects []string
}

// Desc describes the log entry by entry.
func (w *World) Desc() []EntryDesc {
	out := make([]EntryDesc, len(w.Entries))
	for i := range w.Entries {
		e := &w.Entries[i]
		out[i] = EntryDesc{Precert: e.Precert, Fam: e.Fam, Defects: append([]string{}, e.Defects...)}
	}
	return out
}

// NewWorldFromDesc rebuilds a log from its description (clean entries are added up to MaxN).
func NewWorldFromDesc(d []EntryDesc) (*World, error) {
	if len(d) > MaxN {
		return nil, fmt.Errorf("the described log has %d entries, the harness is built for %d", len(d), MaxN)
	}
	root := pki.NewRoot(pki.Opts{CN: "c16 root"})
	w := &World{}
	for i := 0; i < MaxN; i++ {
		x := EntryDesc{Fam: "alpha"}
		if i < len(d) {
			x = d[i]
		}
		if x.Fam != "alpha" && x.Fam != "beta" {
			return nil, fmt.Errorf("entry %d: family %q", i, x.Fam)
		}
		for _, df := range x.Defects {
			if _, ok := DefectLayer[df]; !ok {
				return nil, fmt.Errorf("entry %d: unknown defect %q", i, df)
			}
		}
		w.Entries = append(w.Entries, buildEntry(root, i, x.Defects, x.Precert, x.Fam))
	}
	return w, nil
}

// WorldSpec is the log content a specification prescribes (ScannerFanoutMC.tla, record WORLD): per index the entry
// kind ("x509" | "precert"), the parse class and the family of the subject name.
type WorldSpec struct {
	Kind, Class, Fam []string
}

// NewWorldFrom builds the entries the specification describes; pick selects the concrete defects of each class.
func NewWorldFrom(ws *WorldSpec, pick int) (*World, error) {
	if len(ws.Kind) != MaxN || len(ws.Class) != MaxN || len(ws.Fam) != MaxN {
		return nil, fmt.Errorf("the specification's log has %d/%d/%d entries, the harness is built for %d", len(ws.Kind), len(ws.Class), len(ws.Fam), MaxN)
	}
	root := pki.NewRoot(pki.Opts{CN: "c16 root"})
	w := &World{}
	for i := 0; i < MaxN; i++ {
		if ws.Kind[i] != "x509" && ws.Kind[i] != "precert" || ws.Fam[i] != "alpha" && ws.Fam[i] != "beta" {
			return nil, fmt.Errorf("entry %d: kind %q family %q", i, ws.Kind[i], ws.Fam[i])
		}
		if _, ok := classProfile(ws.Class[i]); !ok {
			return nil, fmt.Errorf("entry %d: class %q", i, ws.Class[i])
		}
		w.Entries = append(w.Entries, buildEntry(root, i, defectsFor(ws.Class[i], pick+i), ws.Kind[i] == "precert", ws.Fam[i]))
	}
	return w, nil
}

// buildEntry makes entry i of a log: a (pre-)certificate for h<i>.<fam>.test carrying the given defects of the
// catalogue (defects.go), with the timestamp 1700000000000 + 1000*i ms (so that the second of the timestamp has the
// parity of i).  The certificate is issued clean by the standard library; the defects are edits of the bytes the log
// entry carries where a scan reads them: the certificate of an X.509 entry, the TBSCertificate of a precertificate entry.
func buildEntry(root *pki.Node, i int, defects []string, precert bool, fam string) Entry {
	e := Entry{Precert: precert, Fam: fam, CN: fmt.Sprintf("h%d.%s.test", i, fam), TS: uint64(1700000000000 + i*1000),
		Class: classOfDefects(defects), Defects: append([]string{}, defects...)}
	o := pki.Opts{CN: e.CN, DNS: []string{e.CN}}
	if e.Precert {
		o.Poison = "ok"
	}
	leaf := root.Issue(o)
	e.DER = leaf.DER
	ent, err := ref.EntryForChain([][]byte{leaf.DER, root.DER}, false)
	if err != nil {
		panic(err)
	}
	if (ent.Type == ref.PrecertEntry) != e.Precert {
		panic("entry type")
	}
	if len(defects) > 0 {
		// the TLS structures around the (pre-)certificate stay intact
		if e.Precert {
			if ent.TBS, err = applyDefects(ent.TBS, true, defects); err != nil {
				panic(err)
			}
		} else {
			if ent.Cert, err = applyDefects(ent.Cert, false, defects); err != nil {
				panic(err)
			}
			e.DER = ent.Cert
		}
	}
	if isFatalClass(e.Class) {
		e.CN = ""
	}
	e.Leaf.LeafInput = ref.MerkleTreeLeaf(e.TS, ent, nil)
	if e.Precert {
		e.Leaf.ExtraData = ref.PrecertChainEntry(leaf.DER, root.DER)
	} else {
		e.Leaf.ExtraData = ref.CertChain(root.DER)
	}
	return e
}

// classProfile: ScanSelect.tla, Profile - how many defects of each tolerable layer, whether a fatal one.
func classProfile(class string) (p struct {
	Der, Field int
	Fatal      bool
}, ok bool) {
	if class == "clean" {
		return p, true
	}
	for _, l := range strings.Split(class, "+") {
		switch l {
		case "der":
			p.Der++
		case "field":
			p.Field++
		case "fatal":
			if p.Fatal {
				return p, false
			}
			p.Fatal = true
		default:
			return p, false
		}
	}
	return p, true
}

// CheckClasses confirms that the defects were materialized (an input check, not an oracle): the repository's parser
// notices nothing in a clean entry, notices something in every other entry, and does not read a certificate out of an
// entry with a fatal defect.  Whether an entry with tolerable defects only is READ is not checked here: that is the
// statement of ScanSelect.tla (TolerableComposes) and is judged by what the scan delivers.
func (w *World) CheckClasses() error {
	for i := range w.Entries {
		e := &w.Entries[i]
		le, err := ct.LogEntryFromLeaf(int64(i), &e.Leaf)
		read := le != nil && (le.X509Cert != nil || le.Precert != nil)
		switch {
		case e.Class == "clean" && err != nil && read:
			return fmt.Errorf("entry %d (precert=%v) was issued clean by the standard library, the parser complains: %v", i, e.Precert, err)
		case e.Class != "clean" && err == nil:
			return fmt.Errorf("entry %d (precert=%v) carries the defects %v, the parser notices nothing", i, e.Precert, e.Defects)
		case isFatalClass(e.Class) && read && !x509.IsFatal(err):
			return fmt.Errorf("entry %d (precert=%v) carries the fatal defects %v, the parser reads a certificate: %v", i, e.Precert, e.Defects, err)
		}
	}
	return nil
}

// Reply is one scripted answer to get-entries: N entries (clipped to what was asked), or an error class.
type Reply struct {
	N   int
	Err string // "", "429", "5xx", "net", "unavail", "deadline", "canceled"
}

// STHReply is one scripted answer to get-sth.
type STHReply struct {
	Size int64
	Err  string
}

func errorOf(kind string) error {
	switch kind {
	case "429":
		return jsonclient.RspError{Err: errors.New("got HTTP Status \"429 Too Many Requests\""), StatusCode: 429}
	case "5xx":
		return jsonclient.RspError{Err: errors.New("got HTTP Status \"503 Service Unavailable\""), StatusCode: 503}
	case "net":
		return &net.OpError{Op: "read", Net: "tcp", Err: errors.New("connection reset by peer")}
	case "unavail":
		return status.Error(codes.Unavailable, "backend unavailable") // the class backoff.Retry pauses on
	case "deadline":
		// the request timed out on its own (http.Client.Timeout / a per-request deadline); the run's context is alive
		return &url.Error{Op: "Get", URL: "fake://c16/ct/v1/get-entries", Err: context.DeadlineExceeded}
	case "canceled":
		// the transport gave the request up (e.g. a per-request context of the client); the run's context is alive
		return fmt.Errorf("get-entries: request abandoned by the transport: %w", context.Canceled)
	}
	panic("unknown error kind " + kind)
}

// Fake is the scripted scanner.LogClient.  Everything observable happens under mu, which also orders the trace.
type Fake struct {
	mu   sync.Mutex
	w    *World
	size int64 // entries published
	ev   []map[string]any

	// scripted mode (replay of TLC runs)
	scripted  bool
	reqScript map[int64][]Reply
	sthScript []STHReply
	sthPos    int
	final     int64
	run       any // the TLC run the scripts come from

	// random mode (trace recording)
	rng       *rand.Rand
	errBudget int
	errKinds  []string

	// case mode (ScannerFanout.tla): the reply to a request starting at s has replyAt[s] entries (clipped to what was
	// asked; everything asked for when s is not listed), whatever was injected before; tree heads never fail
	replyAt map[int64]int
	ws      *WorldSpec // the WORLD record the log content was built from (goes into replay files)

	lat *rand.Rand // virtual latencies (never influences which reply is given in scripted mode)

	nreq     int
	onReq    func(n int) // called under mu after the n-th Req was logged
	reqCap   int
	runaway  bool
	beyond   bool
	cancel   context.CancelFunc
	sthCalls int
	sthErrs  int
	reqErrs  int
	shorts   int

	// what the callbacks got
	got     map[int64][]ct.LeafEntry
	batches [][2]int64
	certs   map[int64][]string // index -> kinds of callbacks
	badRaw  []string
}

func (f *Fake) emit(ev map[string]any) {
	f.ev = append(f.ev, ev)
}

// Emit logs an event of the test driver (Reset, Stop, Cancel, Return) in trace order.
func (f *Fake) Emit(ev map[string]any, then func()) {
	f.mu.Lock()
	defer f.mu.Unlock()
	f.emit(ev)
	if then != nil {
		then()
	}
}

// Publish makes the log grow to size n.
func (f *Fake) Publish(n int64) {
	f.mu.Lock()
	defer f.mu.Unlock()
	if n > f.size {
		f.size = n
		f.emit(map[string]any{"ev": "Publish", "size": n})
	}
}

// BaseURI implements scanner.LogClient.
func (f *Fake) BaseURI() string { return "fake://c16" }

// GetSTH implements scanner.LogClient.
func (f *Fake) GetSTH(ctx context.Context) (*ct.SignedTreeHead, error) {
	f.mu.Lock()
	defer f.mu.Unlock()
	f.sthCalls++
	if err := ctx.Err(); err != nil {
		f.emit(map[string]any{"ev": "STH", "size": 0, "err": "ctx"})
		return nil, err
	}
	kind := ""
	if f.scripted {
		if f.sthPos < len(f.sthScript) {
			r := f.sthScript[f.sthPos]
			f.sthPos++
			if r.Err != "" {
				kind = r.Err
			} else if r.Size > f.size {
				f.size = r.Size
				f.emit(map[string]any{"ev": "Publish", "size": r.Size})
			}
		} else if f.final > f.size {
			f.size = f.final
			f.emit(map[string]any{"ev": "Publish", "size": f.final})
		}
	} else if f.replyAt == nil && f.errBudget > 0 && f.rng.Intn(4) == 0 {
		f.errBudget--
		kind = f.errKinds[f.rng.Intn(len(f.errKinds))]
	}
	if kind != "" {
		f.sthErrs++
		f.emit(map[string]any{"ev": "STH", "size": 0, "err": kind})
		return nil, errorOf(kind)
	}
	f.emit(map[string]any{"ev": "STH", "size": f.size, "err": ""})
	return &ct.SignedTreeHead{TreeSize: uint64(f.size), Timestamp: uint64(f.size)}, nil
}

// GetRawEntries implements scanner.LogClient.
func (f *Fake) GetRawEntries(ctx context.Context, start, end int64) (*ct.GetEntriesResponse, error) {
	f.mu.Lock()
	f.nreq++
	f.emit(map[string]any{"ev": "Req", "start": start, "end": end})
	bad := start < 0 || end < start || end >= f.size
	if bad {
		f.beyond = true // a request no log could answer: outside the published tree or empty
	}
	if f.nreq > f.reqCap && !f.runaway {
		f.runaway = true
		f.emit(map[string]any{"ev": "Cancel"})
		f.cancel()
	}
	if f.onReq != nil {
		f.onReq(f.nreq)
	}
	d := time.Duration(f.lat.Intn(2000)) * time.Millisecond
	f.mu.Unlock()

	select { // the request is on the wire
	case <-time.After(d):
	case <-ctx.Done():
	}

	f.mu.Lock()
	defer f.mu.Unlock()
	if err := ctx.Err(); err != nil && f.lat.Intn(2) == 0 {
		// (a reply that raced with the cancellation may still arrive: the other half of the cases)
		f.emit(map[string]any{"ev": "Rsp", "start": start, "n": 0, "err": "ctx"})
		return nil, err
	}
	if bad {
		f.emit(map[string]any{"ev": "Rsp", "start": start, "n": 0, "err": "400"})
		return nil, jsonclient.RspError{Err: errors.New("got HTTP Status \"400 Bad Request\""), StatusCode: 400}
	}
	asked := int(end - start + 1)
	n, kind := asked, ""
	if f.scripted {
		if q := f.reqScript[start]; len(q) > 0 {
			f.reqScript[start] = q[1:]
			if q[0].Err != "" {
				kind = q[0].Err
			} else if q[0].N < asked {
				n = q[0].N
			}
		}
	} else {
		if f.errBudget > 0 && f.rng.Intn(4) == 0 {
			f.errBudget--
			kind = f.errKinds[f.rng.Intn(len(f.errKinds))]
		} else if f.replyAt != nil {
			if k, ok := f.replyAt[start]; ok && k >= 1 && k < asked {
				n = k
			}
		} else if f.rng.Intn(2) == 0 {
			n = 1 + f.rng.Intn(asked)
		}
	}
	if kind != "" {
		f.reqErrs++
		f.emit(map[string]any{"ev": "Rsp", "start": start, "n": 0, "err": kind})
		return nil, errorOf(kind)
	}
	if n < asked {
		f.shorts++
	}
	f.emit(map[string]any{"ev": "Rsp", "start": start, "n": n, "err": ""})
	rsp := &ct.GetEntriesResponse{}
	for i := int64(0); i < int64(n); i++ {
		e := f.w.Entries[start+i].Leaf
		rsp.Entries = append(rsp.Entries, ct.LeafEntry{LeafInput: append([]byte{}, e.LeafInput...), ExtraData: append([]byte{}, e.ExtraData...)})
	}
	return rsp, nil
}
