//go:build go1.25

package c16

// defects.go: the materialization of the defect catalogue of spec/client/ScanSelect.tla with real DER.
//
// A defect is an edit of the DER tree of a well-formed (pre-)certificate issued by the standard library; the
// enclosing lengths are rebuilt, so everything around the edited field stays well-formed.  The scanner never
// verifies a signature, so the edited certificate is not signed again.  The specification says which LAYER a defect
// belongs to and what a scan owes an entry carrying a set of them; this file only says how the bytes are made.
//
//   layer "der"    the outer structure (Certificate / TBSCertificate) is BER that a strict DER decoder refuses and a
//                  lenient one reads unambiguously
//   layer "field"  the content of one field breaks that field's own syntax or profile; the certificate around it reads
//   layer "fatal"  no certificate can be read from the bytes at all

import (
	"fmt"
	"sort"
	"strings"
)

var (
	oidSANc = []byte{0x55, 0x1d, 0x11}
	oidEKUc = []byte{0x55, 0x1d, 0x25}
	oidAIAc = []byte{0x2b, 0x06, 0x01, 0x05, 0x05, 0x07, 0x01, 0x01}
	oidSIAc = []byte{0x2b, 0x06, 0x01, 0x05, 0x05, 0x07, 0x01, 0x0b}
)

// DefectLayer is the catalogue (ScanSelect.tla: DerDefects / FieldDefects / FatalDefects); TestClasses checks that it
// is the specification's.
var DefectLayer = map[string]string{
	"serial-pad":     "der",   // serialNumber INTEGER with a redundant leading zero octet
	"version-pad":    "der",   // version INTEGER encoded in two octets
	"extid-empty":    "der",   // an extension whose extnID is an OBJECT IDENTIFIER of length zero
	"san-ip3":        "field", // subjectAltName with an iPAddress of three octets
	"aia-empty":      "field", // authorityInfoAccess: empty SEQUENCE
	"sia-empty":      "field", // subjectInfoAccess: empty SEQUENCE
	"eku-empty":      "field", // extKeyUsage: extnValue of length zero
	"name-printable": "field", // a PrintableString of the subject holds '@'
	"cut":            "fatal", // the (pre-)certificate is cut in the middle
	"trailing":       "fatal", // one more octet after the (pre-)certificate
	"time-month13":   "fatal", // notBefore names month 13
	"outer-set":      "fatal", // the outermost identifier octet says SET
}

type treeEdit func(c *certTree) error
type byteEdit func(b []byte) []byte

var treeEdits = map[string]treeEdit{
	"serial-pad": func(c *certTree) error {
		s := c.tbs().kids[tbsSerial]
		if s.tag != 0x02 || len(s.content) == 0 || s.content[0] >= 0x80 {
			return errDER
		}
		s.content = append([]byte{0x00}, s.content...)
		return nil
	},
	"version-pad": func(c *certTree) error {
		v := c.tbs().kids[tbsVersion]
		if len(v.kids) != 1 || v.kids[0].tag != 0x02 || len(v.kids[0].content) != 1 {
			return errDER
		}
		v.kids[0].content = append([]byte{0x00}, v.kids[0].content...)
		return nil
	},
	"extid-empty": func(c *certTree) error { return c.addExt(nil, []byte{0x05, 0x00}) },
	"san-ip3": func(c *certTree) error {
		e := c.ext(oidSANc)
		if e == nil {
			return errDER
		}
		v, err := parseDER(e.kids[len(e.kids)-1].content)
		if err != nil || v.tag != 0x30 {
			return errDER
		}
		v.kids = append(v.kids, prim(0x87, 1, 2, 3))
		e.kids[len(e.kids)-1].content = v.encode()
		return nil
	},
	"aia-empty": func(c *certTree) error { return c.addExt(oidAIAc, []byte{0x30, 0x00}) },
	"sia-empty": func(c *certTree) error { return c.addExt(oidSIAc, []byte{0x30, 0x00}) },
	"eku-empty": func(c *certTree) error {
		if c.ext(oidEKUc) != nil {
			return errDER
		}
		return c.addExt(oidEKUc, nil)
	},
	"name-printable": func(c *certTree) error {
		// the organization attribute of the subject (the common name, which the regex matcher reads, stays as issued)
		for _, rdn := range c.tbs().kids[tbsSubject].kids {
			for _, atv := range rdn.kids {
				if len(atv.kids) == 2 && string(atv.kids[0].content) == "\x55\x04\x0a" && atv.kids[1].tag == 0x13 && len(atv.kids[1].content) > 1 {
					atv.kids[1].content[1] = '@'
					return nil
				}
			}
		}
		return errDER
	},
	"time-month13": func(c *certTree) error {
		nb := c.tbs().kids[tbsValidity].kids[0]
		if nb.tag != 0x17 || len(nb.content) != 13 {
			return errDER
		}
		nb.content[2], nb.content[3] = '1', '3'
		return nil
	},
}

var byteEdits = map[string]byteEdit{
	"cut":       func(b []byte) []byte { return b[:len(b)/2] },
	"trailing":  func(b []byte) []byte { return append(append([]byte{}, b...), 0x00) },
	"outer-set": func(b []byte) []byte { o := append([]byte{}, b...); o[0] = 0x31; return o },
}

// applyDefects edits the certificate (bare: TBSCertificate) der: tree edits first (sorted by name), then the edit of the
// encoded bytes, if any.
func applyDefects(der []byte, bare bool, defects []string) ([]byte, error) {
	ds := append([]string{}, defects...)
	sort.Strings(ds)
	c, err := parseCertTree(der, bare)
	if err != nil {
		return nil, err
	}
	var last byteEdit
	for _, d := range ds {
		if _, ok := DefectLayer[d]; !ok {
			return nil, fmt.Errorf("unknown defect %q", d)
		}
		if f, ok := treeEdits[d]; ok {
			if err := f(c); err != nil {
				return nil, fmt.Errorf("defect %s: %v", d, err)
			}
			continue
		}
		if last != nil {
			return nil, fmt.Errorf("defects %v: two edits of the encoded bytes", ds)
		}
		last = byteEdits[d]
	}
	out := c.root.encode()
	if last != nil {
		out = last(out)
	}
	return out, nil
}

// classOfDefects is ScanSelect.tla, ClassName: the layers of the defects, sorted ("clean" for none, "fatal" first).
func classOfDefects(defects []string) string {
	n := map[string]int{}
	for _, d := range defects {
		n[DefectLayer[d]]++
	}
	var parts []string
	if n["fatal"] > 0 {
		parts = append(parts, "fatal")
	}
	for i := 0; i < n["der"]; i++ {
		parts = append(parts, "der")
	}
	for i := 0; i < n["field"]; i++ {
		parts = append(parts, "field")
	}
	if len(parts) == 0 {
		return "clean"
	}
	return strings.Join(parts, "+")
}

// isFatalClass: ScanSelect.tla, ParseClass(class) = "fatal".
func isFatalClass(class string) bool { return class == "fatal" || strings.HasPrefix(class, "fatal+") }

// defectsFor picks, for a class name, concrete defects of the catalogue: the pick-th combination (deterministic).
func defectsFor(class string, pick int) []string {
	if class == "clean" {
		return nil
	}
	byLayer := map[string][]string{}
	for d, l := range DefectLayer {
		byLayer[l] = append(byLayer[l], d)
	}
	for _, l := range byLayer {
		sort.Strings(l)
	}
	var out []string
	used := map[string]int{}
	for k, layer := range strings.Split(class, "+") {
		pool := byLayer[layer]
		if len(pool) == 0 {
			panic("class " + class)
		}
		// distinct defects within a layer: the first by pick, the following ones at growing distance
		idx := (pick + k*7 + used[layer]*(1+pick%(len(pool)-1))) % len(pool)
		for contains(out, pool[idx]) {
			idx = (idx + 1) % len(pool)
		}
		used[layer]++
		out = append(out, pool[idx])
	}
	return out
}

func contains(l []string, s string) bool {
	for _, x := range l {
		if x == s {
			return true
		}
	}
	return false
}
