//go:build go1.25

package c16

// der.go: a minimal DER tree (identifier octet, definite length, content) - enough to find the fields of a certificate
// issued by the standard library and to rebuild the enclosing lengths after an edit.  It shares no code with the
// repository's asn1 fork (same approach as harness/c11/der.go).

import (
	"errors"
	"fmt"
)

type node struct {
	tag     byte
	content []byte // primitive
	kids    []*node
}

var errDER = errors.New("der: malformed")

func parseTLV(b []byte, off, depth int) (*node, int, error) {
	if off+2 > len(b) || depth > 40 {
		return nil, 0, errDER
	}
	tag := b[off]
	if tag&0x1f == 0x1f {
		return nil, 0, errDER
	}
	p := off + 1
	l := int(b[p])
	p++
	if l&0x80 != 0 {
		n := l & 0x7f
		if n == 0 || n > 4 || p+n > len(b) {
			return nil, 0, errDER
		}
		l = 0
		for i := 0; i < n; i++ {
			l = l<<8 | int(b[p+i])
		}
		p += n
	}
	if l < 0 || p+l > len(b) {
		return nil, 0, errDER
	}
	n := &node{tag: tag}
	body := b[p : p+l]
	if tag&0x20 != 0 {
		for q := 0; q < len(body); {
			k, used, err := parseTLV(b, p+q, depth+1)
			if err != nil {
				return nil, 0, err
			}
			n.kids = append(n.kids, k)
			q += used
		}
	} else {
		n.content = append([]byte{}, body...)
	}
	return n, p + l - off, nil
}

func parseDER(b []byte) (*node, error) {
	n, used, err := parseTLV(b, 0, 0)
	if err != nil {
		return nil, err
	}
	if used != len(b) {
		return nil, fmt.Errorf("der: %d trailing bytes", len(b)-used)
	}
	return n, nil
}

func encLen(l int) []byte {
	switch {
	case l < 0x80:
		return []byte{byte(l)}
	case l < 0x100:
		return []byte{0x81, byte(l)}
	case l < 0x10000:
		return []byte{0x82, byte(l >> 8), byte(l)}
	}
	return []byte{0x83, byte(l >> 16), byte(l >> 8), byte(l)}
}

func (n *node) encode() []byte {
	body := n.content
	if n.tag&0x20 != 0 {
		body = nil
		for _, k := range n.kids {
			body = append(body, k.encode()...)
		}
	}
	out := append([]byte{n.tag}, encLen(len(body))...)
	return append(out, body...)
}

func prim(tag byte, content ...byte) *node { return &node{tag: tag, content: content} }
func cons(tag byte, kids ...*node) *node   { return &node{tag: tag, kids: kids} }

// positions in TBSCertificate (version present)
const (
	tbsVersion = iota
	tbsSerial
	tbsSigAlg
	tbsIssuer
	tbsValidity
	tbsSubject
	tbsSPKI
)

// certTree is a certificate, or a bare TBSCertificate (what a precertificate entry logs).
type certTree struct {
	root *node
	bare bool
}

func (c *certTree) tbs() *node {
	if c.bare {
		return c.root
	}
	return c.root.kids[0]
}

func parseCertTree(der []byte, bare bool) (*certTree, error) {
	n, err := parseDER(der)
	if err != nil {
		return nil, err
	}
	c := &certTree{root: n, bare: bare}
	if !bare && (n.tag != 0x30 || len(n.kids) != 3) {
		return nil, errDER
	}
	t := c.tbs()
	if t.tag != 0x30 || len(t.kids) < 8 || t.kids[0].tag != 0xa0 {
		return nil, errDER
	}
	return c, nil
}

// extList is the SEQUENCE OF Extension.
func (c *certTree) extList() *node {
	for _, k := range c.tbs().kids[tbsSPKI+1:] {
		if k.tag == 0xa3 && len(k.kids) == 1 {
			return k.kids[0]
		}
	}
	return nil
}

// ext finds the extension with the given OID content octets.
func (c *certTree) ext(oid []byte) *node {
	l := c.extList()
	if l == nil {
		return nil
	}
	for _, e := range l.kids {
		if len(e.kids) >= 2 && e.kids[0].tag == 0x06 && string(e.kids[0].content) == string(oid) {
			return e
		}
	}
	return nil
}

// addExt appends a non-critical extension.
func (c *certTree) addExt(oid []byte, value []byte) error {
	l := c.extList()
	if l == nil {
		return errDER
	}
	l.kids = append(l.kids, cons(0x30, prim(0x06, oid...), prim(0x04, value...)))
	return nil
}
