//go:build go1.25

package c16

import (
	"fmt"
	"os"
	"sort"
	"strings"
	"testing"
	"testing/synctest"

	ct "github.com/google/certificate-transparency-go"
	"github.com/google/certificate-transparency-go/x509"

	"verifharness/vh"
)

// ClassCase is one case exported by TLC (ScanClasses.tla, ExportOf): an entry described by its kind and the set of
// defects its (pre-)certificate carries, with what the specification makes of it.
type ClassCase struct {
	Defects      []string
	Kind         string
	Class        string // ScanSelect.tla, ClassName
	Parse        string // clean | nonfatal | fatal
	AskedMatcher bool   // a Matcher-type matcher is asked about the entry
	AskedLeaf    bool   // a LeafMatcher is
}

// Catalogue is the record CATALOGUE of ScanClasses.tla.
type Catalogue struct {
	Der, Field, Fatal, Classes []string
}

// TestClasses runs every case of ScanClasses.tla through the real scanner: the cases (every set of defects of the
// catalogue with at most two per tolerable layer and at most one fatal, for both entry kinds) are built with real DER,
// shuffled and laid out in logs of MaxN entries; every log is scanned by the real Scanner.Scan with Matcher-type and
// LeafMatcher-type matchers (batch size, fetchers, matcher workers, buffer and injected errors drawn at random).  The
// callbacks made must be exactly the ones the specification owes: wants /\ IsAsked(class, matcher type), of the entry's kind.
func TestClasses(t *testing.T) {
	path, cpath := os.Getenv("VERIF_CLASS_CASES"), os.Getenv("VERIF_CLASS_CATALOGUE")
	if path == "" || cpath == "" {
		t.Skip("VERIF_CLASS_CASES / VERIF_CLASS_CATALOGUE not set")
	}
	cases, err := vh.LoadNDJSON[ClassCase](path)
	if err != nil || len(cases) == 0 {
		t.Fatal("cannot load the cases: ", err)
	}
	cats, err := vh.LoadNDJSON[Catalogue](cpath)
	if err != nil || len(cats) != 1 {
		t.Fatal("cannot load the CATALOGUE record: ", err)
	}
	// the catalogue of the harness is the specification's
	n := 0
	for layer, ds := range map[string][]string{"der": cats[0].Der, "field": cats[0].Field, "fatal": cats[0].Fatal} {
		for _, d := range ds {
			n++
			if DefectLayer[d] != layer {
				t.Fatalf("defect %q: layer %q in the specification, %q in the harness", d, layer, DefectLayer[d])
			}
		}
	}
	if n != len(DefectLayer) {
		t.Fatalf("the specification's catalogue has %d defects, the harness's %d", n, len(DefectLayer))
	}
	for i := range cases {
		c := &cases[i]
		sort.Strings(c.Defects)
		if got := classOfDefects(c.Defects); got != c.Class {
			t.Fatalf("case %d %v: class %q in the specification, %q in the harness", i, c.Defects, c.Class, got)
		}
		if c.Kind != "x509" && c.Kind != "precert" {
			t.Fatalf("case %d: kind %q", i, c.Kind)
		}
	}
	rep := vh.NewReport("c16-classes", "cases of ScanClasses.tla (entry kind x every set of defects of the catalogue: three of the DER layer - strict "+
		"decoding of the outer structure fails, lenient decoding reads it -, five of the field layer, four fatal ones; at most two per tolerable layer, "+
		"at most one fatal, so one layer alone, one layer twice, both layers at once, fatal alone and in tolerable company) built with real DER, laid "+
		"out in logs of 24 entries and scanned by the real Scanner.Scan with Matcher-type (all, subject regex, none) and LeafMatcher-type matchers, "+
		"PrecertOnly on and off, random batch size / fetchers / matcher workers / buffer / injected errors, in virtual time under -race; the callbacks "+
		"made must be exactly the owed ones (ScanSelect.tla: wants and IsAsked(class, matcher type)), of the entry's kind; non-trivial = distinct "+
		"(kind, defect set) that was owed and got a callback from a Matcher-type matcher")
	defer func() {
		if err := rep.Write(); err != nil {
			t.Fatal(err)
		}
	}()
	rec, err := vh.NewRecorder("traces.ndjson")
	if err != nil {
		t.Fatal(err)
	}
	rng := vh.Rand(1620)
	rounds := 1
	if vh.Thorough() {
		rounds = 5 // other neighbours in the logs, other scan parameters
	}
	matchers := []struct {
		m     string
		ponly bool
	}{{"all", false}, {"leafall", false}, {"regex", false}, {"all", true}, {"leaf", false}, {"leafodd", true}, {"none", false}}
	nrun := 0
	for round := 0; round < rounds; round++ {
		order := rng.Perm(len(cases))
		for lo := 0; lo < len(order); lo += MaxN {
			hi := min(lo+MaxN, len(order))
			desc := make([]EntryDesc, 0, MaxN)
			for k, ci := range order[lo:hi] {
				c := &cases[ci]
				fam := "alpha"
				if (k/3)%2 == 1 {
					fam = "beta"
				}
				desc = append(desc, EntryDesc{Precert: c.Kind == "precert", Fam: fam, Defects: c.Defects})
			}
			w, err := NewWorldFromDesc(desc)
			if err != nil {
				t.Fatal(err)
			}
			if err := w.CheckClasses(); err != nil {
				t.Fatal(err)
			}
			delivered := map[int]bool{} // entries that got a callback from a Matcher-type matcher
			for mi, mt := range matchers {
				if mi >= 4 && (lo/MaxN+mi)%3 != 0 { // the first four matchers on every log, the others on every third
					continue
				}
				rc := &RunCfg{Start: 0, End: 0, Batch: 1 + rng.Intn(16), NW: 1 + rng.Intn(4), Init: MaxN, Final: MaxN, Mode: "scan", Matcher: mt.m,
					PrecertOnly: mt.ponly, NMatch: 1 + rng.Intn(6), Buf: rng.Intn(5), EndWith: "stop", Script: -1, ErrBudget: []int{0, 0, 1, 3}[rng.Intn(4)]}
				// (case mode of the scripted log: tree heads never fail, the reply to a request starting at s has ReplyAt[s] entries)
				rc.ReplyAt = map[int64]int{}
				for s := int64(0); s < MaxN; s++ {
					if rng.Intn(3) == 0 {
						rc.ReplyAt[s] = 1 + rng.Intn(4)
					}
				}
				fk := newFake(w, rc, int64(52000+nrun))
				nrun++
				var out outcome
				synctest.Test(t, func(t *testing.T) { out = execute(t, w, rc, fk, rep) })
				monitors(rep, rc, fk, out)
				if nrun%3 == 0 {
					for _, ev := range fk.ev {
						rec.Emit(ev)
					}
				}
				if !out.returned || out.err != nil {
					continue // (reported by the monitors)
				}
				fk.mu.Lock()
				for k, ci := range order[lo:hi] {
					c, e := &cases[ci], &w.Entries[k]
					asked := c.AskedMatcher
					if mtype(rc) == "leaf" {
						asked = c.AskedLeaf
					}
					owed := wants(rc, e) && asked
					ks := fk.certs[int64(k)]
					what := fmt.Sprintf("%s entry with the defects %v (class %s: the specification reads it as %s), matcher %s (precertOnly=%v), BatchSize %d, "+
						"%d matcher workers", c.Kind, c.Defects, c.Class, c.Parse, rc.Matcher, rc.PrecertOnly, rc.Batch, rc.NMatch)
					switch {
					case owed && len(ks) == 0:
						rep.Violate("classes:callback-missing:"+c.Class, what+": the scan owes the entry a callback, none was made", replayOf(rc, fk))
					case owed && len(ks) > 1:
						rep.Violate("classes:callback-repeated:"+c.Class, fmt.Sprintf("%s: %d callbacks", what, len(ks)), replayOf(rc, fk))
					case owed && ks[0] != c.Kind:
						rep.Violate("classes:callback-wrong-kind:"+c.Class, fmt.Sprintf("%s: the %s callback was invoked", what, ks[0]), replayOf(rc, fk))
					case !owed && len(ks) > 0:
						rep.Violate("classes:callback-unowed:"+c.Class, what+": the scan owes the entry no callback, one was made", replayOf(rc, fk))
					}
					if owed && len(ks) == 1 && mtype(rc) == "matcher" {
						delivered[k] = true
					}
					if len(ks) > 0 {
						rep.Add(fmt.Sprintf("classes_%s_%s_%s_callback", mtype(rc), c.Kind, c.Parse), 1)
					} else if wants(rc, e) {
						rep.Add(fmt.Sprintf("classes_%s_%s_%s_wanted_nocallback", mtype(rc), c.Kind, c.Parse), 1)
					}
				}
				fk.mu.Unlock()
			}
			for k, ci := range order[lo:hi] {
				c := &cases[ci]
				key := ""
				if delivered[k] {
					key = c.Kind + ":" + strings.Join(c.Defects, ",")
					rep.Add("cases_delivered_to_matcher", 1)
				} else if c.AskedMatcher {
					rep.Add("cases_readable_not_delivered", 1)
				}
				rep.Eval(key)
			}
			if lo == 0 && round == 0 {
				rep.Sample(map[string]any{"log": desc[:4]})
			}
		}
	}
	rep.Replayed = len(cases)
	if err := rec.Close(); err != nil {
		t.Fatal(err)
	}
	rep.Extra["events"] = rec.N
	rep.Extra["scans"] = nrun
}

// TestDefectProbe prints what the repository's parser makes of every single defect and every pair (development aid).
func TestDefectProbe(t *testing.T) {
	if os.Getenv("VERIF_C16_PROBE") == "" {
		t.Skip("VERIF_C16_PROBE not set")
	}
	var names []string
	for d := range DefectLayer {
		names = append(names, d)
	}
	sort.Strings(names)
	var desc []EntryDesc
	for _, d := range names {
		desc = append(desc, EntryDesc{Fam: "alpha", Defects: []string{d}}, EntryDesc{Precert: true, Fam: "alpha", Defects: []string{d}})
	}
	w, err := NewWorldFromDesc(desc)
	if err != nil {
		t.Fatal(err)
	}
	for i := range desc {
		e := &w.Entries[i]
		t.Logf("%-16s precert=%-5v class=%-8s -> %v", strings.Join(e.Defects, ","), e.Precert, e.Class, probe(e, i))
	}
	t.Log(w.CheckClasses())
}

func probe(e *Entry, i int) string {
	le, err := ct.LogEntryFromLeaf(int64(i), &e.Leaf)
	read := le != nil && (le.X509Cert != nil || le.Precert != nil)
	return fmt.Sprintf("read=%v fatal=%v err=%v", read, x509.IsFatal(err), err)
}
