//go:build go1.25

package c16

import (
	"bytes"
	"context"
	"encoding/binary"
	"encoding/json"
	"fmt"
	"math/rand"
	"os"
	"regexp"
	"sort"
	"strings"
	"testing"
	"testing/synctest"
	"time"

	ct "github.com/google/certificate-transparency-go"
	"github.com/google/certificate-transparency-go/scanner"

	"verifharness/vh"
)

// RunCfg is one run of the real Fetcher / Scanner.
type RunCfg struct {
	Start, End  int64
	Batch, NW   int
	Cont        bool
	Init        int64
	Mode        string // "fetch": Fetcher.Run, "scan": Scanner.Scan
	Matcher     string // all | none | regex | leaf
	PrecertOnly bool
	NMatch, Buf int
	StopAt      int // call Fetcher.Stop when the n-th request arrives (0: never)
	CancelAt    int // cancel the context when the n-th request arrives (0: never)
	EndWith     string
	Publishes   []Pub
	Final       int64
	ErrBudget   int
	Script      int // index of the TLC run this configuration comes from, -1 otherwise
	Salt        int64
	// cases of ScannerFanout.tla: the log's content is the specification's (record WORLD), the reply to a request
	// starting at s has ReplyAt[s] entries; Pol / PolK name the reply policy the lengths come from
	SpecWorld bool          `json:",omitempty"`
	ReplyAt   map[int64]int `json:",omitempty"`
	Pol       string        `json:",omitempty"`
	PolK      int           `json:",omitempty"`
}

// Pub is one growth step of the log.
type Pub struct {
	AfterMs int
	Size    int64
}

func rcJSON(rc *RunCfg) string {
	b, err := json.Marshal(rc)
	if err != nil {
		panic(err)
	}
	return string(b)
}

func (rc *RunCfg) String() string {
	return fmt.Sprintf("%+v", *rc)
}

// evenSecond is a scanner.LeafMatcher of the harness: it reads the timestamp straight out of the MerkleTreeLeaf.
type evenSecond struct{}

func leafTS(leafInput []byte) uint64 { return binary.BigEndian.Uint64(leafInput[2:10]) }

func (evenSecond) Matches(l *ct.LeafEntry) bool { return (leafTS(l.LeafInput)/1000)%2 == 0 }

// everyLeaf is the LeafMatcher that selects every entry (fatally broken ones included).
type everyLeaf struct{}

func (everyLeaf) Matches(*ct.LeafEntry) bool { return true }

// oddSecond is its complement (so that every entry is wanted by one of the two leaf matchers).
type oddSecond struct{}

func (oddSecond) Matches(l *ct.LeafEntry) bool { return (leafTS(l.LeafInput)/1000)%2 == 1 }

var (
	reAlpha = regexp.MustCompile(`\.alpha\.test$`)
	reBeta  = regexp.MustCompile(`\.beta\.test$`)
)

// wants says, from what the harness knows about how it built entry i, what the configured matcher (and PrecertOnly)
// answers when it gets to see the entry.
func wants(rc *RunCfg, e *Entry) bool {
	if rc.PrecertOnly && !e.Precert {
		return false
	}
	switch rc.Matcher {
	case "all":
		return true
	case "none":
		return false
	case "regex": // certificates of family alpha, precertificates of family beta
		if e.Precert {
			return strings.HasSuffix(e.CN, ".beta.test")
		}
		return strings.HasSuffix(e.CN, ".alpha.test")
	case "leaf":
		return (e.TS/1000)%2 == 0
	case "leafodd":
		return (e.TS/1000)%2 == 1
	case "leafall":
		return true
	}
	panic("matcher " + rc.Matcher)
}

// mtype: a Matcher-type matcher is shown the parsed (pre-)certificate, a LeafMatcher the raw leaf.
func mtype(rc *RunCfg) string {
	if rc.Matcher == "leaf" || rc.Matcher == "leafodd" || rc.Matcher == "leafall" {
		return "leaf"
	}
	return "matcher"
}

// selected is spec/client/ScanSelect.tla, Selected: the scan owes entry e a callback iff the matcher wants it and gets to
// see it (a Matcher-type matcher is never shown an entry whose (pre-)certificate does not parse at all; one that parses
// with non-fatal errors is matched like any other).
func selected(rc *RunCfg, e *Entry) bool {
	return wants(rc, e) && (mtype(rc) == "leaf" || !isFatalClass(e.Class))
}

func matcherOf(rc *RunCfg) interface{} {
	switch rc.Matcher {
	case "all":
		return &scanner.MatchAll{}
	case "none":
		return &scanner.MatchNone{}
	case "regex":
		return &scanner.MatchSubjectRegex{CertificateSubjectRegex: reAlpha, PrecertificateSubjectRegex: reBeta}
	case "leaf":
		return evenSecond{}
	case "leafodd":
		return oddSecond{}
	case "leafall":
		return everyLeaf{}
	}
	panic("matcher " + rc.Matcher)
}

func newFake(w *World, rc *RunCfg, salt int64) *Fake {
	rc.Salt = salt
	return &Fake{w: w, size: rc.Init, replyAt: rc.ReplyAt, rng: vh.Rand(salt), lat: vh.Rand(salt + 7), errBudget: rc.ErrBudget,
		errKinds: []string{"429", "5xx", "net", "unavail", "deadline", "canceled"}, got: map[int64][]ct.LeafEntry{}, certs: map[int64][]string{},
		reqCap: 40*(MaxN+1) + 10*rc.ErrBudget, final: rc.Final}
}

type outcome struct {
	err        error
	returned   bool
	firstSTH   int64 // size of the first tree head served without error, -1 if none
	stopped    bool
	cancelled  bool
	caughtUp   bool
	idleChecks int
}

// execute runs the real code once inside a synctest bubble and applies the monitors.
func execute(t *testing.T, w *World, rc *RunCfg, fk *Fake, rep *vh.Report) (out outcome) {
	ctx, cancel := context.WithCancel(context.Background())
	defer cancel()
	fk.cancel = cancel
	kinds, classes, wts := make([]string, len(w.Entries)), make([]string, len(w.Entries)), make([]int, len(w.Entries))
	for i := range w.Entries {
		kinds[i] = "x"
		if w.Entries[i].Precert {
			kinds[i] = "p"
		}
		classes[i] = w.Entries[i].Class
		if rc.Mode == "scan" && wants(rc, &w.Entries[i]) {
			wts[i] = 1
		}
	}
	fk.Emit(map[string]any{"ev": "Reset", "start": rc.Start, "end": rc.End, "batch": rc.Batch, "nw": rc.NW, "cont": rc.Cont,
		"init": rc.Init, "mode": rc.Mode, "kind": kinds, "class": classes, "wants": wts, "mtype": mtype(rc), "script": rc.Script, "rc": rcJSON(rc)}, nil)

	opts := scanner.FetcherOptions{BatchSize: rc.Batch, ParallelFetch: rc.NW, StartIndex: rc.Start, EndIndex: rc.End, Continuous: rc.Cont}
	done := make(chan error, 1)
	finished := make(chan struct{})
	guard := func(site string, f func() error) {
		go func() {
			defer close(finished)
			defer func() {
				if r := recover(); r != nil {
					rep.Violate("panic:"+site, fmt.Sprintf("panic in %s: %v", site, r), rc)
					done <- fmt.Errorf("panic: %v", r)
				}
			}()
			done <- f()
		}()
	}
	var stopFn func()
	slow := vh.Rand(int64(fk.lat.Int63()))
	pause := func() { // the callback takes (virtual) time
		fk.mu.Lock()
		d := time.Duration(slow.Intn(400)) * time.Millisecond
		fk.mu.Unlock()
		time.Sleep(d)
	}
	if rc.Mode == "fetch" {
		f := scanner.NewFetcher(fk, &opts)
		stopFn = f.Stop
		guard("Fetcher.Run", func() error {
			return f.Run(ctx, func(b scanner.EntryBatch) {
				pause()
				fk.mu.Lock()
				defer fk.mu.Unlock()
				fk.emit(map[string]any{"ev": "Batch", "start": b.Start, "n": len(b.Entries)})
				fk.batches = append(fk.batches, [2]int64{b.Start, int64(len(b.Entries))})
				for i, e := range b.Entries {
					fk.got[b.Start+int64(i)] = append(fk.got[b.Start+int64(i)], e)
				}
			})
		})
	} else {
		s := scanner.NewScanner(fk, scanner.ScannerOptions{FetcherOptions: opts, Matcher: matcherOf(rc), PrecertOnly: rc.PrecertOnly,
			NumWorkers: rc.NMatch, BufferSize: rc.Buf})
		cb := func(kind string) func(*ct.RawLogEntry) {
			return func(r *ct.RawLogEntry) {
				pause()
				fk.mu.Lock()
				defer fk.mu.Unlock()
				fk.emit(map[string]any{"ev": "Cert", "index": r.Index, "kind": kind})
				fk.certs[r.Index] = append(fk.certs[r.Index], kind)
				if r.Index >= 0 && r.Index < MaxN {
					e := &w.Entries[r.Index]
					if !bytes.Equal(r.Cert.Data, e.DER) {
						fk.badRaw = append(fk.badRaw, fmt.Sprintf("callback for index %d carries another certificate", r.Index))
					}
					if leafTS(e.Leaf.LeafInput) != r.Leaf.TimestampedEntry.Timestamp {
						fk.badRaw = append(fk.badRaw, fmt.Sprintf("callback for index %d carries another leaf", r.Index))
					}
				}
			}
		}
		guard("Scanner.Scan", func() error { return s.Scan(ctx, cb("x509"), cb("precert")) })
	}
	doStop := func() { // under fk.mu
		if stopFn != nil && !out.stopped && !out.cancelled {
			out.stopped = true
			fk.emit(map[string]any{"ev": "Stop"})
			stopFn()
		}
	}
	doCancel := func() { // under fk.mu
		if !out.cancelled {
			out.cancelled = true
			fk.emit(map[string]any{"ev": "Cancel"})
			cancel()
		}
	}
	fk.mu.Lock()
	fk.onReq = func(n int) {
		if n == rc.StopAt {
			doStop()
		}
		if n == rc.CancelAt {
			doCancel()
		}
	}
	fk.mu.Unlock()

	pubDone := make(chan struct{})
	go func() {
		defer close(pubDone)
		for _, p := range rc.Publishes {
			time.Sleep(time.Duration(p.AfterMs) * time.Millisecond)
			fk.Publish(p.Size)
		}
	}()

	if rc.Cont {
		// Continuous mode never ends by itself.  Let it catch up with everything published, look at what it has
		// delivered while it is quiet, then end it.  Pauses of the fetcher are below 60 s and there is a counted number
		// of scripted errors / stale tree heads, so a counted number of 120 s waits is enough for a correct fetcher.
		<-pubDone
		rounds := 12 + rc.ErrBudget + len(fk.sthScript)
		fk.mu.Lock()
		for _, q := range fk.reqScript {
			rounds += len(q) // (only the errors among them can cost a pause)
		}
		fk.mu.Unlock()
		over := func() bool {
			select {
			case <-finished:
				return true
			default:
				return false
			}
		}
		for k := 0; k < rounds && !out.caughtUp; k++ {
			time.Sleep(120 * time.Second)
			synctest.Wait()
			out.idleChecks++
			fk.mu.Lock()
			fin := fk.stoppedOrCancelled(&out) || over()
			out.caughtUp = fin || fk.servedAll(rc.Start, rc.Final) && fk.sthPos >= len(fk.sthScript)
			fk.mu.Unlock()
		}
		if out.caughtUp {
			// "served" is the fake's side of the last exchange; the callbacks that deliver it take (virtual) time
			// (pause(): up to 400 ms each, one after the other): one more quiet period lets every pending
			// delivery happen before the delivered set is judged (false alarm of the thorough tier: the last
			// batch was served less than 400 ms before the end of a quiet period)
			time.Sleep(120 * time.Second)
			synctest.Wait()
		}
		fk.mu.Lock()
		if !fk.stoppedOrCancelled(&out) && !over() {
			if !out.caughtUp {
				rep.Violate("continuous:stalled", fmt.Sprintf("continuous mode: entries up to %d were published, but after %d quiet periods of 120 s "+
					"(virtual) not every index of [%d,%d) has been fetched", rc.Final, rounds, rc.Start, rc.Final), replayOf(rc, fk))
			} else if rc.Mode == "fetch" {
				fk.checkExact(rep, rc, rc.Start, rc.Final, "continuous:quiet", "continuous mode, fetcher quiet after the log grew to its final size")
			} else {
				fk.checkCallbacks(rep, rc, rc.Start, rc.Final, true, "continuous:quiet")
			}
			if rc.EndWith == "cancel" || stopFn == nil {
				doCancel()
			} else {
				doStop()
			}
		}
		fk.mu.Unlock()
	}

	select {
	case out.err = <-done:
		out.returned = true
	case <-time.After(10000 * time.Hour):
		rep.Violate("terminates:"+rc.Mode, "the run did not return although its range is exhausted / it was stopped or cancelled "+
			"(every goroutine blocked)", replayOf(rc, fk))
		_ = rep.Write()
		cancel()
		select {
		case <-done:
		case <-time.After(time.Hour):
		}
	}
	<-pubDone
	e := ""
	if out.err != nil {
		e = "err"
	}
	fk.Emit(map[string]any{"ev": "Return", "err": e}, nil)
	synctest.Wait()

	fk.mu.Lock()
	defer fk.mu.Unlock()
	out.firstSTH = -1
	for _, ev := range fk.ev {
		if ev["ev"] == "STH" && ev["err"] == "" {
			out.firstSTH = ev["size"].(int64)
			break
		}
	}
	return out
}

func (f *Fake) stoppedOrCancelled(o *outcome) bool { return o.stopped || o.cancelled }

// servedAll: every index of [lo, hi) has been part of a successful get-entries reply.
func (f *Fake) servedAll(lo, hi int64) bool {
	seen := map[int64]bool{}
	for _, ev := range f.ev {
		if ev["ev"] == "Rsp" && ev["err"] == "" {
			s := ev["start"].(int64)
			for i := int64(0); i < int64(ev["n"].(int)); i++ {
				seen[s+i] = true
			}
		}
	}
	for i := lo; i < hi; i++ {
		if !seen[i] {
			return false
		}
	}
	return true
}

func replayOf(rc *RunCfg, f *Fake) any {
	evs := f.ev
	if len(evs) > 400 {
		evs = evs[:400]
	}
	r := map[string]any{"config": rc, "run": f.run, "trace": evs, "entries": f.w.Desc()}
	if f.ws != nil {
		r["world"] = f.ws
	}
	return r
}

// checkExact: the fetch callback got every index of [lo, hi) exactly once and nothing else, with the bytes served.
func (f *Fake) checkExact(rep *vh.Report, rc *RunCfg, lo, hi int64, fp, when string) {
	for i := int64(-1); i <= MaxN; i++ {
		n := len(f.got[i])
		in := i >= lo && i < hi
		switch {
		case in && n == 0:
			rep.Violate(fp+":missing", fmt.Sprintf("%s: index %d of the range [%d,%d) was never delivered to the callback", when, i, lo, hi), replayOf(rc, f))
		case in && n > 1:
			rep.Violate(fp+":repeated", fmt.Sprintf("%s: index %d was delivered %d times", when, i, n), replayOf(rc, f))
		case !in && n > 0:
			rep.Violate(fp+":out-of-range", fmt.Sprintf("%s: index %d outside the range [%d,%d) was delivered", when, i, lo, hi), replayOf(rc, f))
		}
	}
	for i := range f.got {
		if i < -1 || i > MaxN {
			rep.Violate(fp+":out-of-range", fmt.Sprintf("%s: index %d outside the log was delivered", when, i), replayOf(rc, f))
		}
	}
	f.checkBytes(rep, rc)
}

func (f *Fake) checkBytes(rep *vh.Report, rc *RunCfg) {
	for i, es := range f.got {
		if i < 0 || i >= MaxN {
			continue
		}
		for _, e := range es {
			if !bytes.Equal(e.LeafInput, f.w.Entries[i].Leaf.LeafInput) || !bytes.Equal(e.ExtraData, f.w.Entries[i].Leaf.ExtraData) {
				rep.Violate("bytes:wrong-entry", fmt.Sprintf("the entry delivered as index %d is not the entry the log returned for index %d", i, i), replayOf(rc, f))
			}
		}
	}
	for _, b := range f.batches {
		if b[1] == 0 {
			rep.Violate("batch:empty", "the callback got an empty batch", replayOf(rc, f))
		}
	}
}

// checkAtMostOnce: an interrupted run delivered nothing twice, nothing outside [lo, hi).
func (f *Fake) checkAtMostOnce(rep *vh.Report, rc *RunCfg, lo, hi int64, fp string) {
	for i, es := range f.got {
		if len(es) > 1 {
			rep.Violate(fp+":repeated", fmt.Sprintf("index %d was delivered %d times", i, len(es)), replayOf(rc, f))
		}
		if i < lo || i >= hi {
			rep.Violate(fp+":out-of-range", fmt.Sprintf("index %d outside the range [%d,%d) was delivered", i, lo, hi), replayOf(rc, f))
		}
	}
	f.checkBytes(rep, rc)
}

// checkCallbacks: scanner callbacks, exactly once (complete) or at most once per selected entry, of the right kind.
func (f *Fake) checkCallbacks(rep *vh.Report, rc *RunCfg, lo, hi int64, complete bool, fp string) {
	for i, ks := range f.certs {
		if i < lo || i >= hi || i >= MaxN || i < 0 {
			rep.Violate(fp+":callback-out-of-range", fmt.Sprintf("a callback was invoked for index %d outside the range [%d,%d)", i, lo, hi), replayOf(rc, f))
			continue
		}
		e := &f.w.Entries[i]
		want := "x509"
		if e.Precert {
			want = "precert"
		}
		if !selected(rc, e) {
			rep.Violate(fp+":callback-unselected:"+e.Class, fmt.Sprintf("matcher %s (precertOnly=%v) does not select entry %d (%s, precert=%v, parse class %s) but a callback was invoked",
				rc.Matcher, rc.PrecertOnly, i, e.CN, e.Precert, e.Class), replayOf(rc, f))
		}
		if len(ks) > 1 {
			rep.Violate(fp+":callback-repeated", fmt.Sprintf("%d callbacks for entry %d", len(ks), i), replayOf(rc, f))
		}
		for _, k := range ks {
			if k != want {
				rep.Violate(fp+":callback-wrong-kind", fmt.Sprintf("entry %d is a %s entry, the %s callback was invoked", i, want, k), replayOf(rc, f))
			}
		}
	}
	if complete {
		for i := lo; i < hi && i < MaxN; i++ {
			if selected(rc, &f.w.Entries[i]) && len(f.certs[i]) == 0 {
				e := &f.w.Entries[i]
				rep.Violate(fp+":callback-missing:"+e.Class, fmt.Sprintf("matcher %s selects entry %d (precert=%v, parse class %s) of the range [%d,%d) but no callback was invoked",
					rc.Matcher, i, e.Precert, e.Class, lo, hi), replayOf(rc, f))
			}
		}
	}
	for _, b := range f.badRaw {
		rep.Violate("bytes:callback-wrong-entry", b, replayOf(rc, f))
	}
}

// monitors applies the oracle-free statement of C16 to a finished run.
func monitors(rep *vh.Report, rc *RunCfg, fk *Fake, out outcome) {
	fk.mu.Lock()
	defer fk.mu.Unlock()
	if !out.returned {
		return
	}
	if fk.runaway {
		rep.Violate("runaway:"+rc.Mode, fmt.Sprintf("more than %d get-entries requests for a log of at most %d entries with %d injected errors: "+
			"the fetcher does not make progress", fk.reqCap, MaxN, rc.ErrBudget), replayOf(rc, fk))
		return
	}
	if fk.beyond {
		rep.Violate("request:outside-tree", "a get-entries request with end < start or beyond the tree head the fetcher holds was made", replayOf(rc, fk))
	}
	if out.firstSTH < 0 {
		// Prepare failed: an error, nothing fetched
		if out.err == nil {
			rep.Violate("prepare:error-swallowed", "get-sth failed before the run but Run/Scan returned nil", replayOf(rc, fk))
		}
		if len(fk.got)+len(fk.certs) > 0 {
			rep.Violate("prepare:fetched-after-error", "entries were delivered although the initial get-sth failed", replayOf(rc, fk))
		}
		return
	}
	if out.err != nil {
		rep.Violate("run:error", fmt.Sprintf("Run/Scan returned an error although the initial get-sth succeeded: %v", out.err), replayOf(rc, fk))
		return
	}
	lo, hi := rc.Start, out.firstSTH
	if rc.End != 0 && rc.End < hi {
		hi = rc.End
	}
	if rc.Cont {
		hi = fk.size
	}
	complete := !out.stopped && !out.cancelled
	fp := "complete"
	if !complete {
		fp = "interrupted"
	}
	if rc.Mode == "fetch" {
		if complete {
			fk.checkExact(rep, rc, lo, hi, fp, "run to completion")
		} else {
			fk.checkAtMostOnce(rep, rc, lo, hi, fp)
			if out.stopped && !out.cancelled {
				// Stop finishes the started fetches: what was delivered is an initial segment of the range
				x := lo
				for len(fk.got[x]) > 0 {
					x++
				}
				for i := range fk.got {
					if i >= x {
						rep.Violate("stop:gap", fmt.Sprintf("after Stop the run returned with index %d delivered but index %d not: a started fetch was not finished", i, x), replayOf(rc, fk))
					}
				}
			}
		}
	} else {
		fk.checkCallbacks(rep, rc, lo, hi, complete, fp)
	}
}

func classOf(rc *RunCfg, fk *Fake, out outcome) string {
	end := "complete"
	if out.stopped {
		end = "stop"
	}
	if out.cancelled {
		end = "cancel"
	}
	if len(fk.got)+len(fk.certs) == 0 && fk.shorts+fk.reqErrs == 0 {
		return "" // nothing happened
	}
	return fmt.Sprintf("%s/%s/cont=%v/nw=%d/batch=%d/short=%v/err=%v/stherr=%v/%s", rc.Mode, rc.Matcher, rc.Cont, rc.NW, rc.Batch,
		fk.shorts > 0, fk.reqErrs > 0, fk.sthErrs > 0, end)
}

// ---------------------------------------------------------------------------------------------

// Run is one complete run of Fetcher.tla exported by TLC (MCFetcher.tla, ExportFinished).
type Run struct {
	Cfg struct {
		Start, End, Init int64
		Batch, NW        int
		Cont             bool
	}
	Final  int64
	Result string
	Steps  []struct {
		A    string
		S    int64
		N    int
		Err  string
		Size int64
		Acc  bool
	}
	Delivered []struct {
		S int64
		N int
	}
}

func (f *Fake) script(run *Run) {
	f.run = run
	f.scripted = true
	f.reqScript = map[int64][]Reply{}
	for _, s := range run.Steps {
		switch s.A {
		case "Rsp":
			f.reqScript[s.S] = append(f.reqScript[s.S], Reply{N: s.N, Err: s.Err})
		case "STH":
			f.sthScript = append(f.sthScript, STHReply{Size: s.Size, Err: s.Err})
		}
	}
}

// TestReplay drives the real Fetcher (and, with the same scripts, the Scanner) with the reply scripts of TLC-generated
// runs and compares what the callback finally got with the run of the specification.
func TestReplay(t *testing.T) {
	path := os.Getenv("VERIF_SCRIPTS")
	if path == "" {
		t.Skip("VERIF_SCRIPTS not set")
	}
	runs, err := vh.LoadNDJSON[Run](path)
	if err != nil {
		t.Fatal(err)
	}
	rep := vh.NewReport("c16-replay", "complete runs of Fetcher.tla (TLC simulation: configuration, per-request reply lengths and errors, tree-head "+
		"answers) drive a scripted log client under the real Fetcher.Run / Scanner.Scan in virtual time; the multiset of batches the callback got "+
		"must equal the specification's; non-trivial = distinct (mode, workers, batch, short reads, errors, ending) class with at least one delivery")
	defer func() {
		if err := rep.Write(); err != nil {
			t.Fatal(err)
		}
	}()
	w := NewWorld(vh.Rand(16))
	if err := w.CheckClasses(); err != nil {
		t.Fatal(err)
	}
	rec, err := vh.NewRecorder("traces.ndjson")
	if err != nil {
		t.Fatal(err)
	}
	for idx, run := range runs {
		for _, mode := range []string{"fetch", "scan"} {
			if mode == "scan" && idx%3 != 0 {
				continue
			}
			rc := &RunCfg{Start: run.Cfg.Start, End: run.Cfg.End, Batch: run.Cfg.Batch, NW: run.Cfg.NW, Cont: run.Cfg.Cont, Init: run.Cfg.Init,
				Mode: mode, Matcher: []string{"all", "regex", "leaf", "leafodd", "all", "none"}[idx/3%6], PrecertOnly: idx%5 == 0, NMatch: 1 + idx/3%5, Buf: idx % 4,
				Final: run.Final, EndWith: "stop", Script: idx}
			fk := newFake(w, rc, int64(idx))
			fk.script(&run)

			var out outcome
			synctest.Test(t, func(t *testing.T) { out = execute(t, w, rc, fk, rep) })
			monitors(rep, rc, fk, out)
			for _, ev := range fk.ev {
				rec.Emit(ev)
			}
			// the specification's run
			if (out.err != nil) != (run.Result == "err") {
				rep.Violate("replay:result", fmt.Sprintf("specification run ends with %q, the real run returned error %v", run.Result, out.err), replayOf(rc, fk))
			}
			if mode == "fetch" {
				compareBatches(rep, rc, fk, &run)
			}
			countCallbacks(rep, rc, fk)
			rep.Eval(classOf(rc, fk, out))
			if idx < 2 && mode == "fetch" {
				rep.Sample(map[string]any{"config": rc, "events": len(fk.ev), "batches": fk.batches})
			}
		}
	}
	rep.Replayed = len(runs)
	if err := rec.Close(); err != nil {
		t.Fatal(err)
	}
	rep.Extra["events"] = rec.N
}

func randomCfg(rng *rand.Rand, tr int) *RunCfg {
	rc := &RunCfg{Script: -1, Mode: "fetch", Matcher: "all", NMatch: 1}
	rc.Init = int64(rng.Intn(TraceN - 3))
	if rng.Intn(2) == 0 {
		rc.Init = int64(6 + rng.Intn(TraceN-5))
	}
	rc.Batch = []int{1, 1, 2, 2, 3, 3, 4, 5}[rng.Intn(8)]
	rc.NW = 1 + rng.Intn(4)
	rc.Cont = rng.Intn(3) == 0
	if rng.Intn(2) == 0 {
		rc.End = int64(rng.Intn(TraceN + 1))
	}
	eff := rc.Init
	if rc.End != 0 && rc.End < eff {
		eff = rc.End
	}
	rc.Start = int64(rng.Intn(int(eff) + 1))
	if rng.Intn(2) == 0 {
		rc.Start = int64(rng.Intn(int(min(eff, 3)) + 1))
	}
	if !rc.Cont && rng.Intn(8) == 0 {
		rc.Start = int64(rng.Intn(TraceN + 1)) // possibly beyond the end: nothing to fetch
	}
	rc.ErrBudget = []int{0, 0, 1, 2, 4, 6}[rng.Intn(6)]
	rc.Final = rc.Init
	// growth: in continuous mode it matters, otherwise it only must not confuse the fetcher
	if rc.Cont || rng.Intn(4) == 0 {
		for k := rng.Intn(4); k > 0 && rc.Final < TraceN; k-- {
			rc.Final += 1 + int64(rng.Intn(int(TraceN-rc.Final)))
			rc.Publishes = append(rc.Publishes, Pub{AfterMs: rng.Intn(90000), Size: rc.Final})
		}
	}
	if rng.Intn(3) == 0 {
		rc.Mode = "scan"
		rc.Matcher = []string{"all", "all", "none", "regex", "leaf", "leafodd"}[rng.Intn(6)]
		rc.PrecertOnly = rng.Intn(4) == 0
		rc.NMatch = 1 + rng.Intn(3)
		rc.Buf = rng.Intn(4)
		if rng.Intn(3) == 0 { // more matcher workers, longer batches (ScannerFanout.tla: the split classes)
			rc.NMatch = 1 + rng.Intn(6)
			rc.Batch = 1 + rng.Intn(12)
		}
	}
	switch rng.Intn(5) {
	case 0:
		if rc.Mode == "fetch" {
			rc.StopAt = 1 + rng.Intn(6)
		} else {
			rc.CancelAt = 1 + rng.Intn(6)
		}
	case 1:
		rc.CancelAt = 1 + rng.Intn(6)
	}
	rc.EndWith = []string{"stop", "cancel"}[rng.Intn(2)]
	return rc
}

// TestTrace runs randomly configured fetches and scans against the scripted client and records their traces for
// FetcherTrace.tla; the monitors judge every run on their own.
func TestTrace(t *testing.T) {
	ntraces := vh.EnvInt("VERIF_TRACES", 100)
	rep := vh.NewReport("c16-trace", "randomly configured runs of the real Fetcher.Run / Scanner.Scan (tree sizes <= 16 with growth, start/end, batch 1..5, "+
		"1..4 fetchers, 1..3 matcher workers, short reads, counted 429/5xx/network/unavailable errors and requests that time out or are abandoned on their own (errors wrapping context.DeadlineExceeded / context.Canceled while the run's context is alive), Stop, cancel, continuous mode) in virtual time "+
		"under -race; monitors: every index of the range exactly once with the served bytes, nothing outside, termination, continuous-mode initial "+
		"segment when quiet, callbacks once per selected entry and by type; traces validated by FetcherTrace.tla; non-trivial = distinct run class")
	defer func() {
		if err := rep.Write(); err != nil {
			t.Fatal(err)
		}
	}()
	w := NewWorld(vh.Rand(16))
	if err := w.CheckClasses(); err != nil {
		t.Fatal(err)
	}
	rec, err := vh.NewRecorder("traces.ndjson")
	if err != nil {
		t.Fatal(err)
	}
	for tr := 0; tr < ntraces; tr++ {
		rng := vh.Rand(int64(5000 + tr))
		rc := randomCfg(rng, tr)
		fk := newFake(w, rc, int64(9000+tr))
		var out outcome
		synctest.Test(t, func(t *testing.T) { out = execute(t, w, rc, fk, rep) })
		monitors(rep, rc, fk, out)
		for _, ev := range fk.ev {
			rec.Emit(ev)
		}
		rep.Eval(classOf(rc, fk, out))
		if tr < 2 {
			rep.Sample(map[string]any{"config": rc, "events": len(fk.ev), "batches": fk.batches})
		}
		countCallbacks(rep, rc, fk)
		rep.Add("requests", fk.nreq)
		rep.Add("short_reads", fk.shorts)
		rep.Add("request_errors", fk.reqErrs)
		rep.Add("sth_errors", fk.sthErrs)
	}
	if err := rec.Close(); err != nil {
		t.Fatal(err)
	}
	rep.Extra["events"] = rec.N
}

// Case is a single run to re-execute (check.py --replay): a configuration and, for replayed TLC runs, the run.
type Case struct {
	Config RunCfg
	Run    *Run
	World  *WorldSpec // the specification's log content (cases of ScannerFanout.tla)
	// Entries: the log content entry by entry (kind, family, concrete defects); when present the log is rebuilt from it
	Entries []EntryDesc
}

// TestOne re-executes one recorded case: first with its own salt, then with other latencies.
func TestOne(t *testing.T) {
	path := os.Getenv("VERIF_C16_CASE")
	if path == "" {
		t.Skip("VERIF_C16_CASE not set")
	}
	cs, err := vh.LoadNDJSON[Case](path)
	if err != nil || len(cs) == 0 {
		t.Fatal("cannot load case: ", err)
	}
	rep := vh.NewReport("c16-one", "one recorded configuration re-executed 12 times with different virtual latencies")
	defer func() {
		if err := rep.Write(); err != nil {
			t.Fatal(err)
		}
	}()
	w := NewWorld(vh.Rand(16))
	if len(cs[0].Entries) > 0 {
		if w, err = NewWorldFromDesc(cs[0].Entries); err != nil {
			t.Fatal(err)
		}
	} else if cs[0].Config.SpecWorld {
		if cs[0].World == nil {
			t.Fatal("the case runs against the specification's log but carries no WORLD record")
		}
		if w, err = NewWorldFrom(cs[0].World, 0); err != nil {
			t.Fatal(err)
		}
	}
	if err := w.CheckClasses(); err != nil {
		t.Fatal(err)
	}
	rec, err := vh.NewRecorder("traces.ndjson")
	if err != nil {
		t.Fatal(err)
	}
	for k := 0; k < 12; k++ {
		rc := cs[0].Config
		fk := newFake(w, &rc, rc.Salt+int64(k)*101)
		fk.ws = cs[0].World
		if cs[0].Run != nil {
			fk.script(cs[0].Run)
		}
		var out outcome
		synctest.Test(t, func(t *testing.T) { out = execute(t, w, &rc, fk, rep) })
		monitors(rep, &rc, fk, out)
		if cs[0].Run != nil && rc.Mode == "fetch" {
			compareBatches(rep, &rc, fk, cs[0].Run)
		}
		for _, ev := range fk.ev {
			rec.Emit(ev)
		}
		rep.Eval(classOf(&rc, fk, out))
	}
	if err := rec.Close(); err != nil {
		t.Fatal(err)
	}
}

// countCallbacks records, per (matcher type, entry kind, parse class), how many callbacks were seen and how many fetched
// entries were left without one: the coverage of the entry-class dimension.
func countCallbacks(rep *vh.Report, rc *RunCfg, fk *Fake) {
	if rc.Mode != "scan" {
		return
	}
	seen := map[int64]bool{}
	for _, ev := range fk.ev {
		if ev["ev"] == "Rsp" && ev["err"] == "" {
			s := ev["start"].(int64)
			for i := int64(0); i < int64(ev["n"].(int)); i++ {
				seen[s+i] = true
			}
		}
	}
	for i := range seen {
		e := &fk.w.Entries[i]
		k := "x509"
		if e.Precert {
			k = "precert"
		}
		what := "nocallback"
		if len(fk.certs[i]) > 0 {
			what = "callback"
		}
		rep.Add(fmt.Sprintf("scan_%s_%s_%s_%s", mtype(rc), k, e.Class, what), 1)
	}
}

func compareBatches(rep *vh.Report, rc *RunCfg, fk *Fake, run *Run) {
	var want, got []string
	for _, d := range run.Delivered {
		want = append(want, fmt.Sprintf("[%d+%d]", d.S, d.N))
	}
	for _, b := range fk.batches {
		got = append(got, fmt.Sprintf("[%d+%d]", b[0], b[1]))
	}
	sort.Strings(want)
	sort.Strings(got)
	if strings.Join(want, "") != strings.Join(got, "") {
		rep.Violate("replay:batches", fmt.Sprintf("with the same replies the specification delivers batches %v, the real fetcher %v", want, got), replayOf(rc, fk))
	}
}

// TestBeyondTree: continuous mode started with StartIndex beyond the end of the range the first tree head gives
// (StartIndex > tree size, or EndIndex < StartIndex).  Fetcher.tla waits until the tree has grown past StartIndex and
// delivers [StartIndex, size); nothing below StartIndex may ever reach the callback.
func TestBeyondTree(t *testing.T) {
	rep := vh.NewReport("c16-beyond", "continuous mode with StartIndex beyond the first tree head / EndIndex below StartIndex: after the log has grown "+
		"past StartIndex exactly [StartIndex, size) is delivered; non-trivial = configuration in which the log grew past StartIndex")
	defer func() {
		if err := rep.Write(); err != nil {
			t.Fatal(err)
		}
	}()
	w := NewWorld(vh.Rand(16))
	if err := w.CheckClasses(); err != nil {
		t.Fatal(err)
	}
	rng := vh.Rand(77)
	for k := 0; k < 24; k++ {
		rc := &RunCfg{Script: -1, Mode: "fetch", Matcher: "all", NMatch: 1, Cont: true, EndWith: "stop"}
		rc.Init = int64(1 + rng.Intn(6))
		rc.Batch = 1 + rng.Intn(4)
		rc.NW = 1 + rng.Intn(3)
		if k%2 == 0 { // start beyond the tree
			rc.Start = rc.Init + 1 + int64(rng.Intn(4))
		} else { // explicit end below start, inside the tree
			rc.End = int64(1 + rng.Intn(int(rc.Init)))
			rc.Start = rc.End + 1 + int64(rng.Intn(3))
		}
		rc.Final = rc.Start + 1 + int64(rng.Intn(int(TraceN-rc.Start)))
		if rc.Final < rc.Init {
			rc.Final = rc.Init
		}
		if rc.Final > rc.Init {
			rc.Publishes = []Pub{{AfterMs: rng.Intn(50000), Size: rc.Final}}
		}
		fk := newFake(w, rc, int64(300+k))
		scratch := vh.NewReport("scratch", "")
		synctest.Test(t, func(t *testing.T) { execute(t, w, rc, fk, scratch) })
		below, missing := []int64{}, []int64{}
		for i := range fk.got {
			if i < rc.Start {
				below = append(below, i)
			}
		}
		for i := rc.Start; i < rc.Final; i++ {
			if len(fk.got[i]) != 1 {
				missing = append(missing, i)
			}
		}
		sort.Slice(below, func(a, b int) bool { return below[a] < below[b] })
		if len(below) > 0 {
			rep.Violate("continuous:start-beyond-end:delivers-below-start", fmt.Sprintf("Continuous fetch with StartIndex=%d EndIndex=%d on a tree of %d entries "+
				"growing to %d: indices %v below StartIndex were delivered (batches %v)", rc.Start, rc.End, rc.Init, rc.Final, below, fk.batches), replayOf(rc, fk))
		} else if len(missing) > 0 {
			rep.Violate("continuous:start-beyond-end:not-exactly-once", fmt.Sprintf("Continuous fetch with StartIndex=%d EndIndex=%d on a tree of %d entries "+
				"growing to %d: indices %v not delivered exactly once (batches %v)", rc.Start, rc.End, rc.Init, rc.Final, missing, fk.batches), replayOf(rc, fk))
		}
		key := ""
		if rc.Final > rc.Start {
			key = fmt.Sprintf("%+v", *rc)
		}
		rep.Eval(key)
	}
}

// ---------------------------------------------------------------------------------------------
// ScannerFanout.tla: the (batch length, matcher workers, channel capacity) case space

// FanCase is one case exported by TLC (ScannerFanoutMC.tla, ExportOf).
type FanCase struct {
	C struct {
		Size, Start, End int64
		Batch, K         int
		Pol              string
		NF, NM, Buf      int
		Matcher          string
		Ponly            bool
	}
	RangeEnd  int64
	Delivered []struct {
		S          int64
		N          int
		Split, Buf string
	}
	Calls []struct {
		I    int64
		Kind string
	}
	Classes []struct {
		Split, Buf string
		M          int
	}
}

// the specification's matcher names -> the matchers of the harness
var fanMatcher = map[string]string{"all": "all", "none": "none", "regex": "regex", "even": "leaf", "odd": "leafodd", "every": "leafall"}

// splitOf: the fan-out class (ScannerFanout.tla, Split) of the delivered batch of the case that holds index i.
func (fc *FanCase) splitOf(i int64) string {
	for _, d := range fc.Delivered {
		if d.S <= i && i < d.S+int64(d.N) {
			return d.Split
		}
	}
	return "none"
}

// TestFanout runs every case of ScannerFanout.tla through the real code: the scripted log holds the entries the
// specification's WORLD record prescribes and answers a request starting at s with the number of entries the case's
// reply policy gives; Scanner.Scan runs with the case's BatchSize / ParallelFetch / NumWorkers / BufferSize / matcher.
// The callbacks made must be exactly the case's Calls (index and kind, once each); every fourth case also runs
// Fetcher.Run, whose callback must get exactly the case's Delivered batches.
func TestFanout(t *testing.T) {
	path, wpath := os.Getenv("VERIF_FANOUT_CASES"), os.Getenv("VERIF_FANOUT_WORLD")
	if path == "" || wpath == "" {
		t.Skip("VERIF_FANOUT_CASES / VERIF_FANOUT_WORLD not set")
	}
	cases, err := vh.LoadNDJSON[FanCase](path)
	if err != nil {
		t.Fatal(err)
	}
	worlds, err := vh.LoadNDJSON[WorldSpec](wpath)
	if err != nil || len(worlds) != 1 {
		t.Fatal("cannot load the WORLD record: ", err)
	}
	rep := vh.NewReport("c16-fanout", "cases of ScannerFanout.tla (tree size, start / end, batch size 1..16, reply policy full / cap k / align k / half, "+
		"1..4 fetchers, 1..6 matcher workers, channel capacity 0..16, six matchers, PrecertOnly; counted transient get-entries errors added) run through the "+
		"real Scanner.Scan (and Fetcher.Run) in virtual time under -race on the log content the specification prescribes; the callbacks made must be "+
		"exactly the specification's Calls, the batches exactly its Delivered; non-trivial = distinct set of (matcher workers, split class, buffer class) "+
		"exercised by a case that owes at least one callback")
	defer func() {
		if err := rep.Write(); err != nil {
			t.Fatal(err)
		}
	}()
	// the classes of the WORLD record are materialized anew (other concrete defects of the catalogue) every 25 cases
	var w *World
	pick0 := vh.Rand(1616).Intn(1000)
	rec, err := vh.NewRecorder("traces.ndjson")
	if err != nil {
		t.Fatal(err)
	}
	traceEvery := vh.EnvInt("VERIF_FANOUT_TRACE_EVERY", 5)
	for idx := range cases {
		if idx%25 == 0 {
			if w, err = NewWorldFrom(&worlds[0], pick0+idx/25*7); err != nil {
				t.Fatal(err)
			}
			if err := w.CheckClasses(); err != nil {
				t.Fatal(err)
			}
		}
		fc := &cases[idx]
		m, ok := fanMatcher[fc.C.Matcher]
		if !ok || fc.C.Size > MaxN {
			t.Fatalf("case %d: matcher %q size %d", idx, fc.C.Matcher, fc.C.Size)
		}
		rng := vh.Rand(int64(31000 + idx))
		for _, mode := range []string{"scan", "fetch"} {
			if mode == "fetch" && idx%4 != 0 {
				continue
			}
			rc := &RunCfg{Start: fc.C.Start, End: fc.C.End, Batch: fc.C.Batch, NW: fc.C.NF, Init: fc.C.Size, Final: fc.C.Size, Mode: mode,
				Matcher: m, PrecertOnly: fc.C.Ponly, NMatch: fc.C.NM, Buf: fc.C.Buf, EndWith: "stop", Script: -1,
				ErrBudget: []int{0, 0, 1, 3}[rng.Intn(4)], SpecWorld: true, ReplyAt: map[int64]int{}, Pol: fc.C.Pol, PolK: fc.C.K}
			for _, d := range fc.Delivered {
				rc.ReplyAt[d.S] = d.N
			}
			fk := newFake(w, rc, int64(40000+idx))
			fk.ws = &worlds[0]
			var out outcome
			synctest.Test(t, func(t *testing.T) { out = execute(t, w, rc, fk, rep) })
			monitors(rep, rc, fk, out)
			if idx%traceEvery == 0 {
				for _, ev := range fk.ev {
					rec.Emit(ev)
				}
			}
			compareFanout(rep, rc, fk, fc, out)
		}
		key := ""
		if len(fc.Calls) > 0 {
			var cl []string
			for _, c := range fc.Classes {
				cl = append(cl, fmt.Sprintf("%d/%s/%s", c.M, c.Split, c.Buf))
				rep.Add("fanout_"+c.Split+"_"+c.Buf, 1)
			}
			sort.Strings(cl)
			key = strings.Join(cl, " ")
		}
		rep.Eval(key)
		if idx < 2 {
			rep.Sample(map[string]any{"case": fc})
		}
	}
	rep.Replayed = len(cases)
	if err := rec.Close(); err != nil {
		t.Fatal(err)
	}
	rep.Extra["events"] = rec.N
}

// compareFanout: the real run against the case of the specification.
func compareFanout(rep *vh.Report, rc *RunCfg, fk *Fake, fc *FanCase, out outcome) {
	fk.mu.Lock()
	defer fk.mu.Unlock()
	replay := func() any {
		r := replayOf(rc, fk).(map[string]any)
		r["case"] = fc
		return r
	}
	if !out.returned {
		return // (terminates:<mode> was reported)
	}
	if out.err != nil {
		rep.Violate("fanout:error", fmt.Sprintf("the case ends without error in the specification, the real run returned %v", out.err), replay())
		return
	}
	if rc.Mode == "fetch" {
		var want, got []string
		for _, d := range fc.Delivered {
			want = append(want, fmt.Sprintf("[%d+%d]", d.S, d.N))
		}
		for _, b := range fk.batches {
			got = append(got, fmt.Sprintf("[%d+%d]", b[0], b[1]))
		}
		sort.Strings(want)
		sort.Strings(got)
		if strings.Join(want, "") != strings.Join(got, "") {
			rep.Violate("fanout:batches:"+rc.Pol, fmt.Sprintf("BatchSize %d, %d fetchers, range [%d,%d), reply policy %s %d: the specification delivers the batches %v, "+
				"the real fetcher %v", rc.Batch, rc.NW, rc.Start, fc.RangeEnd, rc.Pol, rc.PolK, want, got), replay())
		}
		return
	}
	owed := map[int64]string{}
	for _, c := range fc.Calls {
		owed[c.I] = c.Kind
	}
	where := fmt.Sprintf("BatchSize %d, %d fetchers, %d matcher workers, BufferSize %d, matcher %s (precertOnly=%v), range [%d,%d), reply policy %s %d",
		rc.Batch, rc.NW, rc.NMatch, rc.Buf, rc.Matcher, rc.PrecertOnly, rc.Start, fc.RangeEnd, rc.Pol, rc.PolK)
	for _, c := range fc.Calls {
		ks := fk.certs[c.I]
		switch {
		case len(ks) == 0:
			rep.Violate("fanout:callback-missing:"+fc.splitOf(c.I), fmt.Sprintf("%s: the scan owes entry %d a %s callback, none was made (the entry came in a batch of class %q: "+
				"batches %v)", where, c.I, c.Kind, fc.splitOf(c.I), fc.Delivered), replay())
		case len(ks) > 1:
			rep.Violate("fanout:callback-repeated:"+fc.splitOf(c.I), fmt.Sprintf("%s: %d callbacks for entry %d", where, len(ks), c.I), replay())
		case ks[0] != c.Kind:
			rep.Violate("fanout:callback-wrong-kind", fmt.Sprintf("%s: entry %d is owed a %s callback, the %s callback was invoked", where, c.I, c.Kind, ks[0]), replay())
		}
	}
	for i, ks := range fk.certs {
		if _, ok := owed[i]; !ok && len(ks) > 0 {
			rep.Violate("fanout:callback-unowed", fmt.Sprintf("%s: %d callback(s) for entry %d, which the scan does not owe one", where, len(ks), i), replay())
		}
	}
}
