//go:build go1.25

package c06

import (
	"context"
	"fmt"
	"sync"
	"testing"
	"testing/synctest"
	"time"

	ct "github.com/google/certificate-transparency-go"

	"verifharness/vh"
)

// TestFree lets goroutines use one shared LogInfo freely against a growing log (seeded virtual delays in the
// server, between calls and between sequencing steps; no gates) and records Begin / Serve / Grow / Return events
// for LogInfoClientTrace.tla.  The verdict is the trace specification's; here only panics and the named clause
// HandedOutStable are judged.
func TestFree(t *testing.T) {
	rep := vh.NewReport("c06-loginfo-free", "free-running goroutines (3 per LogInfo, seeded virtual delays) sharing one real ctutil.LogInfo against a growing "+
		"in-process log that may fail and lie; every Begin / Serve (under the log's mutex) / Grow / Return event is recorded and validated by LogInfoClientTrace.tla "+
		"(silent steps for the cache read, the store and the SetSTH / LastSTH effects); non-trivial = recorded run")
	rec, err := vh.NewRecorder("loginfo-traces.ndjson")
	if err != nil {
		t.Fatal(err)
	}
	keys, err := NewLogKeys()
	if err != nil {
		t.Fatal(err)
	}
	runs := vh.EnvInt("VERIF_TRACES", 30)
	per := vh.EnvInt("VERIF_CALLS", 6)
	const max, callers = 6, 3
	for k := 0; k < runs; k++ {
		k := k
		rnd := vh.Rand(int64(k)*104729 + 5)
		key, other := keys.EC, keys.RSA
		if k%2 == 1 {
			key, other = keys.RSA, keys.EC
		}
		synctest.Test(t, func(t *testing.T) {
			init := rnd.Intn(3)
			w, err := NewWorld(key, max, init, rnd)
			if err != nil {
				t.Fatal(err)
			}
			srv := NewServer(w)
			srv.Free, srv.Rnd, srv.Lies = true, vh.Rand(int64(k)*31+1), k%3 != 0
			srv.OnServe = func(sv Served) {
				rec.Emit(map[string]any{"ev": "Serve", "g": sv.G, "kind": sv.Kind, "eff": sv.Eff, "size": sv.Size, "cert": sv.Cert, "idx": sv.Idx})
			}
			li, err := construct(k/2, w, other, srv)
			if err != nil {
				t.Fatal(err)
			}
			how := constructors[(k/2)%len(constructors)]
			rec.Emit(map[string]any{"ev": "Reset", "size": init, "constructor": how})
			ctx, cancel := context.WithCancel(context.Background())
			defer cancel()
			var hmu sync.Mutex
			var hs []handed
			keep := func(p *ct.SignedTreeHead, how string) {
				if p != nil {
					hmu.Lock()
					hs = append(hs, handed{p, snapshot(p), how})
					hmu.Unlock()
				}
			}
			var wg sync.WaitGroup
			stop := make(chan struct{})
			go func() { // the sequencer
				r := vh.Rand(int64(k)*17 + 3)
				for w.Size() < max {
					select {
					case <-time.After(time.Duration(2+r.Intn(10)) * time.Millisecond):
					case <-stop:
						return
					}
					srv.GrowLogged(func(n int) { rec.Emit(map[string]any{"ev": "Grow", "size": n}) })
				}
			}()
			for g := 1; g <= callers; g++ {
				g := g
				r := vh.Rand(int64(k)*1009 + int64(g))
				wg.Add(1)
				go func() {
					defer wg.Done()
					cctx := WithCaller(ctx, g)
					for n := 0; n < per; n++ {
						time.Sleep(time.Duration(r.Intn(4)) * time.Millisecond)
						size := w.Size()
						c := Call{M: []string{"VI", "VI", "VIL", "VIL", "VIL", "VIAt", "Set", "Last", "SCT"}[r.Intn(9)], Ts: "sct", Arg: STH{-1, "none"}, Sct: "none"}
						if c.M == "VI" || c.M == "VIL" || c.M == "VIAt" || c.M == "SCT" {
							c.Cert = r.Intn(max + 1)
							if size >= 1 && r.Intn(3) > 0 {
								c.Cert = 1 + r.Intn(size)
							}
						}
						if c.M != "SCT" && c.Cert >= 0 && (c.M == "VI" || c.M == "VIL" || c.M == "VIAt") && r.Intn(6) == 0 {
							c.Ts = "other"
						}
						if c.M == "VIAt" || c.M == "Set" {
							c.Arg = STH{r.Intn(size + 1), "log"}
							if size >= 1 && r.Intn(5) == 0 {
								c.Arg = STH{1 + r.Intn(size), "fork"}
							}
							if c.M == "Set" && r.Intn(6) == 0 {
								c.Arg = STH{-1, "none"}
							}
						}
						if c.M == "SCT" {
							c.Sct = []string{"valid", "valid", "otherCert"}[r.Intn(3)]
						}
						crec := w.Certs[c.Cert]
						ts, carried := crec.TS, crec.OtherTS
						if c.Ts == "other" {
							ts, carried = crec.OtherTS, crec.TS
						}
						leaf := w.Leaf(c.Cert, carried)
						var obj *ct.SignedTreeHead
						if c.M == "VIAt" || c.M == "Set" {
							o, merr := w.MakeSTH(c.Arg)
							if merr != nil {
								panic(merr)
							}
							obj = o
							keep(obj, "given to "+methodName[c.M])
						}
						sct := crec.SCT
						if c.Sct == "otherCert" {
							sct = w.Certs[(c.Cert+1)%len(w.Certs)].SCT
						}
						rec.Emit(map[string]any{"ev": "Begin", "g": g, "m": c.M, "cert": c.Cert, "ts": c.Ts, "arg": c.Arg, "sct": c.Sct})
						idx, ok, last := int64(-1), true, STH{-1, "none"}
						func() {
							defer func() {
								if p := recover(); p != nil {
									rep.Violate("C06:loginfo:panic:"+methodName[c.M], fmt.Sprintf("%s panicked in a free run: %v", describe(c), p), nil)
									ok = false
								}
							}()
							var err error
							switch c.M {
							case "VI":
								idx, err = li.VerifyInclusion(cctx, leaf, ts)
							case "VIL":
								idx, err = li.VerifyInclusionLatest(cctx, leaf, ts)
							case "VIAt":
								idx, err = li.VerifyInclusionAt(cctx, leaf, ts, obj.TreeSize, obj.SHA256RootHash[:])
							case "Set":
								li.SetSTH(obj)
							case "Last":
								p := li.LastSTH()
								keep(p, "handed out by LastSTH")
								last = w.Classify(p)
							case "SCT":
								err = li.VerifySCTSignature(sct, leaf)
							}
							ok = err == nil
						}()
						rec.Emit(map[string]any{"ev": "Return", "g": g, "m": c.M, "ok": ok, "idx": idx, "sth": last})
						rep.Eval("")
					}
				}()
			}
			wg.Wait()
			close(stop)
			synctest.Wait()
			if x := srv.Strangers; len(x) > 0 {
				rep.Violate("C06:loginfo:stray-request", fmt.Sprintf("free run: requests that belong to no call: %v", x), nil)
			}
			for _, h := range hs {
				if !equalSTH(h.p, &h.snap) {
					rep.Violate("C06:loginfo:handed-out-STH-changed", fmt.Sprintf("free run: an STH object %s (size %d) was overwritten afterwards (now size %d) [LogInfo built by %s]", h.how, h.snap.TreeSize, h.p.TreeSize, how), nil)
					break
				}
			}
			rep.Eval(fmt.Sprintf("run-%d", k))
		})
	}
	if err := rec.Close(); err != nil {
		t.Fatal(err)
	}
	rep.Extra["events"] = rec.N
	if err := rep.Write(); err != nil {
		t.Fatal(err)
	}
}
