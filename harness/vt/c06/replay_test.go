//go:build go1.25

package c06

import (
	"context"
	"crypto"
	"crypto/sha256"
	"fmt"
	"net/http"
	"os"
	"reflect"
	"testing"
	"testing/synctest"

	ct "github.com/google/certificate-transparency-go"
	"github.com/google/certificate-transparency-go/client"
	"github.com/google/certificate-transparency-go/ctutil"
	"github.com/google/certificate-transparency-go/jsonclient"
	"github.com/google/certificate-transparency-go/loglist3"

	"verifharness/vh"
)

var constructors = []string{"NewLogInfo", "LogInfoByKeyHash", "literal"}

// construct builds the shared LogInfo over the fake log in one of the three ways the package offers.
func construct(how int, w *World, other crypto.Signer, srv http.RoundTripper) (*ctutil.LogInfo, error) {
	hc := &http.Client{Transport: srv}
	ours := &loglist3.Log{Description: "verif c06", URL: "log.test/c06/", Key: w.SPKI, MMD: 86400}
	switch constructors[how%len(constructors)] {
	case "NewLogInfo":
		return ctutil.NewLogInfo(ours, hc)
	case "LogInfoByKeyHash":
		ow, err := NewWorld(other, 0, 0, vh.Rand(99))
		if err != nil {
			return nil, err
		}
		ll := &loglist3.LogList{Operators: []*loglist3.Operator{{Name: "op", Logs: []*loglist3.Log{
			{Description: "the other log", URL: "https://other.test/", Key: ow.SPKI, MMD: 86400}, ours}}}}
		m, err := ctutil.LogInfoByKeyHash(ll, hc)
		if err != nil {
			return nil, err
		}
		li := m[sha256.Sum256(w.SPKI)]
		if li == nil || len(m) != 2 {
			return nil, fmt.Errorf("LogInfoByKeyHash: %d entries, ours present: %v", len(m), li != nil)
		}
		return li, nil
	}
	lc, err := client.New("https://log.test/c06", hc, jsonclient.Options{PublicKeyDER: w.SPKI})
	if err != nil {
		return nil, err
	}
	v, err := ct.NewSignatureVerifier(w.Key.Public())
	if err != nil {
		return nil, err
	}
	return &ctutil.LogInfo{Description: "verif c06 literal", Client: lc, Verifier: v, PublicKey: w.SPKI}, nil
}

// running is a call of the real LogInfo in flight (or finished, not yet compared).
type running struct {
	g     int
	call  Call
	began int
	done  chan struct{}
	idx   int64
	err   error
	last  *ct.SignedTreeHead
	pval  any
}

func (r *running) finished() bool {
	select {
	case <-r.done:
		return true
	default:
		return false
	}
}

// handed is an STH object that crossed the LogInfo's API, with its content at that moment.
type handed struct {
	p    *ct.SignedTreeHead
	snap ct.SignedTreeHead
	how  string
}

func snapshot(p *ct.SignedTreeHead) ct.SignedTreeHead {
	s := *p
	s.TreeHeadSignature.Signature = append([]byte{}, p.TreeHeadSignature.Signature...)
	return s
}

func equalSTH(a, b *ct.SignedTreeHead) bool { return reflect.DeepEqual(*a, *b) }

var methodName = map[string]string{"VI": "VerifyInclusion", "VIL": "VerifyInclusionLatest", "VIAt": "VerifyInclusionAt",
	"Set": "SetSTH", "Last": "LastSTH", "SCT": "VerifySCTSignature"}

// session is one behaviour against one LogInfo.
type session struct {
	t      *testing.T
	rep    *vh.Report
	b      Beh
	w      *World
	srv    *Server
	li     *ctutil.LogInfo
	how    string
	ctx    context.Context
	run    map[int]*running
	handed []handed
	broken bool
	inter  bool // an included certificate was reported included although the cached STH was replaced while the call was in flight
}

func (s *session) violate(fp, what string) {
	s.broken = true
	s.rep.Violate("C06:loginfo:"+fp, fmt.Sprintf("%s [LogInfo built by %s]", what, s.how),
		map[string]any{"loginfo_behaviour": s.b})
}

// start begins the call of a Begin step in its own goroutine.
func (s *session) start(i int, st Step) {
	c, w := st.Call, s.w
	r := &running{g: st.G, call: c, began: i, done: make(chan struct{}), idx: -99}
	s.run[st.G] = r
	ctx := WithCaller(s.ctx, st.G)
	rec := w.Certs[c.Cert]
	// the timestamp the caller passes and the (irrelevant) one the leaf object happens to carry
	ts, carried := rec.TS, rec.OtherTS
	if c.Ts == "other" {
		ts, carried = rec.OtherTS, rec.TS
	}
	leaf := w.Leaf(c.Cert, carried)
	var obj *ct.SignedTreeHead
	if c.M == "VIAt" || c.M == "Set" {
		var err error
		if obj, err = w.MakeSTH(c.Arg); err != nil {
			s.t.Fatal(err)
		}
		if obj != nil {
			s.handed = append(s.handed, handed{obj, snapshot(obj), "given to " + methodName[c.M]})
		}
	}
	sct := rec.SCT
	if c.Sct == "otherCert" {
		sct = w.Certs[(c.Cert+1)%len(w.Certs)].SCT
	}
	go func() {
		defer close(r.done)
		defer func() { r.pval = recover() }()
		switch c.M {
		case "VI":
			r.idx, r.err = s.li.VerifyInclusion(ctx, leaf, ts)
		case "VIL":
			r.idx, r.err = s.li.VerifyInclusionLatest(ctx, leaf, ts)
		case "VIAt":
			r.idx, r.err = s.li.VerifyInclusionAt(ctx, leaf, ts, obj.TreeSize, obj.SHA256RootHash[:])
		case "Set":
			s.li.SetSTH(obj)
		case "Last":
			r.last = s.li.LastSTH()
		case "SCT":
			r.err = s.li.VerifySCTSignature(sct, leaf)
		}
	}()
}

func describe(c Call) string {
	switch c.M {
	case "VI", "VIL":
		return fmt.Sprintf("%s(certificate %d, %s timestamp)", methodName[c.M], c.Cert, map[string]string{"sct": "the SCT's", "other": "another"}[c.Ts])
	case "VIAt":
		return fmt.Sprintf("VerifyInclusionAt(certificate %d, %s timestamp, size %d, root of the %s tree)", c.Cert, map[string]string{"sct": "the SCT's", "other": "another"}[c.Ts], c.Arg.Size, c.Arg.Tree)
	case "Set":
		return fmt.Sprintf("SetSTH(%v)", c.Arg)
	case "SCT":
		return fmt.Sprintf("VerifySCTSignature(certificate %d, SCT %s)", c.Cert, c.Sct)
	}
	return methodName[c.M] + "()"
}

// replaced tells whether another goroutine stored an STH between step from (exclusive) and step to (inclusive).
func (s *session) replaced(g, from, to int) bool {
	for j := from + 1; j <= to && j < len(s.b.Steps); j++ {
		st := s.b.Steps[j]
		if st.G != g && (st.Op == "Store" || (st.Op == "Lin" && st.Call.M == "Set")) {
			return true
		}
	}
	return false
}

// settle compares the world with the specification's state after step i (all goroutines have come to rest);
// returned holds the calls that returned, by the specification, since the last comparison.
func (s *session) settle(i int, returned map[int]Call) {
	post := s.b.Steps[i].Post
	at := fmt.Sprintf("after step %d (%s of goroutine %d)", i+1, s.b.Steps[i].Op, s.b.Steps[i].G)
	for g := 1; g <= len(post.Calls); g++ {
		r := s.run[g]
		if r == nil {
			continue
		}
		mn := methodName[r.call.M]
		spec := post.Calls[g-1]
		if want, ok := returned[g]; ok {
			if !r.finished() {
				s.violate(mn+":did-not-return", fmt.Sprintf("%s: by the specification %s has returned (%v), the real call is still under way (outstanding request: %+v)", at, describe(r.call), want.Res, s.srv.Outstanding(g)))
				continue
			}
			s.judge(i, r, want, at)
			delete(s.run, g)
			continue
		}
		// the call is still under way in the specification: it waits for the server
		if r.finished() {
			s.violate(mn+":returned-without-"+spec.Phase, fmt.Sprintf("%s: %s returned (%d, %v, panic %v) where the specification has it waiting for the log's answer (%s)", at, describe(r.call), r.idx, r.err, r.pval, spec.Phase))
			continue
		}
		p := s.srv.Outstanding(g)
		switch {
		case p == nil:
			s.violate(mn+":no-request", fmt.Sprintf("%s: %s has no request outstanding, the specification has it in %s", at, describe(r.call), spec.Phase))
		case spec.Phase == "wantSTH" && p.Kind != "sth":
			s.violate(mn+":request-differs:get-sth", fmt.Sprintf("%s: %s sent %q where the specification asks for the log's head", at, describe(r.call), p.Raw))
		case spec.Phase == "wantProof":
			rec := s.w.Certs[spec.Cert]
			hash := rec.LeafHash
			if spec.Ts == "other" {
				hash = rec.OtherH
			}
			if p.Kind != "proof" {
				s.violate(mn+":request-differs:get-proof-by-hash", fmt.Sprintf("%s: %s sent %q where the specification asks for the audit path at size %d", at, describe(r.call), p.Raw, spec.Sth.Size))
			} else if int64(p.Size) != int64(spec.Sth.Size) {
				s.violate(mn+":request-differs:tree-size", fmt.Sprintf("%s: %s asks for the audit path at size %d, the STH the call works with has size %d", at, describe(r.call), p.Size, spec.Sth.Size))
			} else if !reflect.DeepEqual(p.Hash, hash) {
				s.violate(mn+":request-differs:leaf-hash", fmt.Sprintf("%s: %s asks for another hash than the leaf hash of the certificate with the timestamp passed", at, describe(r.call)))
			}
		}
	}
	if x := s.srv.Strangers; len(x) > 0 {
		s.violate("stray-request", fmt.Sprintf("%s: requests that belong to no call of the specification: %v", at, x))
	}
	got := s.li.LastSTH()
	if got != nil {
		s.handed = append(s.handed, handed{got, snapshot(got), "handed out by LastSTH"})
	}
	if c := s.w.Classify(got); c != post.Cached {
		s.violate("cache:"+cacheClass(post.Cached, c), fmt.Sprintf("%s: the LogInfo holds %v, by the specification (the cached STH is whatever was last set) it holds %v", at, c, post.Cached))
	}
}

func cacheClass(want, got STH) string {
	switch {
	case want.Tree == "none":
		return "holds-one-where-none-was-set"
	case got.Tree == "none":
		return "holds-none"
	case got.Tree == "other":
		return "holds-a-head-nobody-set"
	case got.Size < want.Size:
		return "older-than-last-set"
	case got.Size > want.Size:
		return "newer-than-last-set"
	}
	return "other-tree-than-last-set"
}

// judge compares the result of a finished call with the specification's.
func (s *session) judge(i int, r *running, want Call, at string) {
	mn := methodName[r.call.M]
	d := describe(r.call)
	if r.pval != nil {
		s.violate("panic:"+mn, fmt.Sprintf("%s: %s panicked: %v", at, d, r.pval))
		return
	}
	inflight := s.replaced(r.g, r.began, i)
	tag := ":quiet"
	if inflight {
		tag = ":sth-replaced-in-flight"
	}
	switch r.call.M {
	case "VI", "VIL", "VIAt":
		switch {
		case want.Res.Ok && r.err != nil:
			s.violate(mn+":included-reported-missing"+tag, fmt.Sprintf("%s: %s: the certificate is entry %d of the tree of size %d the call's STH describes and the log served the honest audit path for it, yet the call reports: %v", at, d, want.Res.Idx, want.Sth.Size, r.err))
		case want.Res.Ok && int(r.idx) != want.Res.Idx:
			s.violate(mn+":wrong-index"+tag, fmt.Sprintf("%s: %s reports index %d, the certificate is entry %d", at, d, r.idx, want.Res.Idx))
		case !want.Res.Ok && r.err == nil:
			why := want.Pc
			if want.Sc == "fail" {
				why = "get-sth-failed"
			} else if want.Pc == "honest" {
				why = "head-of-" + want.Sth.Tree + "-tree"
			} else if want.Pc == "absent" && want.Ts == "other" {
				why = "absent:other-timestamp"
			}
			s.violate(mn+":missing-reported-included:"+why+tag, fmt.Sprintf("%s: %s reports inclusion at %d; by the specification it fails (STH %v, answer class %s)", at, d, r.idx, want.Sth, want.Pc))
		case !want.Res.Ok && r.idx != -1:
			s.violate(mn+":error-with-index", fmt.Sprintf("%s: %s fails (%v) but reports index %d", at, d, r.err, r.idx))
		case want.Res.Ok && inflight:
			s.inter = true
		}
	case "SCT":
		if want.Res.Ok != (r.err == nil) {
			s.violate(mn+":"+want.Sct, fmt.Sprintf("%s: %s = %v, the specification's verdict: ok = %v", at, d, r.err, want.Res.Ok))
		}
	case "Last":
		if r.last != nil {
			s.handed = append(s.handed, handed{r.last, snapshot(r.last), "handed out by LastSTH"})
		}
		if c := s.w.Classify(r.last); c != want.Sth {
			s.violate("LastSTH:"+cacheClass(want.Sth, c), fmt.Sprintf("%s: LastSTH() = %v, by the specification the STH last set is %v", at, c, want.Sth))
		}
	}
}

func internal(op string) bool { return op == "ReadCache" || op == "Lin" || op == "Store" || op == "Return" }

func (s *session) replay() {
	returned := map[int]Call{}
	steps := s.b.Steps
	for i, st := range steps {
		if s.broken {
			break
		}
		switch st.Op {
		case "Begin":
			s.start(i, st)
		case "ServeSTH", "ServeProof":
			if !s.srv.Release(st.G, st.Cls) {
				s.violate("no-request", fmt.Sprintf("step %d: no request of goroutine %d to answer", i+1, st.G))
			}
		case "Grow":
			s.w.Grow()
		case "Return":
			returned[st.G] = st.Call
		}
		if i+1 < len(steps) && internal(steps[i+1].Op) {
			continue
		}
		synctest.Wait()
		s.settle(i, returned)
		returned = map[int]Call{}
	}
	// NAMED CLAUSE HandedOutStable: no STH object that crossed the API has been written to
	for _, h := range s.handed {
		if !equalSTH(h.p, &h.snap) {
			s.violate("handed-out-STH-changed", fmt.Sprintf("an STH object %s (size %d) was overwritten afterwards (now size %d): whoever holds it sees a head it was never given", h.how, h.snap.TreeSize, h.p.TreeSize))
			break
		}
	}
}

func maxOf(b Beh) (max, init int) {
	up := func(x int) {
		if x > max {
			max = x
		}
	}
	for _, st := range b.Steps {
		up(st.Post.Size)
		up(st.Call.Cert)
		up(st.Call.Arg.Size)
	}
	if len(b.Steps) > 0 {
		init = b.Steps[0].Post.Size
		if b.Steps[0].Op == "Grow" {
			init--
		}
	}
	return
}

// TestReplay replays the behaviours of MCLogInfoClient.tla (VERIF_BEHAVIOURS) into real LogInfo objects.
func TestReplay(t *testing.T) {
	path := os.Getenv("VERIF_BEHAVIOURS")
	if path == "" {
		t.Skip("VERIF_BEHAVIOURS not set")
	}
	behs, err := vh.LoadNDJSON[Beh](path)
	if err != nil {
		t.Fatal(err)
	}
	rep := vh.NewReport("c06-loginfo-replay", "LogInfoClient.tla behaviours replayed into ONE real ctutil.LogInfo shared by up to three goroutines "+
		"(built by NewLogInfo / LogInfoByKeyHash / a literal; client.LogClient over an in-process log with a real ECDSA or RSA key, honest RFC 6962 tree of "+
		"harness/ref): every get-sth / get-proof-by-hash request waits at a gate and is answered (honestly, with a failure, with another path, with another "+
		"index) when the behaviour says so, the log grows where the behaviour says so; after every schedulable step (testing/synctest: all goroutines at "+
		"rest) each call's outstanding request (endpoint, leaf hash, tree size) or result, and the cached STH, are compared with the specification's state; "+
		"non-trivial = behaviour in which an included certificate was reported included although another goroutine replaced the cached STH while the call was in flight")
	keys, err := NewLogKeys()
	if err != nil {
		t.Fatal(err)
	}
	for _, b := range behs {
		b := b
		max, init := maxOf(b)
		key, other := keys.EC, keys.RSA
		if b.Idx%2 == 1 {
			key, other = keys.RSA, keys.EC
		}
		synctest.Test(t, func(t *testing.T) {
			w, err := NewWorld(key, max, init, vh.Rand(int64(b.Idx)*7919+17))
			if err != nil {
				t.Fatal(err)
			}
			srv := NewServer(w)
			li, err := construct(b.Idx/2, w, other, srv)
			if err != nil {
				t.Fatal(err)
			}
			ctx, cancel := context.WithCancel(context.Background())
			s := &session{t: t, rep: rep, b: b, w: w, srv: srv, li: li, how: constructors[(b.Idx/2)%len(constructors)], ctx: ctx, run: map[int]*running{}}
			s.replay()
			// the replay is over: end whatever is still under way
			cancel()
			for _, r := range s.run {
				<-r.done
			}
			synctest.Wait()
			key := ""
			if s.inter && !s.broken {
				key = fmt.Sprintf("beh-%d", b.Idx)
			}
			rep.Eval(key)
			if s.inter && b.Idx < 40 {
				ops := []string{}
				for _, st := range b.Steps {
					ops = append(ops, fmt.Sprintf("%s/%d/%s%s", st.Op, st.G, st.Call.M, st.Cls))
				}
				rep.Sample(map[string]any{"constructor": s.how, "steps": ops})
			}
		})
	}
	rep.Replayed = len(behs)
	if err := rep.Write(); err != nil {
		t.Fatal(err)
	}
}
