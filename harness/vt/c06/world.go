// Package c06 binds spec/client/LogInfoClient.tla to the real ctutil.LogInfo (ctutil/loginfo.go on
// client/logclient.go and jsonclient): ONE LogInfo shared by several goroutines against a growing log.
//
// The log is a fake that lives behind an http.RoundTripper: honest RFC 6962 tree (harness/ref), signed tree
// heads under a real key, get-proof-by-hash answered from the tree.  In replay mode every request waits at a
// gate; the behaviours simulated by TLC (MCLogInfoClient, LogInfoClientSim.cfg) decide which request is
// answered when and how, and the log grows where the behaviour says so (testing/synctest, go1.26: after every
// schedulable step all goroutines have come to rest).  In free mode requests are answered after seeded virtual
// delays and everything observed is recorded for LogInfoClientTrace.tla.
package c06

import (
	"bytes"
	"context"
	"crypto"
	"crypto/ecdsa"
	"crypto/elliptic"
	"crypto/rand"
	"crypto/rsa"
	"crypto/sha256"
	"encoding/base64"
	"encoding/json"
	"fmt"
	"io"
	mrand "math/rand"
	"net/http"
	"strconv"
	"strings"
	"sync"
	"time"

	ct "github.com/google/certificate-transparency-go"
	"github.com/google/certificate-transparency-go/tls"

	"verifharness/ref"
)

// ---------------------------------------------------------------- records of MCLogInfoClient.tla

// STH is a tree head of the specification: tree "log" (the log's own at that size), "fork" (same size, other
// leaves), "none" (no head).
type STH struct {
	Size int    `json:"size"`
	Tree string `json:"tree"`
}

// Res is the specification's verdict of a call.
type Res struct {
	Ok  bool `json:"ok"`
	Idx int  `json:"idx"`
}

// Call is a call record of the specification.
type Call struct {
	M     string `json:"m"`
	Cert  int    `json:"cert"`
	Ts    string `json:"ts"`
	Arg   STH    `json:"arg"`
	Sct   string `json:"sct"`
	Phase string `json:"phase"`
	Sth   STH    `json:"sth"`
	Sc    string `json:"sc"`
	Pc    string `json:"pc"`
	Res   Res    `json:"res"`
}

// Post is the state after a step.
type Post struct {
	Size   int    `json:"size"`
	Cached STH    `json:"cached"`
	Calls  []Call `json:"calls"`
}

// Step is one step of a behaviour.
type Step struct {
	Op   string `json:"op"`
	G    int    `json:"g"`
	Cls  string `json:"cls"`
	Call Call   `json:"call"`
	Post Post   `json:"post"`
}

// Beh is one behaviour with the index that fixes its materialization (key type, constructor).
type Beh struct {
	Idx   int    `json:"idx"`
	Steps []Step `json:"steps"`
}

// ---------------------------------------------------------------- the log

// CertRec is a certificate of the world: what is logged (or not) and what a client holds of it.
type CertRec struct {
	Pre      bool
	Entry    ref.Entry
	TS       uint64 // the SCT's timestamp
	OtherTS  uint64 // another timestamp (no leaf carries it)
	LeafHash []byte // SHA-256(0x00 || MerkleTreeLeaf(TS, Entry)) by harness/ref
	OtherH   []byte // the hash a client computes with OtherTS
	SCT      ct.SignedCertificateTimestamp
}

// World is one log: key, certificates 0..Max (0 is never sequenced, n is the n-th entry), the honest tree over
// all of them and a tree of the same sizes over other leaves.
type World struct {
	Key   crypto.Signer
	SPKI  []byte
	LogID [32]byte
	Certs []CertRec
	Tree  *ref.Tree
	Fork  *ref.Tree

	mu   sync.Mutex
	size int
}

// LogKeys are made once per test binary (RSA key generation is slow).
type LogKeys struct{ EC, RSA crypto.Signer }

// NewLogKeys makes one key of each type.
func NewLogKeys() (*LogKeys, error) {
	ec, err := ecdsa.GenerateKey(elliptic.P256(), rand.Reader)
	if err != nil {
		return nil, err
	}
	rk, err := rsa.GenerateKey(rand.Reader, 2048)
	if err != nil {
		return nil, err
	}
	return &LogKeys{ec, rk}, nil
}

// NewWorld builds a log that will hold up to max certificates and starts at size.
func NewWorld(key crypto.Signer, max, size int, rnd *mrand.Rand) (*World, error) {
	id, spki, err := ref.KeyID(key.Public())
	if err != nil {
		return nil, err
	}
	w := &World{Key: key, SPKI: spki, Tree: ref.NewTree(), Fork: ref.NewTree(), size: size}
	copy(w.LogID[:], id)
	blob := func(n int) []byte {
		b := make([]byte, n)
		rnd.Read(b)
		return b
	}
	for c := 0; c <= max; c++ {
		r := CertRec{Pre: (c+rnd.Intn(2))%2 == 1, TS: 1600000000000 + uint64(c)*1000 + uint64(rnd.Intn(999)), OtherTS: 1600000500000 + uint64(c)}
		if r.Pre {
			r.Entry = ref.Entry{Type: ref.PrecertEntry, IssuerKeyHash: blob(32), TBS: blob(60 + rnd.Intn(200))}
		} else {
			r.Entry = ref.Entry{Type: ref.X509Entry, Cert: blob(80 + rnd.Intn(300))}
		}
		r.LeafHash = ref.LeafHash(ref.MerkleTreeLeaf(r.TS, r.Entry, nil))
		r.OtherH = ref.LeafHash(ref.MerkleTreeLeaf(r.OtherTS, r.Entry, nil))
		ds, err := ref.Sign(key, ref.SCTSignatureInput(r.TS, r.Entry, nil))
		if err != nil {
			return nil, err
		}
		h, s, sig, err := ref.ParseDigitallySigned(ds)
		if err != nil {
			return nil, err
		}
		r.SCT = ct.SignedCertificateTimestamp{SCTVersion: ct.V1, LogID: ct.LogID{KeyID: w.LogID}, Timestamp: r.TS,
			Signature: ct.DigitallySigned{Algorithm: tlsAlg(h, s), Signature: sig}}
		w.Certs = append(w.Certs, r)
		if c >= 1 {
			w.Tree.AppendHash(r.LeafHash)
			w.Fork.Append(blob(40))
		}
	}
	return w, nil
}

// Size is the number of sequenced certificates.
func (w *World) Size() int { w.mu.Lock(); defer w.mu.Unlock(); return w.size }

// Grow sequences one more certificate.
func (w *World) Grow() int { w.mu.Lock(); defer w.mu.Unlock(); w.size++; return w.size }

// HeadTS is the timestamp of the log's head at size n.
func HeadTS(n int) uint64 { return 1700000000000 + uint64(n)*60000 }

// Root is the root of the tree an STH of the specification describes.
func (w *World) Root(s STH) []byte {
	if s.Tree == "fork" {
		return w.Fork.Root(s.Size)
	}
	return w.Tree.Root(s.Size)
}

// MakeSTH builds the object a caller hands to SetSTH / takes size and root from (nil for "none").
func (w *World) MakeSTH(s STH) (*ct.SignedTreeHead, error) {
	if s.Tree == "none" {
		return nil, nil
	}
	out := &ct.SignedTreeHead{Version: ct.V1, TreeSize: uint64(s.Size), Timestamp: HeadTS(s.Size)}
	copy(out.SHA256RootHash[:], w.Root(s))
	ds, err := ref.Sign(w.Key, ref.STHSignatureInput(out.Timestamp, out.TreeSize, out.SHA256RootHash[:]))
	if err != nil {
		return nil, err
	}
	h, sg, sig, err := ref.ParseDigitallySigned(ds)
	if err != nil {
		return nil, err
	}
	out.TreeHeadSignature = ct.DigitallySigned{Algorithm: tlsAlg(h, sg), Signature: sig}
	return out, nil
}

// Classify tells which head of the specification an STH object is (by size and root); "other" if none.
func (w *World) Classify(p *ct.SignedTreeHead) STH {
	if p == nil {
		return STH{-1, "none"}
	}
	n := int(p.TreeSize)
	if n >= 0 && n <= w.Tree.Size() {
		if bytes.Equal(p.SHA256RootHash[:], w.Tree.Root(n)) && p.Timestamp == HeadTS(n) {
			return STH{n, "log"}
		}
		if n >= 1 && bytes.Equal(p.SHA256RootHash[:], w.Fork.Root(n)) && p.Timestamp == HeadTS(n) {
			return STH{n, "fork"}
		}
	}
	return STH{n, "other"}
}

// Leaf is a fresh leaf object as a client builds it for certificate c, carrying timestamp ts.
func (w *World) Leaf(c int, ts uint64) ct.MerkleTreeLeaf {
	r := w.Certs[c]
	te := &ct.TimestampedEntry{Timestamp: ts}
	if r.Pre {
		te.EntryType = ct.PrecertLogEntryType
		pc := &ct.PreCert{TBSCertificate: append([]byte{}, r.Entry.TBS...)}
		copy(pc.IssuerKeyHash[:], r.Entry.IssuerKeyHash)
		te.PrecertEntry = pc
	} else {
		te.EntryType = ct.X509LogEntryType
		te.X509Entry = &ct.ASN1Cert{Data: append([]byte{}, r.Entry.Cert...)}
	}
	return ct.MerkleTreeLeaf{Version: ct.V1, LeafType: ct.TimestampedEntryLeafType, TimestampedEntry: te}
}

// ---------------------------------------------------------------- the server

type callerKey struct{}

// WithCaller marks the context of a call with the goroutine it belongs to.
func WithCaller(ctx context.Context, g int) context.Context { return context.WithValue(ctx, callerKey{}, g) }

// Pending is a request waiting at its gate.
type Pending struct {
	G       int
	Kind    string // sth | proof | other
	Hash    []byte
	Size    uint64
	Raw     string
	release chan string
}

// Served is what the server did with a request.
type Served struct {
	G    int
	Kind string
	Cls  string // asked-for class
	Eff  string // sth: ok | fail; proof: honest | fail | badpath | badindex | absent
	Size int    // sth: the size served; proof: the size asked for
	Cert int    // proof: the certificate whose SCT-timestamp hash was asked for; -1: its other-timestamp hash; -2: unknown hash
	Idx  int
}

// Server is the log behind an http.RoundTripper.
type Server struct {
	W *World

	// free mode: answer after a seeded virtual delay with a seeded class; OnServe is called under the server's mutex
	Free    bool
	Rnd     *mrand.Rand
	Lies    bool
	OnServe func(Served)

	mu        sync.Mutex
	out       map[int]*Pending
	Strangers []string // requests that belong to no call, or a second outstanding request of a call
	Log       []Served
}

// NewServer makes a gated server.
func NewServer(w *World) *Server { return &Server{W: w, out: map[int]*Pending{}} }

// Outstanding returns the request of goroutine g waiting at its gate.
func (s *Server) Outstanding(g int) *Pending {
	s.mu.Lock()
	defer s.mu.Unlock()
	return s.out[g]
}

// Release opens the gate of goroutine g's request with the answer class.
func (s *Server) Release(g int, cls string) bool {
	s.mu.Lock()
	p := s.out[g]
	s.mu.Unlock()
	if p == nil {
		return false
	}
	p.release <- cls
	return true
}

func respond(req *http.Request, status int, body []byte) *http.Response {
	return &http.Response{StatusCode: status, Status: fmt.Sprintf("%d %s", status, http.StatusText(status)), Proto: "HTTP/1.1", ProtoMajor: 1, ProtoMinor: 1,
		Header: http.Header{"Content-Type": []string{"application/json"}}, Body: io.NopCloser(bytes.NewReader(body)), ContentLength: int64(len(body)), Request: req}
}

// RoundTrip implements http.RoundTripper.
func (s *Server) RoundTrip(req *http.Request) (*http.Response, error) {
	g, _ := req.Context().Value(callerKey{}).(int)
	p := &Pending{G: g, Kind: "other", Raw: req.Method + " " + req.URL.RequestURI(), release: make(chan string)}
	switch {
	case req.Method == http.MethodGet && strings.HasSuffix(req.URL.Path, "/ct/v1/get-sth") && req.URL.RawQuery == "":
		p.Kind = "sth"
	case req.Method == http.MethodGet && strings.HasSuffix(req.URL.Path, "/ct/v1/get-proof-by-hash"):
		q := req.URL.Query()
		h, err1 := base64.StdEncoding.DecodeString(q.Get("hash"))
		n, err2 := strconv.ParseUint(q.Get("tree_size"), 10, 64)
		if err1 == nil && err2 == nil && len(q) == 2 {
			p.Kind, p.Hash, p.Size = "proof", h, n
		}
	}
	s.mu.Lock()
	if g == 0 || s.out[g] != nil || p.Kind == "other" {
		s.Strangers = append(s.Strangers, fmt.Sprintf("goroutine %d: %s", g, p.Raw))
		s.mu.Unlock()
		return respond(req, 400, []byte("unexpected request")), nil
	}
	s.out[g] = p
	s.mu.Unlock()
	var cls string
	if s.Free {
		s.mu.Lock()
		d := time.Duration(s.Rnd.Intn(5)) * time.Millisecond
		s.mu.Unlock()
		select {
		case <-time.After(d):
		case <-req.Context().Done():
			s.drop(g)
			return nil, req.Context().Err()
		}
	} else {
		select {
		case cls = <-p.release:
		case <-req.Context().Done():
			s.drop(g)
			return nil, req.Context().Err()
		}
	}
	s.mu.Lock()
	defer s.mu.Unlock()
	delete(s.out, g)
	if s.Free {
		cls = s.drawClass(p)
	}
	status, body, sv := s.answer(p, cls)
	s.Log = append(s.Log, sv)
	if s.OnServe != nil {
		s.OnServe(sv)
	}
	return respond(req, status, body), nil
}

// GrowLogged sequences one more certificate under the server's mutex (ordered with the answers) and reports the new size.
func (s *Server) GrowLogged(emit func(size int)) {
	s.mu.Lock()
	defer s.mu.Unlock()
	emit(s.W.Grow())
}

func (s *Server) drop(g int) { s.mu.Lock(); delete(s.out, g); s.mu.Unlock() }

// drawClass (free mode) picks the server's mood; the class is only used when the hash is present.
func (s *Server) drawClass(p *Pending) string {
	if p.Kind == "sth" {
		if s.Lies && s.Rnd.Intn(10) == 0 {
			return "fail"
		}
		return "ok"
	}
	if s.Lies && s.Rnd.Intn(4) == 0 {
		return []string{"fail", "badpath", "badindex"}[s.Rnd.Intn(3)]
	}
	return "honest"
}

// answer computes the reply NOW (the caller holds s.mu).
func (s *Server) answer(p *Pending, cls string) (int, []byte, Served) {
	w := s.W
	size := w.Size()
	sv := Served{G: p.G, Kind: p.Kind, Cls: cls, Idx: -1, Cert: -2}
	if p.Kind == "sth" {
		sv.Size = size
		if cls != "ok" {
			sv.Eff = "fail"
			return 500, []byte("backend unavailable"), sv
		}
		sv.Eff = "ok"
		sth, err := w.MakeSTH(STH{size, "log"})
		if err != nil {
			panic(err)
		}
		ds := ref.DigitallySigned(byte(sth.TreeHeadSignature.Algorithm.Hash), byte(sth.TreeHeadSignature.Algorithm.Signature), sth.TreeHeadSignature.Signature)
		body, _ := json.Marshal(map[string]any{"tree_size": sth.TreeSize, "timestamp": sth.Timestamp,
			"sha256_root_hash": base64.StdEncoding.EncodeToString(sth.SHA256RootHash[:]), "tree_head_signature": base64.StdEncoding.EncodeToString(ds)})
		return 200, body, sv
	}
	sv.Size = int(p.Size)
	for c := range w.Certs {
		if bytes.Equal(p.Hash, w.Certs[c].LeafHash) {
			sv.Cert = c
		} else if bytes.Equal(p.Hash, w.Certs[c].OtherH) {
			sv.Cert = -1
		}
	}
	n := int(p.Size)
	if p.Size < 1 || p.Size > uint64(size) {
		sv.Eff = "absent"
		return 400, []byte("tree_size out of range"), sv
	}
	at := -1
	for i := 0; i < n; i++ {
		if bytes.Equal(w.Tree.Hashes[i], p.Hash) {
			at = i
		}
	}
	if at < 0 {
		sv.Eff = "absent"
		return 404, []byte("leaf hash not found"), sv
	}
	sv.Eff, sv.Idx = cls, at
	path := w.Tree.Inclusion(at, n)
	idx := at
	switch cls {
	case "fail":
		return 500, []byte("backend unavailable"), sv
	case "badpath":
		// the path of another tree: every hash of the honest path replaced (one junk hash where it is empty)
		bad := [][]byte{}
		for _, h := range path {
			x := sha256.Sum256(append([]byte("not the sibling"), h...))
			bad = append(bad, x[:])
		}
		if len(bad) == 0 {
			x := sha256.Sum256([]byte("no sibling here"))
			bad = append(bad, x[:])
		}
		path = bad
	case "badindex":
		idx = at + 1
	}
	ap := []string{}
	for _, h := range path {
		ap = append(ap, base64.StdEncoding.EncodeToString(h))
	}
	body, _ := json.Marshal(map[string]any{"leaf_index": idx, "audit_path": ap})
	return 200, body, sv
}

func tlsAlg(h, s byte) tls.SignatureAndHashAlgorithm {
	return tls.SignatureAndHashAlgorithm{Hash: tls.HashAlgorithm(h), Signature: tls.SignatureAlgorithm(s)}
}
