//go:build go1.25

package c17

// The world around a real submission.Proxy for the life-cycle checks (spec/submit/ProxyLifecycle.tla):
//   - the catalogue of log-list versions, certificates and log root sets exported by MCProxyLifecycleSim.tla, turned into
//     real loglist3 JSON documents (real P-256 log keys, URLs, operators, states, temporal intervals), real certificate
//     chains and fake log clients;
//   - the four places where the proxy leaves the process, each with a gate and with trace events:
//     an http.RoundTripper serving the list, a DistributorBuilder wrapper around the real builder, and
//     client.AddLogClient fakes (get-roots per distributor generation, add-chain per submission).

import (
	"bytes"
	"context"
	"crypto/sha256"
	"crypto/x509"
	"encoding/json"
	"errors"
	"flag"
	"fmt"
	"io"
	"net/http"
	"os"
	"sort"
	"sync"
	"time"

	ct "github.com/google/certificate-transparency-go"
	"github.com/google/certificate-transparency-go/client"
	"github.com/google/certificate-transparency-go/loglist3"
	"github.com/google/certificate-transparency-go/submission"
	"k8s.io/klog/v2"

	"verifharness/pki"
	"verifharness/vh"
)

func init() {
	// the proxy logs every refused list (with the whole JSON document) and every failed refresh
	fs := flag.NewFlagSet("klog", flag.ContinueOnError)
	klog.InitFlags(fs)
	_ = fs.Set("logtostderr", "false")
	_ = fs.Set("alsologtostderr", "false")
	_ = fs.Set("stderrthreshold", "FATAL")
	klog.SetOutput(io.Discard)
}

// Catalogue is the CAT record of MCProxyLifecycleSim.tla.
type Catalogue struct {
	Versions map[string]struct {
		Kind   string              `json:"kind"`
		State  map[string]string   `json:"state"`
		Window map[string][]string `json:"window"`
	} `json:"versions"`
	Accepts   map[string][]string `json:"accepts"`
	RootOf    map[string]string   `json:"rootOf"`
	RootEvery int                 `json:"rootEvery"`
}

// certOrder: NotAfter of the certificates of the catalogue, ascending.  "late" sits exactly on the boundary between
// the {early} and {late} intervals and "alien" exactly on the end of the {late} interval, so that StartInclusive and
// EndExclusive are both exercised.
var certOrder = []string{"early", "late", "alien"}
var certNotAfter = map[string]time.Time{
	"early": time.Date(2031, 1, 1, 0, 0, 0, 0, time.UTC),
	"late":  time.Date(2032, 1, 1, 0, 0, 0, 0, time.UTC),
	"alien": time.Date(2032, 5, 1, 0, 0, 0, 0, time.UTC),
}

const brokenURL = "https://broken.ct.example/"

func logURL(name string) string { return "https://" + name + ".ct.example/" }

// Static is everything that is built once per test process.
type Static struct {
	Cat      Catalogue
	JSON     map[string][]byte // version -> document served
	Names    map[string]string // URL -> log name
	Keys     map[string][]byte // log name -> SPKI DER
	Roots    map[string]*pki.Node
	Chains   map[string][][]byte // certificate name (+"/pre") -> DER chain
	LogNames []string
}

func loadCatalogue(path string) (Catalogue, error) {
	var c Catalogue
	b, err := os.ReadFile(path)
	if err != nil {
		return c, err
	}
	return c, json.Unmarshal(b, &c)
}

// interval turns the set of certificates a log takes (a contiguous run of certOrder) into a temporal interval.
func interval(window []string, wide bool) (*loglist3.TemporalInterval, error) {
	in := map[string]bool{}
	for _, c := range window {
		in[c] = true
	}
	lo, hi := -1, -1
	for i, c := range certOrder {
		if in[c] {
			if lo < 0 {
				lo = i
			}
			if hi >= 0 && hi != i-1 {
				return nil, fmt.Errorf("window %v is not contiguous", window)
			}
			hi = i
		}
	}
	if lo < 0 {
		return nil, fmt.Errorf("empty window")
	}
	if lo == 0 && hi == len(certOrder)-1 {
		if wide {
			return &loglist3.TemporalInterval{StartInclusive: time.Date(2030, 1, 1, 0, 0, 0, 0, time.UTC), EndExclusive: time.Date(2040, 1, 1, 0, 0, 0, 0, time.UTC)}, nil
		}
		return nil, nil
	}
	ti := &loglist3.TemporalInterval{StartInclusive: certNotAfter[certOrder[lo]], EndExclusive: time.Date(2040, 1, 1, 0, 0, 0, 0, time.UTC)}
	if lo == 0 {
		ti.StartInclusive = time.Date(2030, 1, 1, 0, 0, 0, 0, time.UTC)
	}
	if hi < len(certOrder)-1 {
		ti.EndExclusive = certNotAfter[certOrder[hi+1]]
	}
	return ti, nil
}

func logStates(s string) *loglist3.LogStates {
	st := &loglist3.LogState{Timestamp: time.Date(2024, 3, 1, 0, 0, 0, 0, time.UTC)}
	switch s {
	case "usable":
		return &loglist3.LogStates{Usable: st}
	case "pending":
		return &loglist3.LogStates{Pending: st}
	case "qualified":
		return &loglist3.LogStates{Qualified: st}
	case "retired":
		return &loglist3.LogStates{Retired: st}
	case "readonly":
		return &loglist3.LogStates{ReadOnly: &loglist3.ReadOnlyLogState{LogState: *st, FinalTreeHead: loglist3.TreeHead{SHA256RootHash: make([]byte, 32), TreeSize: 7}}}
	}
	return &loglist3.LogStates{Rejected: st}
}

func buildStatic(cat Catalogue) (*Static, error) {
	st := &Static{Cat: cat, JSON: map[string][]byte{}, Names: map[string]string{}, Keys: map[string][]byte{}, Roots: map[string]*pki.Node{}, Chains: map[string][][]byte{}}
	for name := range cat.Accepts {
		st.LogNames = append(st.LogNames, name)
	}
	sort.Strings(st.LogNames)
	for _, name := range append(append([]string{}, st.LogNames...), "broken") {
		der, err := x509.MarshalPKIXPublicKey(pki.NewKey("p256").Public())
		if err != nil {
			return nil, err
		}
		st.Keys[name] = der
		st.Names[logURL(name)] = name
	}
	operators := []struct {
		name  string
		email []string
		logs  []string
	}{
		{"Google", []string{"google-ct-logs@googlegroups.com"}, nil},
		{"Nimbus Operations", []string{"ct@nimbus.example"}, nil},
		{"Xenon Trust", []string{"ct-ops@xenon.example", "abuse@xenon.example"}, nil},
		{"Pilot Labs", []string{"logs@pilot.example"}, nil},
	}
	for _, name := range st.LogNames {
		k := map[byte]int{'g': 0, 'n': 1, 'x': 2, 'p': 3}[name[0]]
		operators[k].logs = append(operators[k].logs, name)
	}
	var vnames []string
	for v := range cat.Versions {
		vnames = append(vnames, v)
	}
	sort.Strings(vnames)
	for vi, v := range vnames {
		ver := cat.Versions[v]
		ll := &loglist3.LogList{Version: v, LogListTimestamp: time.Date(2025, 6, 1+vi, 12, 0, 0, 0, time.UTC)}
		mk := func(name, state string, window []string) (*loglist3.Log, error) {
			ti, err := interval(window, name[len(name)-1] == '2')
			if err != nil {
				return nil, fmt.Errorf("version %s log %s: %v", v, name, err)
			}
			id := sha256.Sum256(st.Keys[name])
			return &loglist3.Log{Description: "verif log " + name, LogID: id[:], Key: st.Keys[name], URL: logURL(name), MMD: 86400,
				State: logStates(state), TemporalInterval: ti}, nil
		}
		for _, op := range operators {
			o := &loglist3.Operator{Name: op.name, Email: op.email, Logs: []*loglist3.Log{}, TiledLogs: []*loglist3.TiledLog{}}
			for _, name := range op.logs {
				if ver.State[name] == "absent" {
					continue
				}
				l, err := mk(name, ver.State[name], ver.Window[name])
				if err != nil {
					return nil, err
				}
				o.Logs = append(o.Logs, l)
			}
			if len(o.Logs) > 0 {
				ll.Operators = append(ll.Operators, o)
			}
		}
		if ver.Kind == "nobuild" {
			// a usable log for which no client can be built: the real NewDistributor fails
			l, _ := mk("broken", "usable", certOrder)
			l.URL = brokenURL
			ll.Operators = append(ll.Operators, &loglist3.Operator{Name: "Broken Works", Email: []string{"nobody@broken.example"}, Logs: []*loglist3.Log{l}, TiledLogs: []*loglist3.TiledLog{}})
		}
		doc, err := json.MarshalIndent(ll, "", " ")
		if err != nil {
			return nil, err
		}
		if ver.Kind == "unparsable" {
			doc = doc[:len(doc)*2/3] // a download cut short
		}
		st.JSON[v] = doc
	}
	// certificates: one root per root name, an intermediate, and per certificate a leaf and a precertificate
	inter := map[string]*pki.Node{}
	for _, r := range cat.RootOf {
		if st.Roots[r] == nil {
			st.Roots[r] = pki.NewRoot(pki.Opts{CN: "verif root " + r})
			inter[r] = st.Roots[r].Issue(pki.Opts{CN: "verif intermediate " + r, IsCA: true})
		}
	}
	for _, accepted := range cat.Accepts {
		for _, r := range accepted {
			if st.Roots[r] == nil {
				st.Roots[r] = pki.NewRoot(pki.Opts{CN: "verif root " + r})
				inter[r] = st.Roots[r].Issue(pki.Opts{CN: "verif intermediate " + r, IsCA: true})
			}
		}
	}
	for c, r := range cat.RootOf {
		na, ok := certNotAfter[c]
		if !ok {
			return nil, fmt.Errorf("certificate %q of the catalogue has no NotAfter in the harness", c)
		}
		nb := na.Add(-90 * 24 * time.Hour)
		leaf := inter[r].Issue(pki.Opts{CN: c + ".c17.example", DNS: []string{c + ".c17.example"}, NotBefore: nb, NotAfter: na})
		st.Chains[c] = pki.DERs(leaf.Chain(true))
		pre := inter[r].Issue(pki.Opts{CN: c + ".c17.example", DNS: []string{c + ".c17.example"}, NotBefore: nb, NotAfter: na, Poison: "ok"})
		st.Chains[c+"/pre"] = pki.DERs(pre.Chain(true))
	}
	return st, nil
}

// eligible is the harness's own reading of the last sentence of C17 for one log of one list version.
func (st *Static) eligible(version, log, cert string, rootsKnown bool) bool {
	ver := st.Cat.Versions[version]
	if ver.State[log] != "usable" {
		return false
	}
	in := false
	for _, c := range ver.Window[log] {
		in = in || c == cert
	}
	if !in {
		return false
	}
	if rootsKnown {
		ok := false
		for _, r := range st.Cat.Accepts[log] {
			ok = ok || r == st.Cat.RootOf[cert]
		}
		return ok
	}
	return true
}

// gate holds callers until it is released.
type gate struct {
	mu      sync.Mutex
	open    bool
	waiters []chan struct{}
}

func (g *gate) wait(ctx context.Context) error {
	g.mu.Lock()
	if g.open {
		g.mu.Unlock()
		return ctxErr(ctx)
	}
	ch := make(chan struct{})
	g.waiters = append(g.waiters, ch)
	g.mu.Unlock()
	if ctx == nil {
		<-ch
		return nil
	}
	select {
	case <-ch:
	case <-ctx.Done():
	}
	return ctxErr(ctx)
}

func ctxErr(ctx context.Context) error {
	if ctx == nil {
		return nil
	}
	return ctx.Err()
}

// release lets n waiting callers through (all of them for n < 0); reports how many went.
func (g *gate) release(n int) int {
	g.mu.Lock()
	defer g.mu.Unlock()
	k := 0
	for len(g.waiters) > 0 && (n < 0 || k < n) {
		close(g.waiters[0])
		g.waiters = g.waiters[1:]
		k++
	}
	return k
}

func (g *gate) openForGood() {
	g.mu.Lock()
	g.open = true
	g.mu.Unlock()
	g.release(-1)
}

type subKeyT struct{}

var subKey subKeyT

// Contact is one add-chain / add-pre-chain call seen by a fake log client.
type Contact struct {
	Sub  string
	Gen  int
	Log  string
	Pre  bool
	Seq  int
	Dead bool
}

// World is the environment of one proxy run.
type World struct {
	st  *Static
	rec *vh.Recorder // nil: no trace
	mu  sync.Mutex   // guards everything below and orders the trace events
	seq int

	source   string
	failNext bool
	reads    int
	inRead   int // list reads in flight (Refresh holds updateMu across the read)

	builds    int            // builder calls so far
	buildVer  map[int]string // generation -> version
	buildOK   map[int]bool
	buildSeq  map[int]int // generation -> seq of BuildEnd
	startSeq  map[int]int // generation -> seq of BuildStart
	curGen    int
	realBuild submission.DistributorBuilder

	rootRound   map[int]*round
	rootsOK     map[int]*bool // generation -> outcome of the last finished round
	rootCalls   map[int]int   // generation -> rounds begun
	deadRounds  map[int]int
	contacts    []Contact
	latency     func(kind string) time.Duration // nil: answer at once
	readGate    gate
	buildGate   gate
	rootGate    map[int]*gate
	logGate     map[string]*gate
	gateRoots   bool
	gateLogs    bool
	genClients  map[int]int
	initialised bool
}

type round struct {
	entered, returned, failed int
	dead                      bool
}

func newWorld(st *Static, rec *vh.Recorder, source string) *World {
	return &World{st: st, rec: rec, source: source, buildVer: map[int]string{}, buildOK: map[int]bool{}, buildSeq: map[int]int{}, startSeq: map[int]int{},
		rootRound: map[int]*round{}, rootsOK: map[int]*bool{}, rootCalls: map[int]int{}, deadRounds: map[int]int{},
		rootGate: map[int]*gate{}, logGate: map[string]*gate{}, genClients: map[int]int{}}
}

// emit records one event; the caller holds w.mu.
func (w *World) emit(ev map[string]any) int {
	w.seq++
	if w.rec != nil {
		w.rec.Emit(ev)
	}
	return w.seq
}

func (w *World) Emit(ev map[string]any) {
	w.mu.Lock()
	defer w.mu.Unlock()
	w.emit(ev)
}

func (w *World) Publish(v string) {
	w.mu.Lock()
	defer w.mu.Unlock()
	w.source = v
	w.emit(map[string]any{"ev": "Publish", "v": v})
}

func (w *World) FailNext() {
	w.mu.Lock()
	defer w.mu.Unlock()
	w.failNext = true
	w.emit(map[string]any{"ev": "FailNext"})
}

// RoundTrip serves the log list: the in-process stand-in for the HTTP fetch of logListRefresherImpl.Refresh.
func (w *World) RoundTrip(req *http.Request) (*http.Response, error) {
	w.mu.Lock()
	w.inRead++
	w.emit(map[string]any{"ev": "ReadStart"})
	w.mu.Unlock()
	_ = w.readGate.wait(nil)
	if d := w.delay("read"); d > 0 {
		time.Sleep(d)
	}
	w.mu.Lock()
	defer w.mu.Unlock()
	w.reads++
	w.inRead--
	if w.failNext {
		w.failNext = false
		w.emit(map[string]any{"ev": "Read", "res": "err"})
		return nil, errors.New("connection reset by peer (injected)")
	}
	w.emit(map[string]any{"ev": "Read", "res": w.source})
	body := w.st.JSON[w.source]
	return &http.Response{StatusCode: 200, Status: "200 OK", Proto: "HTTP/1.1", ProtoMajor: 1, ProtoMinor: 1, Header: http.Header{"Content-Type": []string{"application/json"}},
		Body: io.NopCloser(bytes.NewReader(body)), ContentLength: int64(len(body)), Request: req}, nil
}

func (w *World) delay(kind string) time.Duration {
	if w.latency == nil {
		return 0
	}
	return w.latency(kind)
}

// Builder wraps the real DistributorBuilder: records the call, holds it at the gate, runs the real NewDistributor.
func (w *World) Builder(ll *loglist3.LogList) (*submission.Distributor, error) {
	w.mu.Lock()
	w.builds++
	n := w.builds
	w.buildVer[n] = ll.Version
	w.startSeq[n] = w.emit(map[string]any{"ev": "BuildStart", "n": n, "v": ll.Version})
	w.mu.Unlock()
	_ = w.buildGate.wait(nil)
	if d := w.delay("build"); d > 0 {
		time.Sleep(d)
	}
	w.mu.Lock()
	w.curGen = n
	w.mu.Unlock()
	d, err := w.realBuild(ll)
	w.mu.Lock()
	w.buildOK[n] = err == nil
	w.buildSeq[n] = w.emit(map[string]any{"ev": "BuildEnd", "n": n, "ok": err == nil})
	w.mu.Unlock()
	return d, err
}

// LogClient is the LogClientBuilder: one fake client per (generation, log).
func (w *World) LogClient(l *loglist3.Log) (client.AddLogClient, error) {
	if l.URL == brokenURL {
		return nil, errors.New("no client can be built for this log (injected)")
	}
	name, ok := w.st.Names[l.URL]
	if !ok {
		return nil, fmt.Errorf("unknown log URL %q", l.URL)
	}
	w.mu.Lock()
	defer w.mu.Unlock()
	g := w.curGen
	w.genClients[g]++
	if w.rootGate[g] == nil {
		w.rootGate[g] = &gate{open: !w.gateRoots}
	}
	return &proxyLog{w: w, gen: g, name: name, key: l.Key}, nil
}

type proxyLog struct {
	w    *World
	gen  int
	name string
	key  []byte
}

func (p *proxyLog) add(ctx context.Context, pre bool) (*ct.SignedCertificateTimestamp, error) {
	w := p.w
	sub, _ := ctx.Value(subKey).(string)
	w.mu.Lock()
	seq := w.emit(map[string]any{"ev": "Contact", "s": sub, "g": p.gen, "log": p.name})
	w.contacts = append(w.contacts, Contact{Sub: sub, Gen: p.gen, Log: p.name, Pre: pre, Seq: seq})
	g := w.logGate[sub]
	if g == nil {
		g = &gate{open: !w.gateLogs}
		w.logGate[sub] = g
	}
	w.mu.Unlock()
	if err := g.wait(ctx); err != nil {
		return nil, err
	}
	if d := w.delay("add"); d > 0 {
		t := time.NewTimer(d)
		defer t.Stop()
		select {
		case <-t.C:
		case <-ctx.Done():
			return nil, ctx.Err()
		}
	}
	id := sha256.Sum256(p.key)
	return &ct.SignedCertificateTimestamp{SCTVersion: ct.V1, LogID: ct.LogID{KeyID: id}, Timestamp: 1}, nil
}

func (p *proxyLog) AddChain(ctx context.Context, _ []ct.ASN1Cert) (*ct.SignedCertificateTimestamp, error) {
	return p.add(ctx, false)
}
func (p *proxyLog) AddPreChain(ctx context.Context, _ []ct.ASN1Cert) (*ct.SignedCertificateTimestamp, error) {
	return p.add(ctx, true)
}

// GetAcceptedRoots: RefreshRoots asks every client of the distributor at once and waits for all of them, so the calls of
// one generation come in rounds; the first call of a round is RootsStart, the last return RootsEnd.
func (p *proxyLog) GetAcceptedRoots(ctx context.Context) ([]ct.ASN1Cert, error) {
	w := p.w
	w.mu.Lock()
	r := w.rootRound[p.gen]
	if r == nil {
		r = &round{dead: ctx.Err() != nil}
		w.rootRound[p.gen] = r
		w.rootCalls[p.gen]++
		if r.dead {
			w.deadRounds[p.gen]++
		}
		w.emit(map[string]any{"ev": "RootsStart", "g": p.gen, "dead": r.dead})
	}
	r.entered++
	g := w.rootGate[p.gen]
	w.mu.Unlock()
	err := g.wait(ctx)
	if err == nil {
		if d := w.delay("roots"); d > 0 {
			t := time.NewTimer(d)
			select {
			case <-t.C:
			case <-ctx.Done():
				err = ctx.Err()
			}
			t.Stop()
		}
	}
	w.mu.Lock()
	r.returned++
	if err != nil {
		r.failed++
	}
	if r.returned == w.genClients[p.gen] {
		ok := r.failed == 0
		w.rootsOK[p.gen] = &ok
		delete(w.rootRound, p.gen)
		w.emit(map[string]any{"ev": "RootsEnd", "g": p.gen, "ok": ok})
	}
	w.mu.Unlock()
	if err != nil {
		return nil, err
	}
	var out []ct.ASN1Cert
	for _, rn := range w.st.Cat.Accepts[p.name] {
		out = append(out, ct.ASN1Cert{Data: w.st.Roots[rn].DER})
	}
	return out, nil
}

var _ client.AddLogClient = (*proxyLog)(nil)
