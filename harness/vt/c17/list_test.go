//go:build go1.25

package c17

import (
	"context"
	"crypto/sha256"
	"errors"
	"fmt"
	"os"
	"sort"
	"strings"
	"sync"
	"testing"
	"testing/synctest"
	"time"

	ct "github.com/google/certificate-transparency-go"
	"github.com/google/certificate-transparency-go/client"
	"github.com/google/certificate-transparency-go/ctpolicy"
	"github.com/google/certificate-transparency-go/loglist3"
	"github.com/google/certificate-transparency-go/submission"

	"verifharness/pki"
	"verifharness/vh"
)

// ListCase mirrors a case of DistributorList.tla: a whole log list behind one distributor.
type ListCase struct {
	C struct {
		T           string `json:"t"`
		Fam         string `json:"fam"`
		Policy      string `json:"policy"`
		NoRootCheck bool   `json:"noRootCheck"`
		Pre         bool   `json:"pre"`
		Pending     bool   `json:"pending"`
		SendRoot    bool   `json:"sendRoot"`
		Total       int    `json:"total"`
		Cert        struct {
			NotAfter int    `json:"notAfter"`
			Root     string `json:"root"`
		} `json:"cert"`
		Logs map[string]struct {
			State string `json:"state"`
			Iv    []int  `json:"iv"`
		} `json:"logs"`
		Refreshes []map[string]string `json:"refreshes"`
	} `json:"c"`
	Expect struct {
		Eligible   []string `json:"eligible"`
		Success    bool     `json:"success"`
		MayContact []string `json:"mayContact"`
		Known      []string `json:"known"`
	} `json:"expect"`
}

var listSlots = []string{"G1", "G2", "N1", "N2"}

// listLog is a scripted log: get-roots answers what the current refresh of the history says (or fails), every
// submission is answered with an SCT at once.
type listLog struct {
	slot    string
	url     string
	answers []string // per refresh of the history: "fail", "RA", "RB", "RAB"
	roots   map[string]*pki.Node
	w       *listWorld
}

type listWorld struct {
	mu       sync.Mutex
	refresh  int            // index of the refresh in progress
	adds     map[string]int // slot -> submissions received
	getRoots map[string]int // slot -> get-roots requests received
}

func (l *listLog) add() (*ct.SignedCertificateTimestamp, error) {
	l.w.mu.Lock()
	l.w.adds[l.slot]++
	l.w.mu.Unlock()
	id := sha256.Sum256([]byte(l.url))
	return &ct.SignedCertificateTimestamp{LogID: ct.LogID{KeyID: id}, Timestamp: 1}, nil
}
func (l *listLog) AddChain(ctx context.Context, _ []ct.ASN1Cert) (*ct.SignedCertificateTimestamp, error) {
	return l.add()
}
func (l *listLog) AddPreChain(ctx context.Context, _ []ct.ASN1Cert) (*ct.SignedCertificateTimestamp, error) {
	return l.add()
}
func (l *listLog) GetAcceptedRoots(ctx context.Context) ([]ct.ASN1Cert, error) {
	l.w.mu.Lock()
	l.w.getRoots[l.slot]++
	k := l.w.refresh
	l.w.mu.Unlock()
	a := "fail"
	if k < len(l.answers) {
		a = l.answers[k]
	}
	if a == "fail" {
		return nil, errors.New("get-roots: connection refused")
	}
	var out []ct.ASN1Cert
	for _, n := range []string{"RA", "RB"} {
		if a == n || a == "RAB" {
			out = append(out, ct.ASN1Cert{Data: l.roots[n].DER})
		}
	}
	return out, nil
}

var _ client.AddLogClient = (*listLog)(nil)

func inSet(s string, set []string) bool {
	for _, x := range set {
		if x == s {
			return true
		}
	}
	return false
}

// TestDistributorList replays the cases of DistributorList.tla against a real Distributor (NewDistributor with the
// case's option set, RefreshRoots once per refresh of the history, AddChain / AddPreChain) under virtual time.
func TestDistributorList(t *testing.T) {
	path := os.Getenv("VERIF_LIST_CASES")
	if path == "" {
		t.Skip("VERIF_LIST_CASES not set")
	}
	cases, err := vh.LoadNDJSON[ListCase](path)
	if err != nil {
		t.Fatal(err)
	}
	rep := vh.NewReport("c17-distributor-list", "cases of DistributorList.tla: a log list of four logs (two Google, two of other operators; state x temporal interval x answer to every get-roots of a refresh history of length 0..2) behind a real Distributor built with every constructor-option set (none / DisableRootCompatibilityChecking), Chrome and Apple policy, AddChain / AddPreChain with and without the load on pending logs, chain with and without its root, 2 or 3 SCTs demanded; every log answers a submission at once: only logs the specification calls eligible (usable, NotAfter in the interval, accepted roots - known by the last refresh, never under the option - include the chain's root) may be contacted (pending / qualified ones too when the caller asks for it), each at most once, the SCTs returned come from eligible logs, are distinct and satisfy the policy, and success is reported exactly when the eligible logs satisfy the policy; families R (state x get-roots answer), T (option x state x interval x method), H (two-refresh histories) exhaustive, S sampled cross product; non-trivial = distinct (family, policy, option, method, root-information class, chain-root class, #eligible, interval classes, verdict)")
	roots := map[string]*pki.Node{"RA": pki.NewRoot(pki.Opts{CN: "list RA"}), "RB": pki.NewRoot(pki.Opts{CN: "list RB"})}
	inter := map[string]*pki.Node{}
	for n, r := range roots {
		inter[n] = r.Issue(pki.Opts{CN: "list I-" + n, IsCA: true})
	}
	chainMemo := map[string][][]byte{}
	chainFor := func(root string, total int, pre, sendRoot bool, notAfter int) [][]byte {
		k := fmt.Sprint(root, total, pre, sendRoot, notAfter)
		if c, ok := chainMemo[k]; ok {
			return c
		}
		na := tick(notAfter)
		days := 300 // 9 whole months: 2 SCTs
		if total == 3 {
			days = 600 // 19 whole months: 3 SCTs
		}
		o := pki.Opts{CN: "list leaf", NotBefore: na.Add(-time.Duration(days) * 24 * time.Hour), NotAfter: na, DNS: []string{"c17.list.example"}}
		if pre {
			o.Poison = "ok"
		}
		c := pki.DERs(inter[root].Issue(o).Chain(sendRoot))
		chainMemo[k] = c
		return c
	}
	opOf := map[string]int{"G1": 0, "G2": 0, "N1": 1, "N2": 2}
	for i := range cases {
		lc := &cases[i]
		c := lc.C
		if c.T != "list" {
			continue
		}
		w := &listWorld{adds: map[string]int{}, getRoots: map[string]int{}}
		fakes := map[string]*listLog{}
		slotOf := map[string]string{}
		ops := []*loglist3.Operator{
			{Name: "Google", Email: []string{"google-ct-logs@googlegroups.com"}},
			{Name: "Other A", Email: []string{"a@other.example"}},
			{Name: "Other B", Email: []string{"b@other.example"}},
		}
		for _, s := range listSlots {
			lg := c.Logs[s]
			url := "https://" + strings.ToLower(s) + ".list.example/"
			var ti *loglist3.TemporalInterval
			if len(lg.Iv) == 2 && lg.Iv[0] >= 0 {
				ti = &loglist3.TemporalInterval{StartInclusive: tick(lg.Iv[0]), EndExclusive: tick(lg.Iv[1])}
			}
			id := sha256.Sum256([]byte(url))
			ops[opOf[s]].Logs = append(ops[opOf[s]].Logs, &loglist3.Log{URL: url, LogID: id[:], Key: []byte(url), State: state(lg.State), TemporalInterval: ti})
			f := &listLog{slot: s, url: url, roots: roots, w: w}
			for _, r := range c.Refreshes {
				f.answers = append(f.answers, r[s])
			}
			fakes[url] = f
			slotOf[url] = s
		}
		ll := &loglist3.LogList{Operators: ops}
		var pol ctpolicy.CTPolicy = ctpolicy.ChromeCTPolicy{}
		if c.Policy == "apple" {
			pol = ctpolicy.AppleCTPolicy{}
		}
		var opts []submission.DistributorOption
		if c.NoRootCheck {
			opts = append(opts, submission.DisableRootCompatibilityCheckingDistributorOption{})
		}
		chain := chainFor(c.Cert.Root, c.Total, c.Pre, c.SendRoot, c.Cert.NotAfter)
		var scts []*submission.AssignedSCT
		var aerr error
		panicked := ""
		synctest.Test(t, func(t *testing.T) {
			defer func() {
				if r := recover(); r != nil {
					panicked = fmt.Sprint(r)
				}
			}()
			d, err := submission.NewDistributor(ll, pol, func(l *loglist3.Log) (client.AddLogClient, error) { return fakes[l.URL], nil }, nil, opts...)
			if err != nil {
				t.Fatalf("NewDistributor: %v", err)
			}
			ctx, cancel := context.WithCancel(context.Background())
			for k := range c.Refreshes {
				w.mu.Lock()
				w.refresh = k
				w.mu.Unlock()
				d.RefreshRoots(ctx)
			}
			if c.Pre {
				scts, aerr = d.AddPreChain(ctx, chain, c.Pending)
			} else {
				scts, aerr = d.AddChain(ctx, chain, c.Pending)
			}
			synctest.Wait() // the detached load on pending logs, if any, has run as far as it goes
			cancel()
			synctest.Wait()
		})

		// classes for fingerprints and coverage keys
		clients, known := 0, 0
		chainRootKnown := false // the chain's root is in the root set of some log whose roots are known
		for _, s := range listSlots {
			st := c.Logs[s].State
			if st == "usable" || st == "pending" || st == "qualified" {
				clients++
			}
			if inSet(s, lc.Expect.Known) {
				known++
				a := c.Refreshes[len(c.Refreshes)-1][s]
				if a == c.Cert.Root || a == "RAB" {
					chainRootKnown = true
				}
			}
		}
		rootInfo := "partial"
		switch {
		case c.NoRootCheck:
			rootInfo = "not-collected"
		case len(c.Refreshes) == 0:
			rootInfo = "no-refresh-yet"
		case known == 0:
			rootInfo = "none"
		case known == clients:
			rootInfo = "complete"
		}
		chainRoot := "in-no-known-set"
		if chainRootKnown {
			chainRoot = "in-a-known-set"
		}
		why := func(s string) string { // why slot s is not eligible
			lg := c.Logs[s]
			if lg.State != "usable" {
				return "state-" + lg.State
			}
			if len(lg.Iv) == 2 && lg.Iv[0] >= 0 && !(lg.Iv[0] <= c.Cert.NotAfter && c.Cert.NotAfter < lg.Iv[1]) {
				if c.Cert.NotAfter == lg.Iv[1] {
					return "interval-ends-at-notafter"
				}
				return "interval-excludes-notafter"
			}
			return "known-roots-exclude-chain-root"
		}
		method := "add-chain"
		if c.Pre {
			method = "add-pre-chain"
		}
		ctxs := fmt.Sprintf("%s:%s:root-check-disabled=%v:root-info-%s:chain-root-%s", c.Policy, method, c.NoRootCheck, rootInfo, chainRoot)
		what := func(s string) string {
			return fmt.Sprintf("%s [family %s, %s policy, %s, %d SCTs demanded, option DisableRootCompatibilityChecking=%v, pending load=%v, chain sent with root=%v, %d refresh(es), logs %v, answers %v, eligible %v]",
				s, c.Fam, c.Policy, method, c.Total, c.NoRootCheck, c.Pending, c.SendRoot, len(c.Refreshes), c.Logs, c.Refreshes, lc.Expect.Eligible)
		}
		if panicked != "" {
			rep.Violate("panic:distributor-list:"+ctxs, what("panic: "+panicked), lc)
			rep.Eval("")
			continue
		}
		for _, s := range listSlots {
			if w.adds[s] > 0 && !inSet(s, lc.Expect.MayContact) {
				rep.Violate("list:contacted-ineligible:"+why(s)+":"+ctxs, what(fmt.Sprintf("log %s (%s) was sent the chain", s, why(s))), lc)
			}
			if w.adds[s] > 1 {
				rep.Violate("list:log-contacted-twice:"+ctxs, what(fmt.Sprintf("log %s was sent the chain %d times", s, w.adds[s])), lc)
			}
		}
		seen := map[string]bool{}
		google, other := 0, 0
		for _, a := range scts {
			s := slotOf[a.LogURL]
			if a.SCT == nil {
				continue
			}
			if seen[s] {
				rep.Violate("list:two-scts-of-one-log:"+ctxs, what("two SCTs of log "+s+" returned"), lc)
			}
			seen[s] = true
			if !inSet(s, lc.Expect.Eligible) {
				rep.Violate("list:sct-from-ineligible:"+why(s)+":"+ctxs, what(fmt.Sprintf("an SCT of log %s (%s) was returned", s, why(s))), lc)
			}
			if opOf[s] == 0 {
				google++
			} else {
				other++
			}
		}
		if aerr == nil {
			ok := google+other >= c.Total && (c.Policy != "chrome" || (google >= 1 && other >= 1))
			if !ok {
				rep.Violate("list:success-set-unsatisfying:"+ctxs, what(fmt.Sprintf("success reported with %d Google and %d other SCTs", google, other)), lc)
			}
			if !lc.Expect.Success {
				rep.Violate("list:success-without-enough-eligible-logs:"+ctxs, what("success reported although the eligible logs do not satisfy the policy"), lc)
			}
		} else if lc.Expect.Success {
			rep.Violate("list:eligible-logs-enough-but-failure:"+ctxs, what(fmt.Sprintf("the eligible logs satisfy the policy and all answer, but the call failed: %v", aerr)), lc)
		}
		ivs := []string{}
		for _, s := range listSlots {
			if c.Logs[s].State == "usable" {
				r := "in"
				if w := why(s); strings.HasPrefix(w, "interval") {
					r = "out"
				}
				ivs = append(ivs, r)
			}
		}
		sort.Strings(ivs)
		rep.Eval(fmt.Sprintf("%s:%s:pending=%v:sendroot=%v:total=%d:elig=%d:iv=%s:%v", c.Fam, ctxs, c.Pending, c.SendRoot, c.Total, len(lc.Expect.Eligible), strings.Join(ivs, ""), lc.Expect.Success))
	}
	rep.Replayed = rep.Evaluations
	if len(cases) > 0 {
		rep.Sample(cases[0])
		rep.Sample(cases[len(cases)-1])
	}
	if err := rep.Write(); err != nil {
		t.Fatal(err)
	}
}
