//go:build go1.25

package c17

import (
	"bytes"
	"context"
	"crypto"
	"crypto/sha256"
	"encoding/base64"
	"encoding/json"
	"fmt"
	"io"
	"net/http"
	"os"
	"sort"
	"strings"
	"sync"
	"testing"
	"testing/synctest"
	"time"

	"github.com/google/certificate-transparency-go/ctpolicy"
	"github.com/google/certificate-transparency-go/loglist3"
	"github.com/google/certificate-transparency-go/submission"

	"verifharness/pki"
	"verifharness/ref"
	"verifharness/vh"
)

// wireLog is an in-process RFC 6962 log front end behind the REAL log client (submission.BuildLogClient: client.New with
// the key the log list gives for the log).  It serves get-roots and answers add-chain / add-pre-chain with the reply
// class of the current case (Distributor.tla, WireClasses).  Everything it signs is built with harness/ref and std crypto.
type wireLog struct {
	name   string
	host   string
	listed crypto.Signer // the key the log list advertises
	other  crypto.Signer // another key of the same kind
	keyDER []byte
	keyID  []byte
	othID  []byte
	root   []byte

	mu    sync.Mutex
	class string
	adds  int
	paths map[string]int
}

func newWireLog(name, keyType string, root []byte) *wireLog {
	l := &wireLog{name: name, host: strings.ToLower(name) + ".wire.example", listed: pki.NewKey(keyType), other: pki.NewKey(keyType), root: root}
	var err error
	if l.keyID, l.keyDER, err = ref.KeyID(l.listed.Public()); err != nil {
		panic(err)
	}
	if l.othID, _, err = ref.KeyID(l.other.Public()); err != nil {
		panic(err)
	}
	return l
}

func (l *wireLog) url() string { return "https://" + l.host + "/" }

func (l *wireLog) reset(class string) {
	l.mu.Lock()
	l.class, l.adds, l.paths = class, 0, map[string]int{}
	l.mu.Unlock()
}

func httpReply(req *http.Request, status int, body []byte) *http.Response {
	return &http.Response{StatusCode: status, Status: fmt.Sprintf("%d %s", status, http.StatusText(status)), Proto: "HTTP/1.1", ProtoMajor: 1, ProtoMinor: 1,
		Header: http.Header{"Content-Type": []string{"application/json"}}, Body: io.NopCloser(bytes.NewReader(body)), ContentLength: int64(len(body)), Request: req}
}

// serve answers one request; like a transport it gives up when the request's context ends.
func (l *wireLog) serve(req *http.Request) (*http.Response, error) {
	if err := req.Context().Err(); err != nil {
		return nil, err
	}
	switch {
	case strings.HasSuffix(req.URL.Path, "/ct/v1/get-roots"):
		b, _ := json.Marshal(map[string]any{"certificates": []string{base64.StdEncoding.EncodeToString(l.root)}})
		return httpReply(req, 200, b), nil
	case strings.HasSuffix(req.URL.Path, "/ct/v1/add-chain"), strings.HasSuffix(req.URL.Path, "/ct/v1/add-pre-chain"):
	default:
		return httpReply(req, 404, []byte("not found")), nil
	}
	pre := strings.HasSuffix(req.URL.Path, "/ct/v1/add-pre-chain")
	l.mu.Lock()
	l.adds++
	l.paths[req.URL.Path]++
	class, n := l.class, l.adds
	l.mu.Unlock()
	var body struct {
		Chain [][]byte `json:"chain"`
	}
	raw, _ := io.ReadAll(req.Body)
	if err := json.Unmarshal(raw, &body); err != nil || len(body.Chain) < 2 {
		return httpReply(req, 400, []byte("bad request")), nil
	}
	switch class {
	case "hang":
		<-req.Context().Done()
		return nil, req.Context().Err()
	case "http400", "http403", "http500":
		code := map[string]int{"http400": 400, "http403": 403, "http500": 500}[class]
		return httpReply(req, code, []byte("refused")), nil
	case "busy503":
		return httpReply(req, 503, []byte("busy")), nil
	case "garbage200":
		return httpReply(req, 200, []byte("<html>this is not a log</html>")), nil
	}
	entry, err := ref.EntryForChain(body.Chain, false)
	if err != nil || (entry.Type == ref.PrecertEntry) != pre {
		return httpReply(req, 400, []byte("wrong entry kind for this endpoint")), nil
	}
	ts := uint64(1700000000000 + n)
	signed, signTS, key, id, version := entry, ts, l.listed, l.keyID, 0
	switch class {
	case "otherkey":
		key = l.other
	case "otherkeyid":
		key, id = l.other, l.othID
	case "othertime":
		signTS = ts + 1
	case "othertype":
		if entry.Type == ref.X509Entry {
			h := sha256.Sum256(body.Chain[1])
			signed = ref.Entry{Type: ref.PrecertEntry, IssuerKeyHash: h[:], TBS: entry.Cert}
		} else {
			signed = ref.Entry{Type: ref.X509Entry, Cert: body.Chain[0]}
		}
	case "otherentry":
		if entry.Type == ref.X509Entry {
			signed = ref.Entry{Type: ref.X509Entry, Cert: body.Chain[1]}
		} else {
			h := sha256.Sum256(entry.IssuerKeyHash)
			signed = ref.Entry{Type: ref.PrecertEntry, IssuerKeyHash: h[:], TBS: entry.TBS}
		}
	case "badversion":
		version = 1
	}
	ds, err := ref.Sign(key, ref.SCTSignatureInput(signTS, signed, nil))
	if err != nil {
		return nil, err
	}
	switch class {
	case "badsig":
		ds = append([]byte{}, ds...)
		ds[len(ds)-3] ^= 0x20
	case "trailing":
		ds = append(append([]byte{}, ds...), 0)
	}
	b, _ := json.Marshal(map[string]any{"sct_version": version, "id": id, "timestamp": ts, "extensions": "", "signature": ds})
	return httpReply(req, 200, b), nil
}

// wireNet routes by host name; it stands in for http.DefaultTransport while the test runs.
type wireNet struct{ logs map[string]*wireLog }

func (n *wireNet) RoundTrip(req *http.Request) (*http.Response, error) {
	l := n.logs[req.URL.Host]
	if l == nil {
		return nil, fmt.Errorf("no such host %q", req.URL.Host)
	}
	return l.serve(req)
}

// TestWire replays the wire cases of Distributor.tla: three real log clients (built by submission.BuildLogClient from the
// log list, i.e. verifying with the listed key) behind a real Distributor, each log answering add-chain / add-pre-chain
// with one reply class.  Only a reply that is an SCT under the listed key over the submitted entry is an SCT.
func TestWire(t *testing.T) {
	path := os.Getenv("VERIF_CASES")
	if path == "" {
		t.Skip("VERIF_CASES not set")
	}
	all, err := vh.LoadNDJSON[DistCase](path)
	if err != nil {
		t.Fatal(err)
	}
	rep := vh.NewReport("c17-wire", "wire cases of Distributor.tla: Distributor.AddChain / AddPreChain (Chrome and Apple policy, 2 or 3 SCTs demanded) under virtual time over three logs served in process behind the REAL log clients of submission.BuildLogClient (public key from the log list; ECDSA P-256 and RSA-2048 log keys), each log answering with one reply class (good; signed with another key under the listed id / with another log's id; damaged signature; signature over another timestamp / entry type / certificate; trailing byte; other version; HTTP 400/403/500; 503 and non-JSON 200, which the client retries until the caller's deadline; hang): the SCTs returned come only from logs whose reply is an SCT and each verifies (harness/ref, std crypto) under the key listed for its log over the submitted entry; success exactly when those logs satisfy the policy; one add request per log where the client does not retry; non-trivial = distinct (policy, method, total, reply vector)")
	root := pki.NewRoot(pki.Opts{CN: "wire root"})
	inter := root.Issue(pki.Opts{CN: "wire inter", IsCA: true})
	logs := []*wireLog{newWireLog("W1", "p256", root.DER), newWireLog("W2", "rsa2048", root.DER), newWireLog("W3", "p256", root.DER)}
	net := &wireNet{logs: map[string]*wireLog{}}
	byName := map[string]*wireLog{}
	byURL := map[string]*wireLog{}
	for _, l := range logs {
		net.logs[l.host], byName[l.name], byURL[l.url()] = l, l, l
	}
	saved := http.DefaultTransport
	http.DefaultTransport = net
	defer func() { http.DefaultTransport = saved }()
	mk := func(l *wireLog) *loglist3.Log {
		return &loglist3.Log{Description: l.name, URL: l.url(), LogID: l.keyID, Key: l.keyDER, MMD: 86400, State: state("usable")}
	}
	ll := &loglist3.LogList{Operators: []*loglist3.Operator{
		{Name: "Google", Email: []string{"google-ct-logs@googlegroups.com"}, Logs: []*loglist3.Log{mk(logs[0])}},
		{Name: "Other A", Email: []string{"a@wire.example"}, Logs: []*loglist3.Log{mk(logs[1])}},
		{Name: "Other B", Email: []string{"b@wire.example"}, Logs: []*loglist3.Log{mk(logs[2])}}}}
	// chains: lifetime below 15 months (2 SCTs) and 20 months (3 SCTs), certificate and precertificate
	nb := time.Date(2031, 3, 10, 0, 0, 0, 0, time.UTC)
	chains := map[string][][]byte{}
	for _, total := range []int{2, 3} {
		for _, pre := range []bool{false, true} {
			na := nb.AddDate(0, map[int]int{2: 10, 3: 20}[total], 0)
			o := pki.Opts{CN: "wire leaf", NotBefore: nb, NotAfter: na, DNS: []string{"c17.wire.example"}}
			if pre {
				o.Poison = "ok"
			}
			chains[fmt.Sprint(total, pre)] = pki.DERs(inter.Issue(o).Chain(true))
		}
	}
	const deadline = 40 * time.Second
	n := 0
	for i := range all {
		dc := &all[i]
		c := dc.C
		if c.T != "wire" {
			continue
		}
		n++
		for name, l := range byName {
			l.reset(c.Reply[name])
		}
		chain := chains[fmt.Sprint(c.Total, c.Pre)]
		entry, err := ref.EntryForChain(chain, false)
		if err != nil {
			t.Fatal(err)
		}
		var policy ctpolicy.CTPolicy = ctpolicy.ChromeCTPolicy{}
		if c.Policy == "apple" {
			policy = ctpolicy.AppleCTPolicy{}
		}
		var scts []*submission.AssignedSCT
		var aerr error
		var took time.Duration
		var setup string
		func() {
			defer func() {
				if x := recover(); x != nil {
					setup = fmt.Sprintf("panic: %v", x)
				}
			}()
			synctest.Test(t, func(t *testing.T) {
				d, err := submission.NewDistributor(ll, policy, submission.BuildLogClient, nil)
				if err != nil {
					setup = "NewDistributor: " + err.Error()
					return
				}
				ctx, cancel := context.WithTimeout(context.Background(), deadline)
				defer cancel()
				if errs := d.RefreshRoots(ctx); len(errs) != 0 {
					setup = fmt.Sprintf("RefreshRoots: %v", errs)
					return
				}
				start := time.Now()
				if c.Pre {
					scts, aerr = d.AddPreChain(ctx, chain, false)
				} else {
					scts, aerr = d.AddChain(ctx, chain, false)
				}
				took = time.Since(start)
				cancel()
				synctest.Wait()
			})
		}()
		method := "add-chain"
		if c.Pre {
			method = "add-pre-chain"
		}
		var vec []string
		for _, l := range logs {
			vec = append(vec, c.Reply[l.name])
		}
		desc := fmt.Sprintf("%s policy, %s, %d SCTs demanded, replies W1(Google)=%s W2=%s W3=%s", c.Policy, method, c.Total, vec[0], vec[1], vec[2])
		fp := func(s string) string { return "wire:" + c.Policy + ":" + method + ":" + s }
		if setup != "" {
			if strings.HasPrefix(setup, "panic") {
				rep.Violate("panic:wire:"+method, desc+": "+setup, dc)
			} else {
				t.Fatalf("%s: %s", desc, setup)
			}
			continue
		}
		cancelled := took >= deadline
		may := map[string]bool{}
		for _, name := range dc.Expect.SCTs {
			may[name] = true
		}
		got := map[string]bool{}
		clean := true
		for _, s := range scts {
			l := byURL[s.LogURL]
			if l == nil || s.SCT == nil {
				rep.Violate(fp("sct-of-unknown-log"), desc+": an SCT attributed to "+s.LogURL, dc)
				continue
			}
			if got[l.name] {
				rep.Violate(fp("duplicate-log"), desc+": two SCTs from "+l.name, dc)
			}
			got[l.name] = true
			// the independent judgement of this SCT: the listed key's id, and a signature of the listed key over the entry
			input := ref.SCTSignatureInput(s.SCT.Timestamp, entry, []byte(s.SCT.Extensions))
			ds := ref.DigitallySigned(byte(s.SCT.Signature.Algorithm.Hash), byte(s.SCT.Signature.Algorithm.Signature), s.SCT.Signature.Signature)
			verr := ref.Verify(l.listed.Public(), input, ds)
			if verr == nil && !bytes.Equal(s.SCT.LogID.KeyID[:], l.keyID) {
				verr = fmt.Errorf("log id %x is not the hash of the listed key", s.SCT.LogID.KeyID[:4])
			}
			if verr == nil && s.SCT.SCTVersion != 0 {
				verr = fmt.Errorf("version %d", s.SCT.SCTVersion)
			}
			if !may[l.name] || verr != nil {
				clean = false
				// the class of the reply names the defect; policy and method do not matter to it
				rep.Violate("wire:unusable-sct-returned:"+c.Reply[l.name],
					fmt.Sprintf("%s: the set returned (err=%v) holds an SCT of %s, whose reply (%s) is not an SCT under the key the log list gives for it (independent check: %v); an outcome with an error is an error outcome, it is neither counted nor handed out", desc, aerr, l.name, c.Reply[l.name], verr), dc)
			}
		}
		if clean {
			sat := satisfiesWire(c.Policy, c.Total, got)
			switch {
			case aerr == nil && !sat:
				rep.Violate(fp("success-unsound"), fmt.Sprintf("%s: success reported with SCTs of %v, which does not satisfy the policy", desc, keys(got)), dc)
			case aerr != nil && !cancelled && sat:
				rep.Violate(fp("failure-dishonest"), fmt.Sprintf("%s: %q reported although the SCT set returned (%v) satisfies the policy", desc, aerr, keys(got)), dc)
			case dc.Expect.Success && aerr != nil && !cancelled:
				rep.Violate(fp("success-incomplete"), fmt.Sprintf("%s: the logs %v answer with a valid SCT and satisfy the policy, the caller's deadline did not strike, but %q was reported with %v", desc, dc.Expect.SCTs, aerr, keys(got)), dc)
			case !dc.Expect.Success && aerr == nil:
				rep.Violate(fp("success-unsound"), fmt.Sprintf("%s: the logs with a valid SCT (%v) do not satisfy the policy, but success was reported with %v", desc, dc.Expect.SCTs, keys(got)), dc)
			}
			if !dc.Expect.Waits && cancelled {
				rep.Violate(fp("no-verdict-before-deadline"), fmt.Sprintf("%s: every log answers at once or is not needed, but the call ran into the caller's deadline (%v)", desc, took), dc)
			}
		}
		for _, l := range logs {
			l.mu.Lock()
			adds, paths, class := l.adds, l.paths, l.class
			l.mu.Unlock()
			retried := class == "busy503" || class == "garbage200" || class == "hang"
			if adds > 1 && !retried {
				rep.Violate(fp("submitted-twice"), fmt.Sprintf("%s: %s received %d add requests", desc, l.name, adds), dc)
			}
			for p := range paths {
				if strings.HasSuffix(p, "add-pre-chain") != c.Pre {
					rep.Violate(fp("wrong-endpoint"), fmt.Sprintf("%s: %s was asked at %s", desc, l.name, p), dc)
				}
			}
		}
		rep.Eval(fmt.Sprintf("%s/%s/%d/%s/%v", c.Policy, method, c.Total, strings.Join(vec, ","), aerr == nil))
	}
	if n == 0 {
		t.Fatal("no wire cases")
	}
	rep.Replayed = n
	for i := range all {
		if all[i].C.T == "wire" && all[i].C.Reply["W2"] == "otherkey" {
			rep.Sample(all[i])
			break
		}
	}
	if err := rep.Write(); err != nil {
		t.Fatal(err)
	}
}

func satisfiesWire(policy string, total int, got map[string]bool) bool {
	n := len(keys(got))
	if n < total {
		return false
	}
	if policy == "chrome" {
		others := 0
		for _, k := range keys(got) {
			if k != "W1" {
				others++
			}
		}
		return got["W1"] && others > 0
	}
	return true
}

var _ = sort.Strings
