//go:build go1.25

// Package c17 binds spec/submit/Submission.tla to submission.GetSCTs under
// virtual time (testing/synctest, go1.26) and the race detector.
package c17

import (
	"context"
	"errors"
	"fmt"
	"os"
	"sort"
	"strings"
	"sync"
	"testing"
	"testing/synctest"
	"time"

	ct "github.com/google/certificate-transparency-go"
	"github.com/google/certificate-transparency-go/ctpolicy"
	"github.com/google/certificate-transparency-go/submission"

	"verifharness/vh"
)

// Policy is one of the group layouts of MCSubmission.tla.
type Policy struct {
	Name    string
	Logs    []string
	Members map[string][]string
	Min     map[string]int
}

var policies = map[string]Policy{
	"Chrome2": {"Chrome2", []string{"g1", "n1", "n2"}, map[string][]string{"google": {"g1"}, "nongoogle": {"n1", "n2"}, "All-logs": {"g1", "n1", "n2"}}, map[string]int{"google": 1, "nongoogle": 1, "All-logs": 2}},
	"Chrome3": {"Chrome3", []string{"g1", "g2", "n1", "n2"}, map[string][]string{"google": {"g1", "g2"}, "nongoogle": {"n1", "n2"}, "All-logs": {"g1", "g2", "n1", "n2"}}, map[string]int{"google": 1, "nongoogle": 1, "All-logs": 3}},
	"Apple": {"Apple", []string{"g1", "n1", "n2"}, map[string][]string{"All-logs": {"g1", "n1", "n2"}}, map[string]int{"All-logs": 2}},
}

func (p Policy) groups() ctpolicy.LogPolicyData {
	d := ctpolicy.LogPolicyData{}
	for g, ms := range p.Members {
		gi := &ctpolicy.LogGroupInfo{Name: g, LogURLs: map[string]bool{}, MinInclusions: p.Min[g], IsBase: g == ctpolicy.BaseName, LogWeights: map[string]float32{}}
		for _, m := range ms {
			gi.LogURLs[m] = true
			gi.LogWeights[m] = 1
		}
		d[g] = gi
	}
	return d
}

func (p Policy) satisfies(scts map[string]bool) bool {
	for g, ms := range p.Members {
		n := 0
		for _, m := range ms {
			if scts[m] {
				n++
			}
		}
		if n < p.Min[g] {
			return false
		}
	}
	return true
}

// scripted is a submission.Submitter with per-log outcome and virtual latency.
type scripted struct {
	mu      sync.Mutex
	outcome map[string]string
	latency map[string]time.Duration
	calls   map[string]int
}

func (s *scripted) SubmitToLog(ctx context.Context, logURL string, _ []ct.ASN1Cert, _ bool) (*ct.SignedCertificateTimestamp, error) {
	s.mu.Lock()
	s.calls[logURL]++
	out, lat := s.outcome[logURL], s.latency[logURL]
	s.mu.Unlock()
	if out == "hang" {
		<-ctx.Done()
		return nil, ctx.Err()
	}
	t := time.NewTimer(lat)
	defer t.Stop()
	select {
	case <-ctx.Done():
		return nil, ctx.Err()
	case <-t.C:
	}
	if out == "err" {
		return nil, errors.New("log refused the chain")
	}
	return &ct.SignedCertificateTimestamp{Timestamp: 1, LogID: ct.LogID{}}, nil
}

// Case is one scenario: a policy, what each log answers, how long it takes, when the caller gives up (0 = never).
type Case struct {
	Policy   string                   `json:"policy"`
	Outcome  map[string]string        `json:"outcome"`
	Latency  map[string]time.Duration `json:"latency_ns"`
	Deadline time.Duration            `json:"deadline_ns"`
}

var sinkMu sync.Mutex

// runCase executes GetSCTs in a bubble, records the H4 events and checks the property clauses directly.
func runCase(t *testing.T, c Case, rep *vh.Report, rec map[string]*vh.Recorder) {
	p := policies[c.Policy]
	var events []map[string]any
	var evMu sync.Mutex
	sinkMu.Lock()
	submission.VerifTraceSink = func(ev map[string]any) {
		delete(ev, "sub")
		evMu.Lock()
		events = append(events, ev)
		evMu.Unlock()
	}
	defer func() { submission.VerifTraceSink = nil; sinkMu.Unlock() }()
	sub := &scripted{outcome: c.Outcome, latency: c.Latency, calls: map[string]int{}}
	var scts []*submission.AssignedSCT
	var err error
	var returned, deadlock bool
	var took time.Duration
	func() {
		defer func() {
			if r := recover(); r != nil {
				deadlock = strings.Contains(fmt.Sprint(r), "deadlock")
				if !deadlock {
					panic(r)
				}
			}
		}()
		synctest.Test(t, func(t *testing.T) {
			ctx, cancel := context.WithCancel(context.Background())
			if c.Deadline > 0 {
				var c2 context.CancelFunc
				ctx, c2 = context.WithTimeout(ctx, c.Deadline)
				defer c2()
			}
			start := time.Now()
			scts, err = submission.GetSCTs(ctx, sub, []ct.ASN1Cert{{Data: []byte("chain")}}, false, p.groups())
			took = time.Since(start)
			returned = true
			cancel() // let goroutines that GetSCTs left behind (still waiting for a log) finish
			synctest.Wait()
		})
	}()
	fp := func(s string) string { return "getscts:" + c.Policy + ":" + s }
	if !returned || deadlock {
		rep.Violate(fp("no-termination"), fmt.Sprintf("GetSCTs did not return (deadlock=%v) for %+v", deadlock, c), c)
		return
	}
	got := map[string]bool{}
	for _, s := range scts {
		if got[s.LogURL] {
			rep.Violate(fp("duplicate-log"), "two SCTs from the same log "+s.LogURL, c)
		}
		got[s.LogURL] = true
	}
	for l, n := range sub.calls {
		if n > 1 {
			rep.Violate(fp("submitted-twice"), fmt.Sprintf("log %s was sent the chain %d times", l, n), c)
		}
	}
	cancelled := c.Deadline > 0 && took >= c.Deadline
	answering := map[string]bool{}
	for l, o := range c.Outcome {
		if o == "sct" {
			answering[l] = true
		}
	}
	if err == nil && !p.satisfies(got) {
		rep.Violate(fp("success-unsound"), fmt.Sprintf("GetSCTs reported success with SCTs from %v, which does not satisfy the policy", keys(got)), c)
	}
	if err != nil && !cancelled && p.satisfies(got) {
		rep.Violate(fp("failure-dishonest"), fmt.Sprintf("GetSCTs reported %q although the SCT set it returned (%v) satisfies every group", err, keys(got)), c)
	}
	if err != nil && !cancelled && p.satisfies(answering) && c.Deadline == 0 {
		rep.Violate(fp("success-incomplete"), fmt.Sprintf("logs %v all answer with an SCT and satisfy the policy, the caller never cancels, but GetSCTs reported %q with %v", keys(answering), err, keys(got)), c)
	}
	// hand the events to the trace file of this policy
	r := rec[c.Policy]
	r.Emit(map[string]any{"ev": "Reset"})
	evMu.Lock()
	for _, e := range events {
		r.Emit(e)
	}
	evMu.Unlock()
	r.Emit(map[string]any{"ev": "Return", "err": err != nil, "scts": keys(got), "cancelled": cancelled})
	key := fmt.Sprintf("%s/err=%v/n=%d/cancel=%v/%s", c.Policy, err != nil, len(got), cancelled, outcomeKey(c))
	rep.Eval(key)
}

func keys(m map[string]bool) []string {
	out := []string{}
	for k, v := range m {
		if v {
			out = append(out, k)
		}
	}
	sort.Strings(out)
	return out
}

func outcomeKey(c Case) string {
	var parts []string
	for _, l := range policies[c.Policy].Logs {
		lat := "fast"
		switch {
		case c.Latency[l] >= 5*time.Second:
			lat = "veryslow"
		case c.Latency[l] >= time.Second:
			lat = "slow"
		}
		parts = append(parts, l+"="+c.Outcome[l]+"/"+lat)
	}
	return strings.Join(parts, ",")
}

var latencies = []time.Duration{0, 300 * time.Millisecond, 1500 * time.Millisecond, 2500 * time.Millisecond, 10 * time.Second}

// enumerate: every outcome assignment x every latency assignment (all of them for three logs, seeded sample for four).
func cases(pol string, outcomes []string, rngSalt int64, limit int) []Case {
	p := policies[pol]
	var all []Case
	n := len(p.Logs)
	var rec func(i int, c Case)
	rec = func(i int, c Case) {
		if i == n {
			cc := Case{Policy: pol, Outcome: map[string]string{}, Latency: map[string]time.Duration{}, Deadline: c.Deadline}
			for k, v := range c.Outcome {
				cc.Outcome[k] = v
			}
			for k, v := range c.Latency {
				cc.Latency[k] = v
			}
			all = append(all, cc)
			return
		}
		for _, o := range outcomes {
			for _, lt := range latencies {
				if o == "hang" && lt != 0 {
					continue
				}
				c.Outcome[p.Logs[i]] = o
				c.Latency[p.Logs[i]] = lt
				rec(i+1, c)
			}
		}
	}
	rec(0, Case{Outcome: map[string]string{}, Latency: map[string]time.Duration{}})
	if limit > 0 && len(all) > limit {
		rng := vh.Rand(rngSalt + int64(vh.EnvInt("VERIF_SALT", 0))*101)
		rng.Shuffle(len(all), func(i, j int) { all[i], all[j] = all[j], all[i] })
		all = all[:limit]
	}
	return all
}

// TestGetSCTs runs the scenarios, checks the clauses of C17 on every result and writes one H4 trace file per policy.
func TestGetSCTs(t *testing.T) {
	rep := vh.NewReport("c17-getscts", "submission.GetSCTs under virtual time with a scripted Submitter: every assignment of outcomes (SCT, error, hang) and of latencies (0, 0.3, 1.5, 2.5, 10 s against the 1 s stagger) for the Chrome-like and Apple-like group layouts of MCSubmission.tla, with and without a caller deadline; distinct logs, at most one submission per log, soundness of success, honesty of failure, success when enough logs answer, termination; H4 events recorded for trace validation; non-trivial = distinct (policy, verdict, #SCTs, outcome/latency class vector)")
	rec := map[string]*vh.Recorder{}
	for name := range policies {
		r, err := vh.NewRecorder("traces-" + name + ".ndjson")
		if err != nil {
			t.Fatal(err)
		}
		rec[name] = r
	}
	limit := vh.EnvInt("VERIF_CASES_PER_POLICY", 1500)
	var all []Case
	all = append(all, cases("Chrome2", []string{"sct", "err"}, 1, limit)...)
	all = append(all, cases("Apple", []string{"sct", "err"}, 2, limit)...)
	all = append(all, cases("Chrome3", []string{"sct", "err"}, 3, limit)...)
	for _, pol := range []string{"Chrome2", "Apple", "Chrome3"} { // with hanging logs and a caller deadline
		for _, c := range cases(pol, []string{"sct", "err", "hang"}, 4, limit/3) {
			c.Deadline = []time.Duration{4 * time.Second, 15 * time.Second}[len(all)%2]
			all = append(all, c)
		}
	}
	reps := vh.EnvInt("VERIF_REPEAT", 2) // goroutines released at the same virtual instant run in any order
	for r := 0; r < reps; r++ {
		for _, c := range all {
			runCase(t, c, rep, rec)
		}
	}
	for _, r := range rec {
		if err := r.Close(); err != nil {
			t.Fatal(err)
		}
	}
	rep.Replayed = len(all) * reps
	if len(all) > 0 {
		rep.Sample(all[len(all)/3])
	}
	if err := rep.Write(); err != nil {
		t.Fatal(err)
	}
	_ = os.Getenv
}
