//go:build go1.25

// Package c17 binds spec/submit/Submission.tla to submission.GetSCTs under
// virtual time (testing/synctest, go1.26) and the race detector.
package c17

import (
	"context"
	"crypto/sha256"
	"errors"
	"fmt"
	"os"
	"sort"
	"strings"
	"sync"
	"testing"
	"testing/synctest"
	"time"

	ct "github.com/google/certificate-transparency-go"
	"github.com/google/certificate-transparency-go/ctpolicy"
	"github.com/google/certificate-transparency-go/submission"

	"verifharness/vh"
)

// Policy is one of the group layouts of MCSubmission.tla.
type Policy struct {
	Name    string
	Logs    []string
	Members map[string][]string
	Min     map[string]int
}

var policies = map[string]Policy{
	"Chrome2": {"Chrome2", []string{"g1", "n1", "n2"}, map[string][]string{"google": {"g1"}, "nongoogle": {"n1", "n2"}, "All-logs": {"g1", "n1", "n2"}}, map[string]int{"google": 1, "nongoogle": 1, "All-logs": 2}},
	"Chrome3": {"Chrome3", []string{"g1", "g2", "n1", "n2"}, map[string][]string{"google": {"g1", "g2"}, "nongoogle": {"n1", "n2"}, "All-logs": {"g1", "g2", "n1", "n2"}}, map[string]int{"google": 1, "nongoogle": 1, "All-logs": 3}},
	"Apple": {"Apple", []string{"g1", "n1", "n2"}, map[string][]string{"All-logs": {"g1", "n1", "n2"}}, map[string]int{"All-logs": 2}},
}

func (p Policy) groups() ctpolicy.LogPolicyData {
	d := ctpolicy.LogPolicyData{}
	for g, ms := range p.Members {
		gi := &ctpolicy.LogGroupInfo{Name: g, LogURLs: map[string]bool{}, MinInclusions: p.Min[g], IsBase: g == ctpolicy.BaseName, LogWeights: map[string]float32{}}
		for _, m := range ms {
			gi.LogURLs[m] = true
			gi.LogWeights[m] = 1
		}
		d[g] = gi
	}
	return d
}

func (p Policy) satisfies(scts map[string]bool) bool {
	for g, ms := range p.Members {
		n := 0
		for _, m := range ms {
			if scts[m] {
				n++
			}
		}
		if n < p.Min[g] {
			return false
		}
	}
	return true
}

// scripted is a submission.Submitter with per-log outcome and virtual latency.  The outcomes are those of
// Submission.tla: what SubmitToLog hands back is a pair, and all four shapes of the pair occur -
// "sct" (sct, nil), "err" (nil, err), "both" (sct, err), "neither" (nil, nil) - besides "hang".
type scripted struct {
	mu      sync.Mutex
	outcome map[string]string
	latency map[string]time.Duration
	calls   map[string]int
}

// sctOf is the SCT log l hands out: the log id tells the logs apart.
func sctOf(l string) *ct.SignedCertificateTimestamp {
	return &ct.SignedCertificateTimestamp{Timestamp: 1, LogID: ct.LogID{KeyID: sha256.Sum256([]byte(l))}}
}

// pairShape names an outcome by the pair SubmitToLog returns for it.
func pairShape(o string) string {
	switch o {
	case "sct":
		return "sct+nil"
	case "err":
		return "nil+err"
	case "both":
		return "sct+err"
	case "neither":
		return "nil+nil"
	}
	return o
}

func (s *scripted) SubmitToLog(ctx context.Context, logURL string, _ []ct.ASN1Cert, _ bool) (*ct.SignedCertificateTimestamp, error) {
	s.mu.Lock()
	s.calls[logURL]++
	out, lat := s.outcome[logURL], s.latency[logURL]
	s.mu.Unlock()
	if out == "hang" {
		<-ctx.Done()
		return nil, ctx.Err()
	}
	t := time.NewTimer(lat)
	defer t.Stop()
	select {
	case <-ctx.Done():
		return nil, ctx.Err()
	case <-t.C:
	}
	switch out {
	case "err":
		return nil, errors.New("log refused the chain")
	case "both":
		// what a verifying log client may hand back: the SCT it parsed together with the reason not to use it
		return sctOf(logURL), errors.New("SCT signature does not verify under the log's key")
	case "neither":
		return nil, nil
	}
	return sctOf(logURL), nil
}

// Case is one scenario: a policy, what each log answers, how long it takes, when the caller gives up (0 = never).
type Case struct {
	Policy   string                   `json:"policy"`
	Outcome  map[string]string        `json:"outcome"`
	Latency  map[string]time.Duration `json:"latency_ns"`
	Deadline time.Duration            `json:"deadline_ns"`
}

var sinkMu sync.Mutex

// run is what one call of GetSCTs did.
type run struct {
	scts      []*submission.AssignedSCT
	err       error
	took      time.Duration
	returned  bool
	deadlock  bool
	cancelled bool
	got       map[string]bool
	calls     map[string]int
	events    []map[string]any
	atReturn  int // number of events recorded when GetSCTs returned; later ones come from requests it left in flight
}

// execute calls GetSCTs in a bubble with the scripted submitter and records the H4 events.
func execute(t *testing.T, groups ctpolicy.LogPolicyData, outcome map[string]string, latency map[string]time.Duration, deadline time.Duration) *run {
	r := &run{got: map[string]bool{}}
	var evMu sync.Mutex
	sinkMu.Lock()
	submission.VerifTraceSink = func(ev map[string]any) {
		delete(ev, "sub")
		evMu.Lock()
		r.events = append(r.events, ev)
		evMu.Unlock()
	}
	defer func() { submission.VerifTraceSink = nil; sinkMu.Unlock() }()
	sub := &scripted{outcome: outcome, latency: latency, calls: map[string]int{}}
	func() {
		defer func() {
			if p := recover(); p != nil {
				r.deadlock = strings.Contains(fmt.Sprint(p), "deadlock")
				if !r.deadlock {
					panic(p)
				}
			}
		}()
		synctest.Test(t, func(t *testing.T) {
			ctx, cancel := context.WithCancel(context.Background())
			if deadline > 0 {
				var c2 context.CancelFunc
				ctx, c2 = context.WithTimeout(ctx, deadline)
				defer c2()
			}
			start := time.Now()
			r.scts, r.err = submission.GetSCTs(ctx, sub, []ct.ASN1Cert{{Data: []byte("chain")}}, false, groups)
			r.took = time.Since(start)
			r.returned = true
			evMu.Lock()
			r.atReturn = len(r.events)
			evMu.Unlock()
			cancel() // let goroutines that GetSCTs left behind (still waiting for a log) finish
			synctest.Wait()
		})
	}()
	r.cancelled = deadline > 0 && r.took >= deadline
	r.calls = sub.calls
	return r
}

// judgeSet checks what does not depend on the layout: distinct logs, one submission per log, every returned SCT is the
// one its log produced, and - only an outcome without error is an SCT - comes from a log whose outcome was an SCT.
// It returns false when the run is already reported and its other clauses would only repeat that.
func judgeSet(r *run, outcome map[string]string, fp func(string) string, rep violator, c any) bool {
	ok := true
	for _, s := range r.scts {
		if r.got[s.LogURL] {
			rep.Violate(fp("duplicate-log"), "two SCTs from the same log "+s.LogURL, c)
		}
		r.got[s.LogURL] = true
		if o := outcome[s.LogURL]; o != "sct" {
			// policy-independent fingerprint: the class is the shape of the pair, not the layout
			rep.Violate("getscts:error-outcome-counted:"+pairShape(o),
				fmt.Sprintf("log %s answered with the pair %s (outcome %q: an error outcome, no SCT) but GetSCTs (err=%v) handed its SCT back in the set it returned %v; submission/races.go setResult decides by sct == nil alone", s.LogURL, pairShape(o), o, r.err, setOf(r.scts)), c)
			ok = false
		} else if s.SCT == nil || s.SCT.LogID.KeyID != sctOf(s.LogURL).LogID.KeyID {
			rep.Violate(fp("sct-misassigned"), "the SCT returned for "+s.LogURL+" is not the one that log produced", c)
		}
	}
	// ... nor may it be accounted as one (the H4 event of setResult says whether the result was taken as an SCT)
	for _, e := range r.events {
		l, _ := e["log"].(string)
		if flag, _ := e["flag"].(bool); e["ev"] == "setResult" && flag && outcome[l] != "sct" {
			rep.Violate("getscts:error-outcome-counted:"+pairShape(outcome[l]),
				fmt.Sprintf("log %s answered with the pair %s (outcome %q: an error outcome, no SCT) but its result was accounted as an SCT (group needs after it: %v); submission/races.go setResult decides by sct == nil alone", l, pairShape(outcome[l]), outcome[l], e["needs"]), c)
			ok = false
		}
	}
	for l, n := range r.calls {
		if n > 1 {
			rep.Violate(fp("submitted-twice"), fmt.Sprintf("log %s was sent the chain %d times", l, n), c)
		}
	}
	return ok
}

// violator records a violation (a *vh.Report, or a wrapper that also remembers that the run was reported).
type violator interface {
	Violate(fp, what string, replay any)
}

type flagging struct {
	rep *vh.Report
	bad bool
}

func (f *flagging) Violate(fp, what string, replay any) {
	f.bad = true
	f.rep.Violate(fp, what, replay)
}

func setOf(scts []*submission.AssignedSCT) []string {
	m := map[string]bool{}
	for _, s := range scts {
		m[s.LogURL] = true
	}
	return keys(m)
}

// emitTrace hands the H4 events of a run to the trace file of its policy.
func emitTrace(rec *vh.Recorder, r *run, logs []string, outcome map[string]string) {
	out := map[string]string{}
	for _, l := range logs {
		out[l] = outcome[l]
	}
	rec.Emit(map[string]any{"ev": "Reset", "outcome": out})
	// Return stands where GetSCTs returned: a request that no race waited for any more (a log outside the session of
	// the only group that still needs it) may finish afterwards and is accounted after the verdict
	for _, e := range r.events[:r.atReturn] {
		rec.Emit(e)
	}
	rec.Emit(map[string]any{"ev": "Return", "err": r.err != nil, "scts": keys(r.got), "cancelled": r.cancelled})
	for _, e := range r.events[r.atReturn:] {
		rec.Emit(e)
	}
}

// runCase executes GetSCTs in a bubble, records the H4 events and checks the property clauses directly.
func runCase(t *testing.T, c Case, report *vh.Report, rec map[string]*vh.Recorder) {
	rep := &flagging{rep: report}
	p := policies[c.Policy]
	r := execute(t, p.groups(), c.Outcome, c.Latency, c.Deadline)
	fp := func(s string) string { return "getscts:" + c.Policy + ":" + s }
	if !r.returned || r.deadlock {
		rep.Violate(fp("no-termination"), fmt.Sprintf("GetSCTs did not return (deadlock=%v) for %+v", r.deadlock, c), c)
		return
	}
	answering := map[string]bool{}
	for l, o := range c.Outcome {
		if o == "sct" {
			answering[l] = true
		}
	}
	if judgeSet(r, c.Outcome, fp, rep, c) {
		got, err, cancelled := r.got, r.err, r.cancelled
		if err == nil && !p.satisfies(got) {
			rep.Violate(fp("success-unsound"), fmt.Sprintf("GetSCTs reported success with SCTs from %v, which does not satisfy the policy", keys(got)), c)
		}
		if err != nil && !cancelled && p.satisfies(got) {
			rep.Violate(fp("failure-dishonest"), fmt.Sprintf("GetSCTs reported %q although the SCT set it returned (%v) satisfies every group", err, keys(got)), c)
		}
		if err != nil && !cancelled && p.satisfies(answering) && c.Deadline == 0 {
			rep.Violate(fp("success-incomplete"), fmt.Sprintf("logs %v all answer with an SCT and satisfy the policy, the caller never cancels, but GetSCTs reported %q with %v", keys(answering), err, keys(got)), c)
		}
	}
	// a run the clauses above already reported is not handed to trace validation (it would be reported twice)
	if !rep.bad {
		emitTrace(rec[c.Policy], r, p.Logs, c.Outcome)
	}
	key := fmt.Sprintf("%s/err=%v/n=%d/cancel=%v/%s", c.Policy, r.err != nil, len(r.got), r.cancelled, outcomeKey(c))
	report.Eval(key)
}

func keys(m map[string]bool) []string {
	out := []string{}
	for k, v := range m {
		if v {
			out = append(out, k)
		}
	}
	sort.Strings(out)
	return out
}

func outcomeKey(c Case) string {
	var parts []string
	for _, l := range policies[c.Policy].Logs {
		lat := "fast"
		switch {
		case c.Latency[l] >= 5*time.Second:
			lat = "veryslow"
		case c.Latency[l] >= time.Second:
			lat = "slow"
		}
		parts = append(parts, l+"="+c.Outcome[l]+"/"+lat)
	}
	return strings.Join(parts, ",")
}

var latencies = []time.Duration{0, 300 * time.Millisecond, 1500 * time.Millisecond, 2500 * time.Millisecond, 10 * time.Second}

// enumerate: every outcome assignment x every latency assignment (all of them for three logs, seeded sample for four).
func cases(pol string, outcomes []string, rngSalt int64, limit int) []Case {
	p := policies[pol]
	var all []Case
	n := len(p.Logs)
	var rec func(i int, c Case)
	rec = func(i int, c Case) {
		if i == n {
			cc := Case{Policy: pol, Outcome: map[string]string{}, Latency: map[string]time.Duration{}, Deadline: c.Deadline}
			for k, v := range c.Outcome {
				cc.Outcome[k] = v
			}
			for k, v := range c.Latency {
				cc.Latency[k] = v
			}
			all = append(all, cc)
			return
		}
		for _, o := range outcomes {
			for _, lt := range latencies {
				if o == "hang" && lt != 0 {
					continue
				}
				c.Outcome[p.Logs[i]] = o
				c.Latency[p.Logs[i]] = lt
				rec(i+1, c)
			}
		}
	}
	rec(0, Case{Outcome: map[string]string{}, Latency: map[string]time.Duration{}})
	if limit > 0 && len(all) > limit {
		rng := vh.Rand(rngSalt + int64(vh.EnvInt("VERIF_SALT", 0))*101)
		rng.Shuffle(len(all), func(i, j int) { all[i], all[j] = all[j], all[i] })
		all = all[:limit]
	}
	return all
}

// TestGetSCTs runs the scenarios, checks the clauses of C17 on every result and writes one H4 trace file per policy.
func TestGetSCTs(t *testing.T) {
	rep := vh.NewReport("c17-getscts", "submission.GetSCTs under virtual time with a scripted Submitter: every assignment of outcomes (the four shapes of the pair SubmitToLog returns - (sct,nil), (nil,err), (sct,err), (nil,nil) - and hang; only an outcome without error counts as an SCT) and of latencies (0, 0.3, 1.5, 2.5, 10 s against the 1 s stagger) for the Chrome-like and Apple-like group layouts of MCSubmission.tla, with and without a caller deadline; distinct logs, at most one submission per log, soundness of success, honesty of failure, success when enough logs answer, termination; H4 events recorded for trace validation; non-trivial = distinct (policy, verdict, #SCTs, outcome/latency class vector)")
	rec := map[string]*vh.Recorder{}
	for name := range policies {
		r, err := vh.NewRecorder("traces-" + name + ".ndjson")
		if err != nil {
			t.Fatal(err)
		}
		rec[name] = r
	}
	limit := vh.EnvInt("VERIF_CASES_PER_POLICY", 1500)
	var all []Case
	all = append(all, cases("Chrome2", []string{"sct", "err"}, 1, limit)...)
	all = append(all, cases("Apple", []string{"sct", "err"}, 2, limit)...)
	all = append(all, cases("Chrome3", []string{"sct", "err"}, 3, limit)...)
	for _, pol := range []string{"Chrome2", "Apple", "Chrome3"} { // with hanging logs and a caller deadline
		for _, c := range cases(pol, []string{"sct", "err", "hang"}, 4, limit/3) {
			c.Deadline = []time.Duration{4 * time.Second, 15 * time.Second}[len(all)%2]
			all = append(all, c)
		}
	}
	// the shapes of the pair (sct, err): only an outcome without error counts as an SCT.  The pair (sct, err) - named
	// clause ErrorWins of Submission.tla - is NOT scripted: no Submitter of the repository returns it (the log client
	// returns (nil, err)) and the property's outcomes are "SCT, error, hang"; what the real client returns is covered
	// by the wire cases (TestWire), where a real client.LogClient sits behind the distributor.
	for i, pol := range []string{"Chrome2", "Apple", "Chrome3"} {
		all = append(all, cases(pol, []string{"sct", "err", "neither"}, int64(5+i), limit/2)...)
	}
	for _, pol := range []string{"Chrome2", "Apple"} { // ... also against hanging logs and a caller deadline
		for _, c := range cases(pol, []string{"sct", "neither", "hang"}, 9, limit/8) {
			c.Deadline = []time.Duration{4 * time.Second, 15 * time.Second}[len(all)%2]
			all = append(all, c)
		}
	}
	reps := vh.EnvInt("VERIF_REPEAT", 2) // goroutines released at the same virtual instant run in any order
	for r := 0; r < reps; r++ {
		for _, c := range all {
			runCase(t, c, rep, rec)
		}
	}
	// histories of weight operations and submissions (SubmissionWeights.tla); their H4 events go to the same trace files
	if p := os.Getenv("VERIF_WEIGHT_BEHS"); p != "" {
		replayWeights(t, p, rec)
	}
	for _, r := range rec {
		if err := r.Close(); err != nil {
			t.Fatal(err)
		}
	}
	rep.Replayed = len(all) * reps
	if len(all) > 0 {
		rep.Sample(all[len(all)/3])
	}
	if err := rep.Write(); err != nil {
		t.Fatal(err)
	}
	_ = os.Getenv
}
