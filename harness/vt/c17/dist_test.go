//go:build go1.25

package c17

import (
	"context"
	"crypto/sha256"
	"errors"
	"fmt"
	"os"
	"sync"
	"testing"
	"testing/synctest"
	"time"

	ct "github.com/google/certificate-transparency-go"
	"github.com/google/certificate-transparency-go/client"
	"github.com/google/certificate-transparency-go/ctpolicy"
	"github.com/google/certificate-transparency-go/loglist3"
	"github.com/google/certificate-transparency-go/submission"
	"github.com/google/certificate-transparency-go/x509"

	"verifharness/pki"
	"verifharness/vh"
)

// DistCase mirrors a case of Distributor.tla.
type DistCase struct {
	C struct {
		T   string `json:"t"`
		S   []int  `json:"s"`
		E   []int  `json:"e"`
		Log struct {
			State       string   `json:"state"`
			HasInterval bool     `json:"hasInterval"`
			Start       int      `json:"start"`
			Limit       int      `json:"limit"`
			RootsKnown  bool     `json:"rootsKnown"`
			Roots       []string `json:"roots"`
		} `json:"log"`
		Cert struct {
			NotAfter int    `json:"notAfter"`
			Root     string `json:"root"`
		} `json:"cert"`
		// wire cases (TestWire)
		Policy string            `json:"policy"`
		Pre    bool              `json:"pre"`
		Total  int               `json:"total"`
		Reply  map[string]string `json:"reply"`
	} `json:"c"`
	Expect struct {
		Months   int  `json:"months"`
		Total    int  `json:"total"`
		Eligible bool `json:"eligible"`
		// wire cases
		SCTs    []string `json:"scts"`
		Success bool     `json:"success"`
		Waits   bool     `json:"waits"`
	} `json:"expect"`
}

type fakeLog struct {
	url   string
	roots []*pki.Node
	known bool
	mu    sync.Mutex
	calls int
}

func (f *fakeLog) add(ctx context.Context) (*ct.SignedCertificateTimestamp, error) {
	f.mu.Lock()
	f.calls++
	f.mu.Unlock()
	id := sha256.Sum256([]byte(f.url))
	return &ct.SignedCertificateTimestamp{LogID: ct.LogID{KeyID: id}, Timestamp: 1}, nil
}
func (f *fakeLog) AddChain(ctx context.Context, _ []ct.ASN1Cert) (*ct.SignedCertificateTimestamp, error) {
	return f.add(ctx)
}
func (f *fakeLog) AddPreChain(ctx context.Context, _ []ct.ASN1Cert) (*ct.SignedCertificateTimestamp, error) {
	return f.add(ctx)
}
func (f *fakeLog) GetAcceptedRoots(ctx context.Context) ([]ct.ASN1Cert, error) {
	if !f.known {
		return nil, errors.New("roots unavailable")
	}
	var out []ct.ASN1Cert
	for _, r := range f.roots {
		out = append(out, ct.ASN1Cert{Data: r.DER})
	}
	return out, nil
}

var _ client.AddLogClient = (*fakeLog)(nil)

func state(s string) *loglist3.LogStates {
	st := &loglist3.LogState{Timestamp: time.Date(2020, 1, 1, 0, 0, 0, 0, time.UTC)}
	switch s {
	case "usable":
		return &loglist3.LogStates{Usable: st}
	case "pending":
		return &loglist3.LogStates{Pending: st}
	case "qualified":
		return &loglist3.LogStates{Qualified: st}
	case "readonly":
		return &loglist3.LogStates{ReadOnly: &loglist3.ReadOnlyLogState{LogState: *st}}
	case "retired":
		return &loglist3.LogStates{Retired: st}
	}
	return &loglist3.LogStates{Rejected: st}
}

var tickBase = time.Date(2031, 1, 1, 0, 0, 0, 0, time.UTC)

func tick(n int) time.Time { return tickBase.Add(time.Duration(n) * 24 * time.Hour) }

// TestDistributor replays the cases of Distributor.tla: policy totals by certificate lifetime and the
// eligibility of a log (state, temporal interval, accepted roots) for a certificate.
func TestDistributor(t *testing.T) {
	path := os.Getenv("VERIF_CASES")
	if path == "" {
		t.Skip("VERIF_CASES not set")
	}
	cases, err := vh.LoadNDJSON[DistCase](path)
	if err != nil {
		t.Fatal(err)
	}
	rep := vh.NewReport("c17-distributor", "cases of Distributor.tla: (a) certificate lifetimes around the 15/27/39-month thresholds incl. the day-of-month floor -> total SCTs demanded by the Chrome and Apple policies; (b) one non-Google log (state x temporal interval x accepted roots known/unknown x root set) x certificate (NotAfter tick, root) with filler Google logs: Distributor.AddChain under virtual time must contact the log only if the specification calls it eligible, and must succeed exactly when it is; non-trivial = distinct (case kind, expected value, log state, interval relation, roots relation)")
	roots := map[string]*pki.Node{"RA": pki.NewRoot(pki.Opts{CN: "RA"}), "RB": pki.NewRoot(pki.Opts{CN: "RB"})}
	inter := map[string]*pki.Node{}
	for n, r := range roots {
		inter[n] = r.Issue(pki.Opts{CN: "I-" + n, IsCA: true})
	}
	leafMemo := map[string][][]byte{}
	chainFor := func(root string, nb, na time.Time) [][]byte {
		k := fmt.Sprint(root, nb.Unix(), na.Unix())
		if c, ok := leafMemo[k]; ok {
			return c
		}
		leaf := inter[root].Issue(pki.Opts{CN: "leaf", NotBefore: nb, NotAfter: na, DNS: []string{"c17.example"}})
		c := pki.DERs(leaf.Chain(true))
		leafMemo[k] = c
		return c
	}
	googleOp := func(logs ...*loglist3.Log) *loglist3.Operator {
		return &loglist3.Operator{Name: "Google", Email: []string{"google-ct-logs@googlegroups.com"}, Logs: logs}
	}
	mkLog := func(url string, st *loglist3.LogStates, ti *loglist3.TemporalInterval) *loglist3.Log {
		id := sha256.Sum256([]byte(url))
		return &loglist3.Log{URL: url, LogID: id[:], Key: []byte(url), State: st, TemporalInterval: ti}
	}
	for i := range cases {
		dc := &cases[i]
		c := dc.C
		if c.T == "wire" {
			continue // TestWire
		}
		if c.T == "lifetime" {
			nb := time.Date(c.S[0], time.Month(c.S[1]), c.S[2], 0, 0, 0, 0, time.UTC)
			na := time.Date(c.E[0], time.Month(c.E[1]), c.E[2], 0, 0, 0, 0, time.UTC)
			der := chainFor("RA", nb, na)[0]
			cert, err := x509.ParseCertificate(der)
			if err != nil {
				t.Fatal(err)
			}
			var logs []*loglist3.Log
			for k := 0; k < 6; k++ {
				logs = append(logs, mkLog(fmt.Sprintf("https://n%d/", k), state("usable"), nil))
			}
			ll := &loglist3.LogList{Operators: []*loglist3.Operator{googleOp(mkLog("https://g0/", state("usable"), nil)), {Name: "Other", Logs: logs}}}
			for name, pol := range map[string]ctpolicy.CTPolicy{"chrome": ctpolicy.ChromeCTPolicy{}, "apple": ctpolicy.AppleCTPolicy{}} {
				groups, err := pol.LogsByGroup(cert, ll)
				if err != nil {
					rep.Violate("policy:"+name+":error", err.Error(), dc)
					continue
				}
				got := groups[ctpolicy.BaseName].MinInclusions
				if got != dc.Expect.Total {
					rep.Violate(fmt.Sprintf("policy:%s:months=%d:want=%d:got=%d", name, dc.Expect.Months, dc.Expect.Total, got),
						fmt.Sprintf("%s policy, lifetime %v..%v (%d whole months): %d SCTs demanded, the policy table says %d", name, nb.Format("2006-01-02"), na.Format("2006-01-02"), dc.Expect.Months, got, dc.Expect.Total), dc)
				}
				if name == "chrome" {
					for g, gi := range groups {
						if g != ctpolicy.BaseName && gi.MinInclusions != 1 {
							rep.Violate("policy:chrome:group-min", fmt.Sprintf("group %s demands %d", g, gi.MinInclusions), dc)
						}
					}
				}
			}
			rep.Eval(fmt.Sprintf("lifetime/%d/%d", dc.Expect.Months, dc.Expect.Total))
			continue
		}
		// eligibility: L is the only non-Google log, so the Chrome policy can only be met through it
		var ti *loglist3.TemporalInterval
		if c.Log.HasInterval {
			ti = &loglist3.TemporalInterval{StartInclusive: tick(c.Log.Start), EndExclusive: tick(c.Log.Limit)}
		}
		L := &fakeLog{url: "https://L/", known: c.Log.RootsKnown}
		for _, r := range c.Log.Roots {
			L.roots = append(L.roots, roots[r])
		}
		// the filler Google log alternates between publishing its roots and not answering get-roots
		G := &fakeLog{url: "https://G/", known: i%2 == 0, roots: []*pki.Node{roots["RA"], roots["RB"]}}
		fakes := map[string]*fakeLog{L.url: L, G.url: G}
		ll := &loglist3.LogList{Operators: []*loglist3.Operator{googleOp(mkLog(G.url, state("usable"), nil)), {Name: "Other", Logs: []*loglist3.Log{mkLog(L.url, state(c.Log.State), ti)}}}}
		chain := chainFor(c.Cert.Root, tickBase.Add(-300*24*time.Hour), tick(c.Cert.NotAfter))
		var scts []*submission.AssignedSCT
		var aerr error
		synctest.Test(t, func(t *testing.T) {
			d, err := submission.NewDistributor(ll, ctpolicy.ChromeCTPolicy{}, func(l *loglist3.Log) (client.AddLogClient, error) { return fakes[l.URL], nil }, nil)
			if err != nil {
				t.Fatalf("NewDistributor: %v", err)
			}
			ctx, cancel := context.WithCancel(context.Background())
			d.RefreshRoots(ctx)
			scts, aerr = d.AddChain(ctx, chain, false)
			cancel()
			synctest.Wait()
		})
		rel := "nointerval"
		if c.Log.HasInterval {
			switch {
			case c.Cert.NotAfter < c.Log.Start:
				rel = "before"
			case c.Cert.NotAfter == c.Log.Start:
				rel = "at-start"
			case c.Cert.NotAfter == c.Log.Limit:
				rel = "at-limit"
			case c.Cert.NotAfter > c.Log.Limit:
				rel = "after"
			default:
				rel = "inside"
			}
		}
		rootRel := "unknown"
		if c.Log.RootsKnown {
			rootRel = "excluded"
			for _, r := range c.Log.Roots {
				if r == c.Cert.Root {
					rootRel = "included"
				}
			}
		}
		fp := fmt.Sprintf("eligible:%s:%s:roots-%s:other-log-roots-known=%v", c.Log.State, rel, rootRel, G.known)
		contacted := L.calls > 0
		if contacted && !dc.Expect.Eligible {
			rep.Violate(fp+":contacted-ineligible", fmt.Sprintf("log (state %s, interval %s, accepted roots %s) was sent a chain it is not eligible for", c.Log.State, rel, rootRel), dc)
		}
		if dc.Expect.Eligible && (aerr != nil || !contacted || len(scts) < 2) {
			rep.Violate(fp+":eligible-not-used", fmt.Sprintf("the only non-Google log is eligible (state %s, interval %s, roots %s) but AddChain returned %d SCTs, err=%v", c.Log.State, rel, rootRel, len(scts), aerr), dc)
		}
		if !dc.Expect.Eligible && aerr == nil {
			rep.Violate(fp+":success-without-eligible-log", fmt.Sprintf("no eligible non-Google log exists (state %s, interval %s, roots %s) but AddChain reported success", c.Log.State, rel, rootRel), dc)
		}
		rep.Eval(fp + fmt.Sprintf(":%v", dc.Expect.Eligible))
	}
	rep.Replayed = rep.Evaluations
	rep.Sample(cases[0])
	rep.Sample(cases[len(cases)-1])
	if err := rep.Write(); err != nil {
		t.Fatal(err)
	}
}
