//go:build go1.25

package c17

import (
	"context"
	"fmt"
	"sync"
	"sync/atomic"
	"testing"
	"time"

	"github.com/google/certificate-transparency-go/client"
	"github.com/google/certificate-transparency-go/ctpolicy"
	"github.com/google/certificate-transparency-go/loglist3"
	"github.com/google/certificate-transparency-go/submission"

	"verifharness/pki"
	"verifharness/vh"
)

type flipRefresher struct {
	mu    sync.Mutex
	lists []*loglist3.LogList
	n     int
}

func (f *flipRefresher) Refresh() (*submission.LogListData, error) {
	f.mu.Lock()
	defer f.mu.Unlock()
	f.n++
	return &submission.LogListData{List: f.lists[f.n%len(f.lists)], JSON: []byte(fmt.Sprint(f.n))}, nil
}
func (f *flipRefresher) LastJSON() []byte { return nil }
func (f *flipRefresher) Source() string   { return "flip" }

// TestRaces exercises the pairs of operations C17 declares free of data races, under the race detector:
// concurrent submissions, weight changes, root refreshes and log-list refreshes (distributor restarts).
func TestRaces(t *testing.T) {
	rep := vh.NewReport("c17-races", "concurrent GetSubmissionSession / SetLogWeights / SetLogWeight on one group; concurrent Proxy.AddChain / AddPreChain callers while the log list is refreshed every few ms (distributor restarts) and roots are refreshed; LogListManager.RefreshLogList against ProduceClientLogList; judged by the Go race detector; non-trivial = each scenario that ran to completion")
	// (a) group weights
	g := &ctpolicy.LogGroupInfo{Name: "g", LogURLs: map[string]bool{}, LogWeights: map[string]float32{}, MinInclusions: 1}
	for i := 0; i < 6; i++ {
		u := fmt.Sprintf("l%d", i)
		g.LogURLs[u] = true
		g.LogWeights[u] = 1
	}
	var wg sync.WaitGroup
	stop := make(chan struct{})
	for k := 0; k < 4; k++ {
		wg.Add(1)
		go func() {
			defer wg.Done()
			for {
				select {
				case <-stop:
					return
				default:
					if s := g.GetSubmissionSession(); len(s) == 0 {
						rep.Violate("races:empty-session", "a group with positive weights produced an empty session", nil)
					}
				}
			}
		}()
	}
	for k := 0; k < 2; k++ {
		wg.Add(1)
		go func(k int) {
			defer wg.Done()
			for i := 0; i < 300; i++ {
				if k == 0 {
					_ = g.SetLogWeights(map[string]float32{"l0": 1, "l1": float32(i%3 + 1), "l2": 1})
				} else {
					_ = g.SetLogWeight(fmt.Sprintf("l%d", i%6), float32(i%2+1))
				}
			}
		}(k)
	}
	time.Sleep(50 * time.Millisecond)
	close(stop)
	wg.Wait()
	rep.Eval("weights")

	// (b) proxy: submissions against distributor restarts and root refreshes
	root := pki.NewRoot(pki.Opts{CN: "race root"})
	inter := root.Issue(pki.Opts{CN: "race inter", IsCA: true})
	leaf := inter.Issue(pki.Opts{CN: "race leaf", NotBefore: time.Now().Add(-time.Hour), NotAfter: time.Now().Add(200 * 24 * time.Hour)})
	chain := pki.DERs(leaf.Chain(true))
	mk := func(n int) *loglist3.LogList {
		var others []*loglist3.Log
		for i := 0; i < n; i++ {
			others = append(others, &loglist3.Log{URL: fmt.Sprintf("https://n%d/", i), Key: []byte{byte(i)}, LogID: []byte{byte(i)}, State: state("usable")})
		}
		return &loglist3.LogList{Operators: []*loglist3.Operator{
			{Name: "Google", Email: []string{"google-ct-logs@googlegroups.com"}, Logs: []*loglist3.Log{{URL: "https://g0/", Key: []byte("g"), LogID: []byte("g"), State: state("usable")}}},
			{Name: "Other", Logs: others}}}
	}
	var served int64
	builder := func(l *loglist3.Log) (client.AddLogClient, error) {
		return &fakeLog{url: l.URL, known: true, roots: []*pki.Node{root}}, nil
	}
	llm := submission.NewLogListManager(&flipRefresher{lists: []*loglist3.LogList{mk(2), mk(3)}}, nil)
	p := submission.NewProxy(llm, submission.GetDistributorBuilder(submission.ChromeCTPolicy, builder, nil), nil)
	ctx, cancel := context.WithCancel(context.Background())
	p.Run(ctx, 3*time.Millisecond, 2*time.Millisecond)
	select {
	case <-p.Init:
	case <-time.After(5 * time.Second):
		t.Fatal("proxy did not initialize")
	}
	var wg2 sync.WaitGroup
	for k := 0; k < 4; k++ {
		wg2.Add(1)
		go func(k int) {
			defer wg2.Done()
			for i := 0; i < 6; i++ {
				cctx, cc := context.WithTimeout(ctx, 3*time.Second)
				scts, err := p.AddChain(cctx, chain, false)
				cc()
				if err == nil && len(scts) >= 2 {
					atomic.AddInt64(&served, 1)
				}
			}
		}(k)
	}
	wg2.Add(1)
	go func() { // a reader of the manager's state while it refreshes
		defer wg2.Done()
		for i := 0; i < 200; i++ {
			_, _ = llm.RefreshLogList(ctx)
			_ = llm.ProduceClientLogList()
			llm.GetTwoLatestLogLists()
		}
	}()
	wg2.Wait()
	cancel()
	time.Sleep(20 * time.Millisecond)
	if served == 0 {
		rep.Violate("races:proxy-never-served", "no concurrent AddChain through the proxy succeeded", nil)
	}
	rep.Eval("proxy")
	rep.Replayed = 2
	if err := rep.Write(); err != nil {
		t.Fatal(err)
	}
}
