//go:build go1.25

package c17

import (
	"fmt"
	"os"
	"sort"
	"strings"
	"testing"
	"time"

	"github.com/google/certificate-transparency-go/ctpolicy"

	"verifharness/vh"
)

// WStep is one step of a history of SubmissionWeights.tla: a weight operation with the specification's verdict and the
// sessions after it, or a submission with the verdict the specification demands.
type WStep struct {
	Kind string `json:"kind"` // one | many | submit
	G    string `json:"g"`
	L    string `json:"l"`
	V    int    `json:"v"`
	M    []struct {
		L string `json:"l"`
		V int    `json:"v"`
	} `json:"m"`
	OK       bool                `json:"ok"`
	Why      string              `json:"why"`
	Sessions map[string][]string `json:"sessions"`
	Out      map[string]string   `json:"out"`
	Reach    []string            `json:"reach"`
	Verdict  string              `json:"verdict"` // success | failure | either
}

// WBeh is one exported history for one layout.
type WBeh struct {
	Policy string  `json:"policy"`
	Steps  []WStep `json:"steps"`
}

// sessionOf observes the submission session of a group the way a group race does: through GetSubmissionSession.
// The order is random; the set is what the specification fixes.  (Two draws: the weighted sampling may, with
// negligible probability, end a session early on a float rounding.)
func sessionOf(g *ctpolicy.LogGroupInfo) (set []string, dup string) {
	m := map[string]bool{}
	for i := 0; i < 2; i++ {
		seen := map[string]bool{}
		for _, l := range g.GetSubmissionSession() {
			if seen[l] {
				dup = l
			}
			seen[l] = true
			m[l] = true
		}
	}
	return keys(m), dup
}

func sameSet(a, b []string) bool {
	a, b = append([]string{}, a...), append([]string{}, b...)
	sort.Strings(a)
	sort.Strings(b)
	return strings.Join(a, ",") == strings.Join(b, ",")
}

// replayWeights replays histories of weight operations and submissions against long-lived groups.
func replayWeights(t *testing.T, path string, rec map[string]*vh.Recorder) {
	behs, err := vh.LoadNDJSON[WBeh](path)
	if err != nil {
		t.Fatal(err)
	}
	report := vh.NewReport("c17-weights", "histories of SubmissionWeights.tla (SetLogWeight / SetLogWeights on the groups of the Chrome-like and Apple-like layouts - members and strangers, negative, zero and positive weights, accepted and refused - interleaved with submissions) replayed on long-lived ctpolicy.LogGroupInfo objects: every operation must be accepted or refused as specified, the submission sessions after it (observed through GetSubmissionSession) must be the specified ones - a refused operation changes nothing -, and every submission (GetSCTs under virtual time, scripted outcomes, random latencies) must ask only logs of some session, report success when every group finds its minimum among the answering logs of its own session, report failure when the answering logs of all sessions do not satisfy every group, and tell the truth about the set it returns in every case; H4 events go to trace validation; non-trivial = distinct (layout, step kind, verdict / reason, sessions)")
	rng := vh.Rand(17)
	for bi := range behs {
		b := &behs[bi]
		p, ok := policies[b.Policy]
		if !ok {
			t.Fatalf("unknown layout %q", b.Policy)
		}
		groups := p.groups()
		for si := range b.Steps {
			st := &b.Steps[si]
			rep := &flagging{rep: report}
			replay := map[string]any{"policy": b.Policy, "steps": b.Steps[:si+1]}
			if st.Kind == "submit" {
				lat := map[string]time.Duration{}
				for _, l := range p.Logs {
					lat[l] = latencies[rng.Intn(len(latencies))]
				}
				r := execute(t, groups, st.Out, lat, 0)
				fp := func(s string) string { return "weights:" + b.Policy + ":" + s }
				if !r.returned || r.deadlock {
					rep.Violate(fp("no-termination"), fmt.Sprintf("GetSCTs did not return (deadlock=%v)", r.deadlock), replay)
					break
				}
				reach := map[string]bool{}
				for _, l := range st.Reach {
					reach[l] = true
				}
				for l, n := range r.calls {
					if n > 0 && !reach[l] {
						rep.Violate("weights:zero-weight-log-asked", fmt.Sprintf("log %s has weight zero in every group it is a member of (sessions %v) but was sent the chain", l, st.Sessions), replay)
					}
				}
				if judgeSet(r, st.Out, fp, rep, replay) {
					switch {
					case r.err != nil && p.satisfies(r.got):
						// layout-independent: the class is "a group was completed through a member outside its own session"
						rep.Violate("weights:failure-with-satisfying-set", fmt.Sprintf("sessions %v, outcomes %v: GetSCTs reported %q although the SCT set it returned (%v) satisfies every group; a group race whose own session is exhausted returns false, and an SCT obtained later on behalf of another group from a member outside that session completes the group after its verdict (submission/races.go: GetSCTs uses the races' verdicts, not the shared state)", st.Sessions, st.Out, r.err, keys(r.got)), replay)
					case st.Verdict == "success" && r.err != nil:
						rep.Violate(fp("success-incomplete"), fmt.Sprintf("sessions %v, outcomes %v: every group finds its minimum among the answering logs of its own session and the caller never cancels, but GetSCTs reported %q with %v (asked: %v)", st.Sessions, st.Out, r.err, keys(r.got), asked(r)), replay)
					case st.Verdict == "failure" && r.err == nil:
						rep.Violate(fp("success-unsound"), fmt.Sprintf("sessions %v, outcomes %v: the answering logs of the sessions do not satisfy every group, but GetSCTs reported success with %v", st.Sessions, st.Out, keys(r.got)), replay)
					case r.err == nil && !p.satisfies(r.got):
						rep.Violate(fp("success-unsound"), fmt.Sprintf("GetSCTs reported success with SCTs from %v, which does not satisfy the policy", keys(r.got)), replay)
					}
				}
				if !rep.bad {
					emitTrace(rec[b.Policy], r, p.Logs, st.Out)
				}
				report.Eval(fmt.Sprintf("%s/submit/%v/%v/%v/%v", b.Policy, st.Verdict, r.err == nil, st.Sessions, outKey(p, st.Out)))
				if rep.bad {
					break
				}
				continue
			}
			g := groups[st.G]
			var opErr error
			var call string
			func() {
				defer func() {
					if x := recover(); x != nil {
						rep.Violate("panic:weights:"+st.Kind, fmt.Sprintf("panic in the weight operation: %v", x), replay)
					}
				}()
				if st.Kind == "one" {
					call = fmt.Sprintf("SetLogWeight(%q, %d) on group %s", st.L, st.V, st.G)
					opErr = g.SetLogWeight(st.L, float32(st.V))
				} else {
					m := map[string]float32{}
					for _, e := range st.M {
						m[e.L] = float32(e.V)
					}
					call = fmt.Sprintf("SetLogWeights(%v) on group %s", m, st.G)
					opErr = g.SetLogWeights(m)
				}
			}()
			if rep.bad {
				break
			}
			class := st.Kind + ":" + st.Why
			if (opErr == nil) != st.OK {
				verdict := "refused"
				if opErr == nil {
					verdict = "accepted"
				}
				rep.Violate("weights:verdict:"+class+":"+verdict, fmt.Sprintf("%s (%s) was %s (err=%v); the specification says ok=%v", call, st.Why, verdict, opErr, st.OK), replay)
			}
			for name, gi := range groups {
				got, dup := sessionOf(gi)
				if dup != "" {
					rep.Violate("weights:session-repeats-log", fmt.Sprintf("after %s the session of group %s names log %s twice", call, name, dup), replay)
				}
				if !sameSet(got, st.Sessions[name]) {
					what := "changed"
					if !st.OK {
						what = "refused-op-changed"
					}
					// what the divergence means for the completeness clause: a submission in which every log answers
					consequence := ""
					all := map[string]string{}
					for _, l := range p.Logs {
						all[l] = "sct"
					}
					if r := execute(t, groups, all, map[string]time.Duration{}, 0); r.returned && r.err != nil {
						consequence = fmt.Sprintf("; a submission in which every log answers with an SCT then reported %q (asked: %v)", r.err, asked(r))
					}
					rep.Violate("weights:session-differs:"+what+":"+class, fmt.Sprintf("after %s (%s, err=%v) the submission session of group %s is %v; specified: %v (a refused operation leaves every weight as it was; an accepted one changes exactly the named group)%s", call, st.Why, opErr, name, got, st.Sessions[name], consequence), replay)
				}
			}
			report.Eval(fmt.Sprintf("%s/%s/%v/%v", b.Policy, class, st.OK, st.Sessions))
			if rep.bad {
				break // the history and the objects have diverged
			}
		}
	}
	report.Replayed = len(behs)
	if len(behs) > 0 {
		report.Sample(behs[len(behs)/2])
	}
	if err := report.Write(); err != nil {
		t.Fatal(err)
	}
	_ = os.Getenv
}

func asked(r *run) []string {
	m := map[string]bool{}
	for l, n := range r.calls {
		m[l] = n > 0
	}
	return keys(m)
}

func outKey(p Policy, out map[string]string) string {
	var parts []string
	for _, l := range p.Logs {
		parts = append(parts, out[l])
	}
	return strings.Join(parts, ",")
}
