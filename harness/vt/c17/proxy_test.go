//go:build go1.25

package c17

// Binding of spec/submit/ProxyLifecycle.tla to the real submission.Proxy / LogListManager / logListRefresherImpl.
//
// TestProxyReplay: behaviours simulated by TLC (MCProxyLifecycleSim.tla: publish / fault / advance / gate releases /
// submit / cancel) are replayed step by step under virtual time; after every step the harness waits until every
// goroutine is blocked and records what can be seen from outside.  Everything recorded goes to proxy-traces.ndjson,
// which ProxyLifecycleTrace.tla must accept; in addition the clauses NoneUntilInit / UsesActive / eligibility are
// judged on the spot (specific fingerprints).
//
// TestProxyConcurrent: no gates - many callers, list flips, root refreshes and latencies, under the race detector,
// judged by the UsesActive / NoneUntilInit monitors.

import (
	"context"
	"fmt"
	"net/http"
	"os"
	"runtime"
	"sort"
	"strings"
	"sync"
	"testing"
	"testing/synctest"
	"time"

	"github.com/google/certificate-transparency-go/submission"

	"verifharness/vh"
)

// Behaviour is a BEH record of MCProxyLifecycleSim.tla.
type Behaviour struct {
	Gates []string `json:"gates"`
	Steps []struct {
		Op string `json:"op"`
		V  string `json:"v"`
		S  string `json:"s"`
		C  string `json:"c"`
		G  int    `json:"g"`
	} `json:"steps"`
}

const unit = time.Hour // one log-list refresh interval

type subResult struct {
	id       string
	cert     string
	pre      bool
	callSeq  int
	expected int // generation that is active when the call is made (replay: known exactly)
	known    bool // every log of that generation had answered get-roots, and no refresh of it was in flight, at the call
	done     bool
	notInit  bool
	err      error
	nSCT     int
	panicked any
}

// proxyRun is one proxy with its world.
type proxyRun struct {
	w      *World
	llm    *submission.LogListManager
	p      *submission.Proxy
	cancel context.CancelFunc
	trues  int
	closed bool
	subs   map[string]*subResult
	subCtx []context.CancelFunc
	wg     sync.WaitGroup
	policy submission.CTPolicyType
}

func startProxy(st *Static, rec *vh.Recorder, source string, gates map[string]bool, policy submission.CTPolicyType, llEvery, rootsEvery time.Duration, latency func(string) time.Duration) *proxyRun {
	w := newWorld(st, rec, source)
	w.latency = latency
	w.readGate.open = !gates["read"]
	w.buildGate.open = !gates["build"]
	w.gateRoots = gates["roots"]
	w.gateLogs = gates["log"]
	w.realBuild = submission.GetDistributorBuilder(policy, w.LogClient, nil)
	r := &proxyRun{w: w, subs: map[string]*subResult{}, policy: policy}
	refresher := submission.NewCustomLogListRefresher(&http.Client{Transport: w}, "https://loglist.ct.example/v3/log_list.json")
	r.llm = submission.NewLogListManager(refresher, nil)
	r.p = submission.NewProxy(r.llm, w.Builder, nil)
	ctx, cancel := context.WithCancel(context.Background())
	r.cancel = cancel
	w.Emit(map[string]any{"ev": "Reset", "src": source})
	r.p.Run(ctx, llEvery, rootsEvery)
	return r
}

// pollInit drains what the Init channel offers without blocking.
func (r *proxyRun) pollInit() {
	for !r.closed {
		select {
		case v, ok := <-r.p.Init:
			if !ok {
				r.closed = true
			} else if v {
				r.trues++
			} else {
				r.trues += 100 // a false on Init: never
			}
		default:
			return
		}
	}
}

func versionName(d *submission.LogListData) string {
	if d == nil || d.List == nil {
		return "none"
	}
	return d.List.Version
}

func (r *proxyRun) observe() map[string]any {
	latest, previous := r.llm.GetTwoLatestLogLists()
	r.pollInit()
	// LastJSON takes the refresher's updateMu, which Refresh holds while the list is being read: only ask when no read
	// is in flight ("?" = not observed)
	last := "?"
	r.w.mu.Lock()
	reading := r.w.inRead > 0
	r.w.mu.Unlock()
	if !reading {
		last = "other"
		lj := r.llm.LastJSON()
		if len(lj) == 0 {
			last = "none"
		}
		for v, doc := range r.w.st.JSON {
			if string(doc) == string(lj) {
				last = v
			}
		}
	}
	return map[string]any{"ev": "Obs", "latest": versionName(latest), "previous": versionName(previous), "initTrue": r.trues, "initClosed": r.closed,
		"upd": len(r.llm.LLUpdates), "err": len(r.llm.Errors), "last": last}
}

// activeNow: the generation whose swap is complete (valid when every goroutine is blocked: a finished successful build
// has been installed).
func (w *World) activeNow() int {
	w.mu.Lock()
	defer w.mu.Unlock()
	a := 0
	for n, ok := range w.buildOK {
		if ok && n > a {
			a = n
		}
	}
	return a
}

func (r *proxyRun) submit(id, cert string, pre bool, rep *vh.Report) {
	w := r.w
	res := &subResult{id: id, cert: cert, pre: pre, expected: w.activeNow()}
	w.mu.Lock()
	if ok := w.rootsOK[res.expected]; res.expected > 0 && ok != nil && *ok && w.rootRound[res.expected] == nil {
		res.known = true
	}
	res.callSeq = w.emit(map[string]any{"ev": "Submit", "s": id, "c": cert})
	if g := w.logGate[id]; g != nil { // a reused identity starts with its gate as configured
		delete(w.logGate, id)
	}
	w.mu.Unlock()
	r.subs[id] = res
	ctx, cancel := context.WithCancel(context.WithValue(context.Background(), subKey, id))
	r.subCtx = append(r.subCtx, cancel)
	chain := w.st.Chains[cert]
	if pre {
		chain = w.st.Chains[cert+"/pre"]
	}
	r.wg.Add(1)
	go func() {
		defer r.wg.Done()
		var scts []*submission.AssignedSCT
		var err error
		func() {
			defer func() {
				if p := recover(); p != nil {
					res.panicked = p
				}
			}()
			if pre {
				scts, err = r.p.AddPreChain(ctx, chain, false)
			} else {
				scts, err = r.p.AddChain(ctx, chain, false)
			}
		}()
		w.mu.Lock()
		res.err, res.nSCT = err, len(scts)
		res.notInit = err != nil && strings.Contains(err.Error(), "not initialized")
		out := "other"
		if res.notInit {
			out = "notinit"
		}
		res.done = true
		if res.panicked != nil {
			out = "panic"
		}
		w.emit(map[string]any{"ev": "SubmitDone", "s": id, "res": out})
		w.mu.Unlock()
	}()
}

// judgeSubmissions: the clauses NoneUntilInit and UsesActive on what the fake logs saw (replay mode: the generation
// that had to be read is known exactly because the call was made with every goroutine blocked).
func (r *proxyRun) judgeSubmission(res *subResult, rep *vh.Report, replay any) {
	w := r.w
	w.mu.Lock()
	defer w.mu.Unlock()
	var mine []Contact
	for _, c := range w.contacts {
		if c.Sub == res.id && c.Seq > res.callSeq {
			mine = append(mine, c)
		}
	}
	if res.panicked != nil {
		rep.Violate("panic:Proxy.AddChain", fmt.Sprintf("Proxy.AddChain/AddPreChain panicked: %v (distributor expected: generation %d)", res.panicked, res.expected), replay)
		return
	}
	if res.expected == 0 {
		if len(mine) > 0 {
			rep.Violate("proxy:none-until-init:contacted-before-first-build", fmt.Sprintf("a submission made before any distributor was installed reached log %s", mine[0].Log), replay)
		}
		if res.done && !res.notInit {
			rep.Violate("proxy:none-until-init:no-error-before-first-build", fmt.Sprintf("a submission made before any distributor was installed did not get the \"not initialized\" error (err=%v, %d SCTs)", res.err, res.nSCT), replay)
		}
		return
	}
	if res.done && res.notInit {
		rep.Violate("proxy:none-until-init:not-initialized-after-swap", fmt.Sprintf("generation %d (version %s) is installed, yet a submission got %q", res.expected, w.buildVer[res.expected], res.err), replay)
		return
	}
	for _, c := range mine {
		if c.Gen != res.expected {
			rep.Violate("proxy:uses-active:other-distributor", fmt.Sprintf("the submission read p.dist while generation %d (version %s) was installed, but log %s was contacted through a client of generation %d (version %s)",
				res.expected, w.buildVer[res.expected], c.Log, c.Gen, w.buildVer[c.Gen]), replay)
			continue
		}
		if c.Pre != res.pre {
			rep.Violate("proxy:wrong-endpoint", "add-chain and add-pre-chain mixed up", replay)
		}
		v := w.buildVer[c.Gen]
		// the call was made with every goroutine blocked, so the distributor computed the compatible logs with exactly
		// the root knowledge it had then; while a refresh was in flight (or failed) only state and interval are judged
		okUnknown := w.st.eligible(v, c.Log, res.cert, false)
		elig := okUnknown
		if res.known {
			elig = w.st.eligible(v, c.Log, res.cert, true)
		}
		if !elig {
			ver := w.st.Cat.Versions[v]
			why := "roots"
			if ver.State[c.Log] != "usable" {
				why = "state-" + ver.State[c.Log]
			} else if !okUnknown {
				why = "interval"
			}
			rep.Violate("proxy:uses-active:contacted-ineligible:"+why, fmt.Sprintf("log %s is not eligible for certificate %s in list version %s (%s), but was sent the chain", c.Log, res.cert, v, why), replay)
		}
	}
}

func replayOne(t *testing.T, st *Static, rec *vh.Recorder, rep *vh.Report, idx int, b Behaviour) {
	gates := map[string]bool{}
	for _, g := range b.Gates {
		gates[g] = true
	}
	policy := submission.ChromeCTPolicy
	if idx%3 == 2 {
		policy = submission.AppleCTPolicy
	}
	var key []string
	deadlock := false
	func() {
		defer func() {
			if p := recover(); p != nil {
				if strings.Contains(fmt.Sprint(p), "deadlock") {
					deadlock = true
					if os.Getenv("VERIF_DEBUG") != "" {
						fmt.Println("synctest:", p)
					}
					return
				}
				panic(p)
			}
		}()
		synctest.Test(t, func(t *testing.T) {
			if len(b.Steps) == 0 || b.Steps[0].Op != "Init" {
				t.Fatalf("behaviour %d does not start with Init", idx)
			}
			r := startProxy(st, rec, b.Steps[0].V, gates, policy, unit, time.Duration(st.Cat.RootEvery)*unit, nil)
			w := r.w
			sync := func() {
				synctest.Wait()
				w.Emit(r.observe())
			}
			sync()
			cancelled := false
			nsub := 0
			for _, s := range b.Steps[1:] {
				switch s.Op {
				case "Publish":
					w.Publish(s.V)
				case "FailNext":
					w.FailNext()
				case "Advance":
					w.Emit(map[string]any{"ev": "Advance"})
					time.Sleep(unit)
				case "Cancel":
					if !cancelled {
						cancelled = true
						w.Emit(map[string]any{"ev": "Cancel"})
						r.cancel()
					}
				case "RelRead":
					w.readGate.release(1)
				case "RelBuild":
					w.buildGate.release(1)
				case "RelRoots":
					w.mu.Lock()
					g := w.rootGate[s.G]
					w.mu.Unlock()
					if g != nil {
						g.release(-1)
					}
				case "RelLog":
					w.mu.Lock()
					g := w.logGate[s.S]
					w.mu.Unlock()
					if g != nil {
						g.openForGood()
					}
				case "Submit":
					if old := r.subs[s.S]; old != nil && !old.done {
						continue // the schedule reuses an identity whose call is still held at a log: skip
					}
					if old := r.subs[s.S]; old != nil {
						r.judgeSubmission(old, rep, b)
					}
					nsub++
					r.submit(s.S, s.C, (nsub+idx)%2 == 0, rep)
				default:
					t.Fatalf("unknown step %q", s.Op)
				}
				sync()
			}
			// the end: let everything that is held go, look once more, then stop the proxy and free what it leaked
			w.readGate.openForGood()
			w.buildGate.openForGood()
			w.mu.Lock()
			w.gateRoots, w.gateLogs = false, false
			var gs []*gate
			for _, g := range w.rootGate {
				gs = append(gs, g)
			}
			for _, g := range w.logGate {
				gs = append(gs, g)
			}
			w.mu.Unlock()
			for _, g := range gs {
				g.openForGood()
			}
			sync()
			if !cancelled {
				w.Emit(map[string]any{"ev": "Cancel"})
				r.cancel()
				sync()
			}
			for _, res := range r.subs {
				r.judgeSubmission(res, rep, b)
			}
			// From here on the harness interferes (it empties the channels nobody reads any more), so nothing is
			// recorded.  A ticker goroutine blocked on a full channel after the loop has gone (named observation of
			// the specification: NoTickerLeak): drain until nothing refills.
			w.mu.Lock()
			w.rec = nil
			w.mu.Unlock()
			leaked := 0
			for k := 0; k < 20; k++ {
				n := 0
				for {
					select {
					case <-r.llm.LLUpdates:
						n++
						continue
					case <-r.llm.Errors:
						n++
						continue
					default:
					}
					break
				}
				synctest.Wait()
				if len(r.llm.LLUpdates)+len(r.llm.Errors) > 0 {
					leaked++
				} else if n == 0 {
					break
				}
			}
			if leaked > 0 {
				rep.Add("ticker-goroutine-blocked-after-cancel", 1)
			}
			for _, c := range r.subCtx {
				c()
			}
			r.wg.Wait()
			synctest.Wait()
			w.mu.Lock()
			nok, nfail := 0, 0
			for n := range w.buildVer {
				if w.buildOK[n] {
					nok++
				} else {
					nfail++
				}
			}
			notinit, served := 0, 0
			for _, res := range r.subs {
				if res.notInit {
					notinit++
				} else if res.done {
					served++
				}
			}
			dead := 0
			for _, n := range w.deadRounds {
				dead += n
			}
			key = []string{strings.Join(b.Gates, "+"), fmt.Sprintf("ok=%d", min(nok, 3)), fmt.Sprintf("fail=%d", min(nfail, 2)), fmt.Sprintf("init=%d/%v", r.trues, r.closed),
				fmt.Sprintf("cancelEarly=%v", cancelled), fmt.Sprintf("notinit=%v", notinit > 0), fmt.Sprintf("served=%v", served > 0), fmt.Sprintf("dead=%v", dead > 0), fmt.Sprintf("leak=%v", leaked > 0)}
			w.mu.Unlock()
		})
	}()
	if deadlock {
		rep.Violate("proxy:goroutine-stuck-at-exit", "after the context was cancelled, every gate opened and both channels drained, a goroutine of the proxy is still blocked", b)
	}
	rep.Eval(strings.Join(key, "/"))
}

func proxyStatic(t *testing.T) *Static {
	path := os.Getenv("VERIF_PROXY_CAT")
	if path == "" {
		t.Skip("VERIF_PROXY_CAT not set")
	}
	cat, err := loadCatalogue(path)
	if err != nil {
		t.Fatal(err)
	}
	st, err := buildStatic(cat)
	if err != nil {
		t.Fatal(err)
	}
	return st
}

// TestProxyReplay replays the behaviours of MCProxyLifecycleSim.tla.
func TestProxyReplay(t *testing.T) {
	st := proxyStatic(t)
	behs, err := vh.LoadNDJSON[Behaviour](os.Getenv("VERIF_PROXY_BEHS"))
	if err != nil {
		t.Fatal(err)
	}
	name, recheck := "c17-proxy", os.Getenv("VERIF_PROXY_RECHECK") != ""
	if recheck {
		name = "c17-proxy-race" // the same behaviours once more under the race detector: not counted as replayed again
	}
	rep := vh.NewReport(name, "behaviours simulated by TLC from ProxyLifecycle.tla (publications of good / unparsable / unbuildable list versions, transient read faults, refresh ticks, root-refresh ticks, releases of the gated list read / distributor build / get-roots / add-chain, submissions of three certificates, cancellation) replayed against the real Proxy + LogListManager + logListRefresherImpl under virtual time; after every step: GetTwoLatestLogLists, LastJSON, Init channel, channel occupancy recorded and validated by ProxyLifecycleTrace.tla together with every read, build, root refresh and log contact; NoneUntilInit / UsesActive / eligibility judged per submission; non-trivial = distinct (gates, #builds ok/failed, Init outcome, cancellation, not-initialized seen, served seen, dead root refresh seen, blocked ticker seen)")
	rec, err := vh.NewRecorder("proxy-traces.ndjson")
	if err != nil {
		t.Fatal(err)
	}
	for i, b := range behs {
		replayOne(t, st, rec, rep, i, b)
	}
	if err := rec.Close(); err != nil {
		t.Fatal(err)
	}
	if !recheck {
		rep.Replayed = len(behs)
		if len(behs) > 0 {
			rep.Sample(behs[0])
		}
	}
	if err := rep.Write(); err != nil {
		t.Fatal(err)
	}
}

// TestProxyConcurrent: ungated, randomized, concurrent.  Versions flip, roots refresh, logs answer with latencies and
// many callers submit; judged by monitors that only use the order of recorded events.
func TestProxyConcurrent(t *testing.T) {
	st := proxyStatic(t)
	rep := vh.NewReport("c17-proxy-concurrent", "ungated concurrent runs of the real proxy under virtual time and the race detector: 6 callers x AddChain / AddPreChain of three certificates while the published list flips between good, unparsable and unbuildable versions (with transient read faults), roots refresh and logs answer with random latencies; monitors: every contact of one call goes through clients of ONE distributor generation, that generation was built successfully before the first contact and is not older than the last generation proven installed before the call, contacted logs are usable and in the temporal window of that generation's list version, \"not initialized\" only while no installation is proven; non-trivial = distinct (rounds with swaps under load, outcome classes)")
	rounds := vh.EnvInt("VERIF_PROXY_ROUNDS", 6)
	var versions []string
	for v := range st.Cat.Versions {
		versions = append(versions, v)
	}
	sort.Strings(versions)
	certs := append([]string{}, certOrder...)
	for round := 0; round < rounds; round++ {
		rng := vh.Rand(int64(7000 + round))
		type call struct {
			id              string
			cert            string
			pre             bool
			startSeq, endSq int
			notInit         bool
			panicked        any
		}
		var calls []*call
		var w *World
		deadlock := false
		func() {
			defer func() {
				if p := recover(); p != nil {
					if strings.Contains(fmt.Sprint(p), "deadlock") {
						deadlock = true
						if os.Getenv("VERIF_DEBUG") != "" {
							buf := make([]byte, 1<<20)
							fmt.Println("synctest:", p, string(buf[:runtime.Stack(buf, true)]))
						}
						return
					}
					panic(p)
				}
			}()
			synctest.Test(t, func(t *testing.T) {
				policy := submission.ChromeCTPolicy
				if round%2 == 1 {
					policy = submission.AppleCTPolicy
				}
				var lmu sync.Mutex
				lrng := vh.Rand(int64(9000 + round))
				latency := func(kind string) time.Duration {
					lmu.Lock()
					defer lmu.Unlock()
					switch kind {
					case "add":
						return time.Duration(lrng.Intn(4000)) * time.Millisecond
					case "roots":
						return time.Duration(lrng.Intn(3000)) * time.Millisecond
					case "build":
						return time.Duration(lrng.Intn(2000)) * time.Millisecond
					}
					// no latency for the list read: Refresh holds updateMu across the read, and a goroutine waiting for
					// a mutex is not "durably blocked", so virtual time could never advance past a sleeping read while
					// another goroutine calls LastJSON
					return 0
				}
				r := startProxy(st, nil, versions[rng.Intn(len(versions))], map[string]bool{}, policy, 10*time.Second, 15*time.Second, latency)
				w = r.w
				var wg sync.WaitGroup
				var cmu sync.Mutex
				stop := make(chan struct{})
				wg.Add(1)
				go func() { // the publisher
					defer wg.Done()
					prng := vh.Rand(int64(8000 + round))
					for k := 0; k < 14; k++ {
						time.Sleep(time.Duration(3+prng.Intn(14)) * time.Second)
						if prng.Intn(6) == 0 {
							w.FailNext()
						} else {
							w.Publish(versions[prng.Intn(len(versions))])
						}
					}
					close(stop)
				}()
				for c := 0; c < 6; c++ {
					wg.Add(1)
					go func(c int) {
						defer wg.Done()
						crng := vh.Rand(int64(10000 + round*100 + c))
						for k := 0; ; k++ {
							select {
							case <-stop:
								return
							default:
							}
							time.Sleep(time.Duration(crng.Intn(5000)) * time.Millisecond)
							cl := &call{id: fmt.Sprintf("c%d-%d", c, k), cert: certs[crng.Intn(len(certs))], pre: crng.Intn(2) == 0}
							chain := st.Chains[cl.cert]
							if cl.pre {
								chain = st.Chains[cl.cert+"/pre"]
							}
							ctx, cancel := context.WithTimeout(context.WithValue(context.Background(), subKey, cl.id), 30*time.Second)
							w.mu.Lock()
							w.seq++
							cl.startSeq = w.seq
							w.mu.Unlock()
							var err error
							func() {
								defer func() {
									if p := recover(); p != nil {
										cl.panicked = p
									}
								}()
								if cl.pre {
									_, err = r.p.AddPreChain(ctx, chain, false)
								} else {
									_, err = r.p.AddChain(ctx, chain, false)
								}
							}()
							cancel()
							cl.notInit = err != nil && strings.Contains(err.Error(), "not initialized")
							w.mu.Lock()
							w.seq++
							cl.endSq = w.seq
							w.mu.Unlock()
							cmu.Lock()
							calls = append(calls, cl)
							cmu.Unlock()
						}
					}(c)
				}
				wg.Add(1)
				go func() { // readers of the manager's state
					defer wg.Done()
					for {
						select {
						case <-stop:
							return
						default:
						}
						time.Sleep(700 * time.Millisecond)
						a, b := r.llm.GetTwoLatestLogLists()
						if a == nil && b != nil {
							rep.Violate("proxy-concurrent:two-latest:previous-without-latest", "GetTwoLatestLogLists returned a previous list but no latest one", nil)
						}
						_ = r.llm.LastJSON()
					}
				}()
				wg.Wait()
				r.cancel()
				for k := 0; k < 20; k++ {
					// let the goroutines that sleep through a fake latency finish (once the root goroutine of the bubble
					// has returned, virtual time no longer advances for them)
					time.Sleep(5 * time.Second)
					synctest.Wait()
					n := 0
					for {
						select {
						case <-r.llm.LLUpdates:
							n++
							continue
						case <-r.llm.Errors:
							n++
							continue
						default:
						}
						break
					}
					if n == 0 && k > 0 {
						break
					}
				}
				r.pollInit()
				w.initialised = r.trues > 0
			})
		}()
		if deadlock {
			rep.Violate("proxy-concurrent:goroutine-stuck-at-exit", "after cancellation and draining a goroutine of the proxy is still blocked", nil)
			continue
		}
		// the monitors
		w.mu.Lock()
		byCall := map[string][]Contact{}
		for _, c := range w.contacts {
			byCall[c.Sub] = append(byCall[c.Sub], c)
		}
		okBuilds := 0
		for n := range w.buildVer {
			if w.buildOK[n] {
				okBuilds++
			}
		}
		// proven(seq): the newest successfully built generation whose installation is proven before seq - the loop has
		// started a later build, or some call already went through its clients
		proven := func(seq int) int {
			p := 0
			for n, ok := range w.buildOK {
				if !ok || n <= p {
					continue
				}
				for m, s := range w.startSeq {
					if m > n && s < seq {
						p = n
					}
				}
			}
			for _, c := range w.contacts {
				if c.Seq < seq && c.Gen > p {
					p = c.Gen
				}
			}
			return p
		}
		served, notinit, spanning := 0, 0, 0
		for _, cl := range calls {
			cs := byCall[cl.id]
			lo := proven(cl.startSeq)
			if cl.panicked != nil {
				rep.Violate("panic:Proxy.AddChain", fmt.Sprintf("Proxy.AddChain/AddPreChain panicked: %v", cl.panicked), nil)
				continue
			}
			if cl.notInit {
				notinit++
				if lo > 0 {
					rep.Violate("proxy-concurrent:none-until-init:not-initialized-after-swap", fmt.Sprintf("generation %d was provably installed before the call, which got the \"not initialized\" error", lo), nil)
				}
				if len(cs) > 0 {
					rep.Violate("proxy-concurrent:none-until-init:contacted", "a call answered \"not initialized\" reached a log", nil)
				}
				continue
			}
			if len(cs) == 0 {
				continue
			}
			served++
			g := cs[0].Gen
			for _, c := range cs {
				if c.Gen != g {
					rep.Violate("proxy-concurrent:uses-active:two-distributors", fmt.Sprintf("one call reached logs through clients of generations %d and %d", g, c.Gen), nil)
				}
				v := w.buildVer[c.Gen]
				if !st.eligible(v, c.Log, cl.cert, false) {
					rep.Violate("proxy-concurrent:uses-active:contacted-ineligible", fmt.Sprintf("log %s is not usable / not in the temporal window for certificate %s in list version %s", c.Log, cl.cert, v), nil)
				}
			}
			if !w.buildOK[g] || w.buildSeq[g] > cs[0].Seq {
				rep.Violate("proxy-concurrent:uses-active:unbuilt-distributor", fmt.Sprintf("generation %d was used before its build had succeeded", g), nil)
			}
			if g < lo {
				rep.Violate("proxy-concurrent:uses-active:stale-distributor", fmt.Sprintf("generation %d was provably installed before the call, which still used generation %d", lo, g), nil)
			}
			for n, s := range w.buildSeq {
				if w.buildOK[n] && n > g && s > cl.startSeq && s < cl.endSq {
					spanning++
					break
				}
			}
		}
		if w.initialised != (okBuilds > 0) {
			rep.Violate("proxy-concurrent:init-once", fmt.Sprintf("%d distributors were built successfully but Init delivered true=%v", okBuilds, w.initialised), nil)
		}
		w.mu.Unlock()
		rep.Eval(fmt.Sprintf("builds=%d/served=%v/notinit=%v/spanning=%v", min(okBuilds, 4), served > 0, notinit > 0, spanning > 0))
		rep.Add("calls", len(calls))
		rep.Add("calls-spanning-a-swap", spanning)
	}
	rep.Replayed = rounds
	if err := rep.Write(); err != nil {
		t.Fatal(err)
	}
}
