//go:build go1.25

package fixchain

import (
	"context"
	"encoding/json"
	"fmt"
	"math/rand"
	"net/http"
	"os"
	"path/filepath"
	"reflect"
	"runtime"
	"sort"
	"strings"
	"sync/atomic"
	"testing"
	"testing/synctest"

	"github.com/google/certificate-transparency-go/fixchain"
	"github.com/google/certificate-transparency-go/x509"

	"verifharness/pki"
	"verifharness/vh"
)

const (
	nFixers  = 2 // NW of the configurations
	nPosters = 2 // NP
)

// Obs is MCFixChainSim!Obs.
type Obs struct {
	Fetching map[string]int `json:"fetching"`
	Adding   [][]string     `json:"adding"`
	Reported []ErrRec       `json:"reported"`
	Cl       string         `json:"cl"`
	I        int            `json:"i"`
	Posted   [][]string     `json:"posted"`
	Fstarts  map[string]int `json:"fstarts"`
	Nadd     int            `json:"nadd"`
}

// Step is one record of an exported behaviour.
type Step struct {
	A     string    `json:"a"`
	World *WorldDef `json:"world"`
	I     int       `json:"i"`
	URL   string    `json:"url"`
	Chain []string  `json:"chain"`
	Pre   *Obs      `json:"pre"`
}

func doCall(fl *fixchain.FixAndLog, p *PKI, c Call) {
	chain := p.Chain(Given(c.Leaf, c.Kind))
	if c.Op == "all" {
		fl.QueueAllCertsInChain(chain)
	} else {
		fl.QueueChain(chain)
	}
}

// run is one FixAndLog with its caller.
type run struct {
	f        *Fakes
	fl       *fixchain.FixAndLog
	errs     chan *fixchain.FixError
	consumed chan struct{}
	inCall   atomic.Bool
	returned atomic.Int32 // calls that returned
	waiting  atomic.Bool
	waited   atomic.Bool
}

func newRun(p *PKI, w WorldDef, gated bool) *run {
	r := &run{f: NewFakes(p, w, gated), errs: make(chan *fixchain.FixError), consumed: make(chan struct{})}
	go r.f.Consume(r.errs, r.consumed)
	r.fl = fixchain.NewFixAndLog(context.Background(), nFixers, nPosters, r.errs, &http.Client{Transport: r.f}, r.f, r.f, false)
	return r
}

func (r *run) call(i int) {
	r.inCall.Store(true)
	go func() {
		doCall(r.fl, r.f.P, r.f.W.Prog[i])
		r.returned.Add(1)
		r.inCall.Store(false)
	}()
}

func (r *run) wait() {
	r.waiting.Store(true)
	go func() {
		r.fl.Wait()
		r.waited.Store(true)
	}()
}

func (r *run) client() string {
	switch {
	case r.waited.Load():
		return "done"
	case r.waiting.Load():
		return "waiting"
	case r.inCall.Load():
		return "incall"
	}
	return "idle"
}

func modelClient(pc string) string {
	switch pc {
	case "offer":
		return "incall"
	case "waitfix", "waitfwd", "waitpost":
		return "waiting"
	}
	return pc
}

func bagOf(errs []ErrRec) map[string]int {
	m := map[string]int{}
	for _, e := range errs {
		if e.Given == nil {
			e.Given = []string{}
		}
		if e.Chain == nil {
			e.Chain = []string{}
		}
		m[e.key()]++
	}
	return m
}

func setOf(chs [][]string) map[string]int {
	m := map[string]int{}
	for _, c := range chs {
		m[chainKey(c)]++
	}
	return m
}

// compare tells how the real package at rest differs from the model's state at rest ("" = it does not).
func compare(r *run, o *Obs) (fp, what string) {
	fstarts, adds, posted, errs := r.f.Snapshot()
	pend := r.f.Pending("fetch")
	for _, u := range []string{"uI1", "uI2", "uJ1", "uX1"} {
		if fstarts[u] != o.Fstarts[u] {
			return fmt.Sprintf("replay:fetches:%s:model=%d:real=%d", u, o.Fstarts[u], fstarts[u]),
				fmt.Sprintf("URL %s was fetched %d times, the specification says %d", u, fstarts[u], o.Fstarts[u])
		}
		if pend[u] != o.Fetching[u] {
			return fmt.Sprintf("replay:fetching:%s:model=%d:real=%d", u, o.Fetching[u], pend[u]),
				fmt.Sprintf("%d requests for %s are in flight, the specification says %d", pend[u], u, o.Fetching[u])
		}
	}
	for u := range fstarts {
		if _, ok := o.Fstarts[u]; !ok {
			return "replay:fetches:unknown-url", "a URL no certificate names was fetched: " + u
		}
	}
	mb, rb := bagOf(o.Reported), bagOf(errs)
	for k, n := range mb {
		if rb[k] < n {
			return "replay:error:missing:" + strings.SplitN(k, "|", 2)[0], "an error the specification reports was not reported (type|cert|given|url|chain): " + k
		}
	}
	for k, n := range rb {
		if mb[k] < n {
			return "replay:error:unexpected:" + strings.SplitN(k, "|", 2)[0], "an error was reported that the specification does not report (type|cert|given|url|chain): " + k
		}
	}
	if len(adds) != o.Nadd {
		return fmt.Sprintf("replay:addchain:calls:model=%d:real=%d", o.Nadd, len(adds)),
			fmt.Sprintf("add-chain was called %d times (%v), the specification says %d", len(adds), adds, o.Nadd)
	}
	ma, ra := setOf(o.Adding), r.f.Pending("add")
	if !reflect.DeepEqual(ma, ra) && (len(ma) > 0 || len(ra) > 0) {
		return "replay:addchain:inflight:" + strings.Join(sortedKeys(ra), ","), fmt.Sprintf("add-chain in flight for %v, the specification says %v", ra, ma)
	}
	mp, rp := setOf(o.Posted), setOf(posted)
	if !reflect.DeepEqual(mp, rp) && (len(mp) > 0 || len(rp) > 0) {
		return "replay:posted:" + strings.Join(sortedKeys(rp), ","), fmt.Sprintf("the log holds %v, the specification says %v", rp, mp)
	}
	if mc, rc := modelClient(o.Cl), r.client(); mc != rc {
		return fmt.Sprintf("replay:caller:model=%s:real=%s", mc, rc), fmt.Sprintf("the caller is %s, the specification says %s (%s)", rc, mc, o.Cl)
	}
	if int(r.returned.Load())+1 != o.I && o.Cl != "done" && !strings.HasPrefix(o.Cl, "wait") {
		return fmt.Sprintf("replay:caller:calls-returned:model=%d:real=%d", o.I-1, r.returned.Load()), "number of calls that have returned"
	}
	return "", ""
}

// laws that need no model state: what reached the log
func postedLaws(r *run, rep *vh.Report, replay any) {
	_, adds, _, _ := r.f.Snapshot()
	seen := map[string]bool{}
	for _, a := range adds {
		k := chainKey(a)
		if seen[k] {
			rep.Violate("law:ChainTriedOnce:"+a[0], fmt.Sprintf("add-chain was called twice with the chain %v", a), replay)
		}
		seen[k] = true
		var ders [][]byte
		for _, n := range a {
			if node, ok := r.f.P.Node[n]; ok {
				ders = append(ders, node.DER)
			} else {
				rep.Violate("law:FixedChainsValid:unknown-certificate", fmt.Sprintf("a certificate nobody issued was posted: %v", a), replay)
				return
			}
		}
		if why := r.f.P.VerifyPosted(ders); why != "" {
			rep.Violate("law:FixedChainsValid:"+a[0], fmt.Sprintf("the chain %v given to add-chain is not a chain to the accepted root: %s", a, why), replay)
		}
	}
}

// finish drives the run to its end whatever state it is in (so that no goroutine of the package is left at a gate).
func finish(r *run) (stuck bool) {
	for n := 0; n < 10000; n++ {
		synctest.Wait()
		if r.f.ReleaseAny() {
			continue
		}
		if r.waited.Load() {
			return false
		}
		if r.inCall.Load() || r.waiting.Load() {
			return true // nothing is held at a gate and the caller is still inside the package
		}
		if i := int(r.returned.Load()); i < len(r.f.W.Prog) {
			r.call(i)
			continue
		}
		r.wait()
	}
	return true
}

func TestReplay(t *testing.T) {
	rep := vh.NewReport("x01-replay", "TLC behaviours of MCFixChainSim (random worlds, random schedules of calls / URL answers / log answers; the "+
		"package runs until nothing moves between two of them) are reproduced on a real fixchain.FixAndLog inside a synctest bubble with a gated "+
		"RoundTripper and a gated log client; at every point of rest the requests in flight, the fetch counts per URL, the errors reported, the "+
		"add-chain calls in flight, the chains the log holds and the caller's state are compared with the model's; every chain given to add-chain is "+
		"verified with the standard library")
	defer func() {
		if err := rep.Write(); err != nil {
			t.Fatal(err)
		}
	}()
	path := os.Getenv("VERIF_BEHAVIOURS")
	if path == "" {
		t.Skip("VERIF_BEHAVIOURS not set")
	}
	behs, err := vh.LoadNDJSON[[]Step](path)
	if err != nil {
		t.Fatal(err)
	}
	p := NewPKI()
	for idx, b := range behs {
		replayOne(t, p, rep, idx, b)
	}
	rep.Replayed = len(behs)
}

func replayOne(t *testing.T, p *PKI, rep *vh.Report, idx int, b []Step) {
	if len(b) < 2 || b[0].A != "World" || b[0].World == nil {
		t.Fatalf("behaviour %d does not start with its world", idx)
	}
	w := *b[0].World
	replay := map[string]any{"behaviour": b}
	leaked := false
	func() {
		defer func() {
			if x := recover(); x != nil {
				// the post workers of a Logger never end (logger.go, postServer): the bubble is left with them blocked
				if strings.Contains(fmt.Sprint(x), "deadlock: main bubble goroutine has exited") {
					leaked = true
					return
				}
				panic(x)
			}
		}()
		synctest.Test(t, func(t *testing.T) {
			r := newRun(p, w, true)
			key := ""
			ok := true
			for si, s := range b[1:] {
				synctest.Wait()
				if s.Pre == nil {
					t.Fatalf("behaviour %d step %d has no observation", idx, si+1)
				}
				if s.A == "Abort" {
					break // from here on the scheduler decides; the run is finished below and only the laws on what reached the log are judged
				}
				if fp, what := compare(r, s.Pre); fp != "" {
					rep.Violate(fp, fmt.Sprintf("behaviour %d, at rest before step %d (%s): %s", idx, si+1, s.A, what),
						map[string]any{"behaviour": b, "step": si + 1})
					ok = false
					break
				}
				rep.Eval("")
				switch s.A {
				case "call":
					r.call(s.I - 1)
					key += "c"
				case "wait":
					r.wait()
					key += "w"
				case "fetch":
					if !r.f.Release("fetch", s.URL) {
						t.Fatalf("behaviour %d step %d: nothing to release for %s", idx, si+1, s.URL)
					}
					key += "f"
				case "add":
					if !r.f.Release("add", chainKey(s.Chain)) {
						t.Fatalf("behaviour %d step %d: nothing to release for %v", idx, si+1, s.Chain)
					}
					key += "a"
				case "End":
					// L7: after Wait nothing moves
					n := len(r.f.Events())
					synctest.Wait()
					if len(r.f.Events()) != n || len(r.f.pending) != 0 {
						rep.Violate("law:AfterDoneNothing", "something crossed a boundary of the package after Wait had returned", replay)
					}
				case "Stuck":
					t.Fatalf("behaviour %d: the model came to rest before Wait returned", idx)
				default:
					t.Fatalf("behaviour %d step %d: unknown step %q", idx, si+1, s.A)
				}
			}
			if finish(r) && ok {
				rep.Violate("law:WaitReturns:"+r.client(), fmt.Sprintf("behaviour %d: nothing is held at a gate, nothing moves and the caller is still %s", idx, r.client()), replay)
			}
			postedLaws(r, rep, replay)
			if r.waited.Load() {
				close(r.errs)
			}
			if r.f.roots != 1 {
				rep.Add("roots-fetched-not-once", 1)
			}
			rep.Eval(fmt.Sprintf("%v|%v|%v|%s", w.Prog, w.Serve, w.LogBad, key))
			if idx < 2 {
				rep.Sample(map[string]any{"world": w, "steps": key})
			}
		})
	}()
	_ = leaked
}

// TestTrace lets real goroutines run free (race detector on) and records what crosses the boundaries; the driver
// gives the traces to FixChainTrace.tla.
func TestTrace(t *testing.T) {
	rep := vh.NewReport("x01-trace", "free-running FixAndLog (2 fixer workers, 2 post workers, random worlds chosen by the harness, random yields at the "+
		"boundaries, race detector on): the events at the fake RoundTripper / log client / error channel / caller are validated line by line by "+
		"FixChainTrace.tla; every chain given to add-chain is verified with the standard library")
	defer func() {
		if err := rep.Write(); err != nil {
			t.Fatal(err)
		}
	}()
	n := vh.EnvInt("VERIF_TRACES", 40)
	rng := vh.Rand(101)
	p := NewPKI()
	out, err := os.Create(filepath.Join(vh.OutDir(), "traces.ndjson"))
	if err != nil {
		t.Fatal(err)
	}
	defer out.Close()
	enc := json.NewEncoder(out)
	leafs := []string{"La", "Lb", "Lc", "Lx", "I1"}
	kinds := []string{"full", "bare", "swap", "gap", "short", "extra", "dup"}
	outcomes := []string{"ok", "ok", "ok", "ok", "wrong", "garbage", "status", "err"}
	for k := 0; k < n; k++ {
		w := WorldDef{Serve: map[string]string{}, LogBad: []string{}}
		for i, m := 0, 2+rng.Intn(3); i < m; i++ {
			op := "chain"
			if rng.Intn(4) == 0 {
				op = "all"
			}
			w.Prog = append(w.Prog, Call{Op: op, Leaf: leafs[rng.Intn(len(leafs))], Kind: kinds[rng.Intn(len(kinds))]})
		}
		for _, u := range []string{"uI1", "uI2", "uJ1", "uX1"} {
			w.Serve[u] = outcomes[rng.Intn(len(outcomes))]
		}
		if rng.Intn(3) == 0 {
			w.LogBad = append(w.LogBad, []string{"La", "Lb", "Lc", "I1"}[rng.Intn(4)])
		}
		r := newRun(p, w, false)
		yr := rand.New(rand.NewSource(rng.Int63()))
		var ymu atomic.Int64
		ymu.Store(yr.Int63())
		r.f.Yield = func() {
			// a cheap per-call pseudo-random number of yields (no shared PRNG state to lock)
			x := ymu.Add(0x9E3779B97F4A7C15 >> 1)
			for i := int64(0); i < (x>>7)&3; i++ {
				runtime.Gosched()
			}
		}
		for i := range w.Prog {
			r.f.Note(Event{"ev": "call", "i": i + 1})
			doCall(r.fl, p, w.Prog[i])
			r.f.Note(Event{"ev": "ret", "i": i + 1})
		}
		r.f.Note(Event{"ev": "wait"})
		r.fl.Wait()
		r.f.Note(Event{"ev": "waitret"})
		close(r.errs)
		<-r.consumed
		r.f.Note(Event{"ev": "End"})
		replay := map[string]any{"world": w, "events": r.f.Events()}
		postedLaws(r, rep, replay)
		if err := enc.Encode(Event{"ev": "Reset", "prog": w.Prog, "serve": w.Serve, "logbad": w.LogBad}); err != nil {
			t.Fatal(err)
		}
		for _, ev := range r.f.Events() {
			if err := enc.Encode(ev); err != nil {
				t.Fatal(err)
			}
		}
		rep.Eval(fmt.Sprintf("%v|%v|%v", w.Prog, w.Serve, w.LogBad))
		if k < 2 {
			rep.Sample(map[string]any{"world": w, "events": len(r.f.Events())})
		}
	}
}

// twins issues two different certificates (different issuers, different keys, different names inside) that agree
// in their length, serial number and signature algorithm.
func twins() (a, b *pki.Node) {
	ra := pki.NewRoot(pki.Opts{CN: "X01 twin root A", Serial: 7})
	rb := pki.NewRoot(pki.Opts{CN: "X01 twin root B", Serial: 7})
	for i := 0; i < 200; i++ {
		a = ra.Issue(pki.Opts{CN: "a.twin.x01.test", Serial: 5})
		b = rb.Issue(pki.Opts{CN: "b.twin.x01.test", Serial: 5})
		if len(a.DER) == len(b.DER) && len(a.Cert.RawTBSCertificate) == len(b.Cert.RawTBSCertificate) {
			return a, b
		}
	}
	panic("no twins")
}

// TestIdentity: logger.go, IsPosted: "IsPosted tells the caller whether a chain for the given certificate has
// already been successfully posted to the log by this Logger" - for a certificate that is not the posted one.
func TestIdentity(t *testing.T) {
	rep := vh.NewReport("x01-identity", "IsPostedSound for distinct certificates that agree in length, serial number and signature algorithm "+
		"(different issuers, keys and subjects): after a chain for one was posted, IsPosted of the other is false and its chain reaches the log")
	defer func() {
		if err := rep.Write(); err != nil {
			t.Fatal(err)
		}
	}()
	a, b := twins()
	p := &PKI{Node: map[string]*pki.Node{"A": a, "RA": a.Parent, "B": b, "RB": b.Parent, "R": a.Parent}, Cert: map[string]*x509.Certificate{},
		names: map[string]string{}, urls: map[string]string{}}
	for n, node := range p.Node {
		c, err := x509.ParseCertificate(node.DER)
		if err != nil {
			t.Fatal(err)
		}
		p.Cert[n] = c
		if n != "R" {
			p.names[string(node.DER)] = n
		}
	}
	f := NewFakes(p, WorldDef{}, false)
	errs := make(chan *fixchain.FixError)
	consumed := make(chan struct{})
	go f.Consume(errs, consumed)
	l := fixchain.NewLogger(context.Background(), 1, errs, f, f, false)
	if l.IsPosted(p.Cert["A"]) || l.IsPosted(p.Cert["B"]) {
		rep.Violate("identity:isposted-true-before-any-post", "IsPosted is true on a new Logger", nil)
	}
	l.QueueChain(p.Chain([]string{"A", "RA"}))
	l.Wait()
	replay := map[string]any{"a": a.DER, "b": b.DER, "issuer_a": a.Parent.DER, "issuer_b": b.Parent.DER}
	rep.Eval("posted-a")
	if !l.IsPosted(p.Cert["A"]) {
		rep.Violate("identity:isposted-false-for-posted-certificate", "IsPosted is false for the certificate whose chain the log has just accepted", replay)
	}
	if l.IsPosted(p.Cert["B"]) {
		rep.Violate("identity:isposted-true-for-unposted-certificate",
			"IsPosted is true for a certificate no chain of which was ever posted: it differs from the posted one in issuer, subject, key and signature, "+
				"and agrees with it in the first 32 bytes of the encoding (lengths, version, serial number, signature algorithm)", replay)
	}
	l.QueueChain(p.Chain([]string{"B", "RB"}))
	l.Wait()
	rep.Eval("queued-b")
	_, adds, _, _ := f.Snapshot()
	got := false
	for _, c := range adds {
		if len(c) > 0 && c[0] == "B" {
			got = true
		}
	}
	if !got {
		rep.Violate("identity:chain-of-distinct-certificate-not-posted",
			fmt.Sprintf("the chain of the second certificate never reached the log and no error was reported (add-chain calls: %v)", adds), replay)
	}
	close(errs)
	<-consumed
	sort.Strings(nil)
}

// TestAliasing: hash.go computes its digests with `newHash().Sum(c.Raw)`, which APPENDS to c.Raw.  Where the
// certificate's encoding has spare capacity behind it (certificates parsed out of one buffer, a cached HTTP body),
// asking whether a certificate is posted writes 32 bytes behind it: into the next certificate of the caller's
// buffer, or - from several workers at once, unsynchronised - into the spare room of a shared cached body.
func TestAliasing(t *testing.T) {
	rep := vh.NewReport("x01-aliasing", "calling Logger.IsPosted(c) leaves the bytes behind c.Raw in the caller's buffer as they were "+
		"(two certificates parsed out of one buffer with x509.ParseCertificates)")
	defer func() {
		if err := rep.Write(); err != nil {
			t.Fatal(err)
		}
	}()
	p := NewPKI()
	buf := append(append([]byte{}, p.Node["La"].DER...), p.Node["I1"].DER...)
	certs, err := x509.ParseCertificates(buf)
	if err != nil || len(certs) != 2 {
		t.Fatalf("ParseCertificates: %v", err)
	}
	want := append([]byte{}, p.Node["I1"].DER...)
	f := NewFakes(p, WorldDef{}, false)
	errs := make(chan *fixchain.FixError)
	l := fixchain.NewLogger(context.Background(), 1, errs, f, f, false)
	_ = l.IsPosted(certs[0])
	rep.Eval("isposted")
	if string(certs[1].Raw) != string(want) {
		n := 0
		for i := range want {
			if certs[1].Raw[i] != want[i] {
				n++
			}
		}
		rep.Violate("hash:sum-appends-into-certificate-raw",
			fmt.Sprintf("Logger.IsPosted(first certificate) changed %d bytes of the second certificate of the same buffer (hash.go: "+
				"newHash().Sum(c.Raw) appends the digest of nothing to c.Raw and takes the first 32 bytes of the certificate for its hash)", n),
			map[string]any{"buffer": buf})
	}
}
