//go:build go1.25

// Package fixchain binds spec/fixchain/FixChain.tla to the real package
// github.com/google/certificate-transparency-go/fixchain: real DER certificates with AIA extensions (harness/pki),
// a fake http.RoundTripper and a fake log client that can be gated, a recorder of what crosses those boundaries.
package fixchain

import (
	"bytes"
	"context"
	stdx509 "crypto/x509"
	"crypto/x509/pkix"
	"encoding/asn1"
	"errors"
	"fmt"
	"io"
	"net/http"
	"sort"
	"sync"

	ct "github.com/google/certificate-transparency-go"
	"github.com/google/certificate-transparency-go/fixchain"
	"github.com/google/certificate-transparency-go/x509"

	"verifharness/pki"
)

var (
	oidAIA       = asn1.ObjectIdentifier{1, 3, 6, 1, 5, 5, 7, 1, 1}
	oidCAIssuers = asn1.ObjectIdentifier{1, 3, 6, 1, 5, 5, 7, 48, 2}
)

type accessDescription struct {
	Method   asn1.ObjectIdentifier
	Location asn1.RawValue
}

// aia is the authority information access extension with one "CA issuers" URL (RFC 5280 4.2.2.1).
func aia(url string) []pkix.Extension {
	v, err := asn1.Marshal([]accessDescription{{Method: oidCAIssuers, Location: asn1.RawValue{Class: 2, Tag: 6, Bytes: []byte(url)}}})
	if err != nil {
		panic(err)
	}
	return []pkix.Extension{{Id: oidAIA, Value: v}}
}

// the names of FixChain.tla
var urlOf = map[string]string{
	"uI1": "http://aia.test/ca/I1.cer", "uI2": "http://aia.test/ca/I2.cer",
	"uJ1": "http://aia.test/ca/J1.cer", "uX1": "http://aia.test/ca/X1.cer",
}
var rightOf = map[string]string{"uI1": "I1", "uI2": "I2", "uJ1": "J1", "uX1": "X1"}
var wrongOf = map[string]string{"uI1": "J1", "uI2": "X1", "uJ1": "I1", "uX1": "J1"}
var ancOf = map[string][]string{"La": {"I1", "I2"}, "Lb": {"I1", "I2"}, "I1": {"I2"}, "Lc": {"J1"}, "Lx": {"X1"}}

// PKI is the hierarchy of FixChain.tla in real certificates.
type PKI struct {
	Node  map[string]*pki.Node
	Cert  map[string]*x509.Certificate // as parsed by the repository's x509
	names map[string]string            // DER -> name
	urls  map[string]string            // URL -> name of the URL
}

// NewPKI issues  R -> I2 -> I1 -> La, Lb ;  R -> J1 -> Lc ;  RX -> X1 -> Lx  (RX is not given to the log).
func NewPKI() *PKI {
	p := &PKI{Node: map[string]*pki.Node{}, Cert: map[string]*x509.Certificate{}, names: map[string]string{}, urls: map[string]string{}}
	r := pki.NewRoot(pki.Opts{CN: "X01 root R"})
	rx := pki.NewRoot(pki.Opts{CN: "X01 root RX"})
	i2 := r.Issue(pki.Opts{CN: "X01 CA I2", IsCA: true})
	i1 := i2.Issue(pki.Opts{CN: "X01 CA I1", IsCA: true, Extra: aia(urlOf["uI2"])})
	j1 := r.Issue(pki.Opts{CN: "X01 CA J1", IsCA: true})
	x1 := rx.Issue(pki.Opts{CN: "X01 CA X1", IsCA: true})
	p.Node["R"], p.Node["RX"], p.Node["I2"], p.Node["I1"], p.Node["J1"], p.Node["X1"] = r, rx, i2, i1, j1, x1
	p.Node["La"] = i1.Issue(pki.Opts{CN: "la.x01.test", DNS: []string{"la.x01.test"}, Extra: aia(urlOf["uI1"])})
	p.Node["Lb"] = i1.Issue(pki.Opts{CN: "lb.x01.test", DNS: []string{"lb.x01.test"}, Extra: aia(urlOf["uI1"])})
	p.Node["Lc"] = j1.Issue(pki.Opts{CN: "lc.x01.test", DNS: []string{"lc.x01.test"}, Extra: aia(urlOf["uJ1"])})
	p.Node["Lx"] = x1.Issue(pki.Opts{CN: "lx.x01.test", DNS: []string{"lx.x01.test"}, Extra: aia(urlOf["uX1"])})
	for n, node := range p.Node {
		c, err := x509.ParseCertificate(node.DER)
		if err != nil {
			panic(fmt.Sprintf("x509 fork refuses %s: %v", n, err))
		}
		p.Cert[n] = c
		p.names[string(node.DER)] = n
	}
	for n, u := range urlOf {
		p.urls[u] = n
	}
	// the AIA extensions must have come out as the specification says
	for n, want := range map[string]string{"La": "uI1", "Lb": "uI1", "I1": "uI2", "Lc": "uJ1", "Lx": "uX1"} {
		if got := p.Cert[n].IssuingCertificateURL; len(got) != 1 || got[0] != urlOf[want] {
			panic(fmt.Sprintf("AIA of %s: %v", n, got))
		}
	}
	return p
}

// Name gives the specification's name of a certificate ("?" + length for one that is none of them).
func (p *PKI) Name(der []byte) string {
	if n, ok := p.names[string(der)]; ok {
		return n
	}
	return fmt.Sprintf("?%d", len(der))
}

// Names of a parsed chain.
func (p *PKI) Names(chain []*x509.Certificate) []string {
	out := make([]string, 0, len(chain))
	for _, c := range chain {
		out = append(out, p.Name(c.Raw))
	}
	return out
}

// Chain turns names into the repository's certificates.
func (p *PKI) Chain(names []string) []*x509.Certificate {
	out := make([]*x509.Certificate, 0, len(names))
	for _, n := range names {
		out = append(out, p.Cert[n])
	}
	return out
}

// Call is one call of the caller (FixChain.tla: [op, leaf, kind]).
type Call struct {
	Op   string `json:"op"`
	Leaf string `json:"leaf"`
	Kind string `json:"kind"`
}

// Given is Given(c, kind) of FixChain.tla.
func Given(c, kind string) []string {
	anc := ancOf[c]
	rev := make([]string, len(anc))
	for i, a := range anc {
		rev[len(anc)-1-i] = a
	}
	out := []string{c}
	switch kind {
	case "full":
		out = append(out, anc...)
	case "bare":
	case "swap":
		out = append(out, rev...)
	case "gap":
		if len(anc) > 0 {
			out = append(out, anc[1:]...)
		}
	case "short":
		if len(anc) > 0 {
			out = append(out, anc[:len(anc)-1]...)
		}
	case "extra":
		out = append(append(out, anc...), "X1")
	case "dup":
		out = append(append(out, anc...), anc...)
	default:
		panic("kind " + kind)
	}
	return out
}

// WorldDef is the `world` of FixChain.tla.
type WorldDef struct {
	Prog   []Call            `json:"prog"`
	Serve  map[string]string `json:"serve"`
	LogBad []string          `json:"logbad"`
}

// Event is what crossed a boundary of the package.
type Event map[string]any

// ticket is a goroutine of the package held at a boundary.
type ticket struct {
	kind    string // fetch | add
	key     string // URL name | chain key
	release chan struct{}
}

// Fakes are the boundaries of one FixAndLog: the HTTP transport, the log client, the limiter, the error channel.
type Fakes struct {
	P     *PKI
	W     WorldDef
	Gated bool
	Yield func() // free-running: called at every boundary to shake the schedule

	mu      sync.Mutex
	events  []Event
	pending []*ticket
	fstarts map[string]int
	adds    [][]string // chains add-chain was called with
	posted  [][]string // chains the log accepted
	errs    []ErrRec
	roots   int
	limiter int
}

// ErrRec is a FixError in the specification's terms.
type ErrRec struct {
	T     string   `json:"t"`
	Cert  string   `json:"cert"`
	Given []string `json:"given"`
	URL   string   `json:"url"`
	Chain []string `json:"chain"`
}

func (e ErrRec) key() string { return fmt.Sprintf("%s|%s|%v|%s|%v", e.T, e.Cert, e.Given, e.URL, e.Chain) }

func (f *Fakes) rec(ev Event) {
	f.events = append(f.events, ev)
}

func (f *Fakes) hold(kind, key string) {
	if !f.Gated {
		if f.Yield != nil {
			f.Yield()
		}
		return
	}
	t := &ticket{kind: kind, key: key, release: make(chan struct{})}
	f.mu.Lock()
	f.pending = append(f.pending, t)
	f.mu.Unlock()
	<-t.release
}

// Release lets the oldest held goroutine of (kind, key) go on; false if there is none.
func (f *Fakes) Release(kind, key string) bool {
	f.mu.Lock()
	defer f.mu.Unlock()
	for i, t := range f.pending {
		if t.kind == kind && t.key == key {
			f.pending = append(f.pending[:i:i], f.pending[i+1:]...)
			close(t.release)
			return true
		}
	}
	return false
}

// ReleaseAny lets the oldest held goroutine go on.
func (f *Fakes) ReleaseAny() bool {
	f.mu.Lock()
	defer f.mu.Unlock()
	if len(f.pending) == 0 {
		return false
	}
	t := f.pending[0]
	f.pending = f.pending[1:]
	close(t.release)
	return true
}

// Pending counts the held goroutines per key.
func (f *Fakes) Pending(kind string) map[string]int {
	f.mu.Lock()
	defer f.mu.Unlock()
	out := map[string]int{}
	for _, t := range f.pending {
		if t.kind == kind {
			out[t.key]++
		}
	}
	return out
}

type body struct {
	*bytes.Reader
}

func (body) Close() error { return nil }

// RoundTrip implements http.RoundTripper: the URL answers what world.serve says.
func (f *Fakes) RoundTrip(req *http.Request) (*http.Response, error) {
	full := req.URL.String()
	u, ok := f.P.urls[full]
	if !ok {
		u = "?" + full
	}
	f.mu.Lock()
	f.fstarts[u]++
	f.rec(Event{"ev": "fstart", "url": u})
	f.mu.Unlock()
	f.hold("fetch", u)
	o := f.W.Serve[u]
	if !ok {
		o = "status"
	}
	f.mu.Lock()
	f.rec(Event{"ev": "fdone", "url": u, "o": o})
	f.mu.Unlock()
	resp := func(code int, b []byte) (*http.Response, error) {
		return &http.Response{StatusCode: code, Status: fmt.Sprintf("%d", code), Proto: "HTTP/1.1", ProtoMajor: 1, ProtoMinor: 1,
			Header: http.Header{}, Body: body{bytes.NewReader(b)}, ContentLength: int64(len(b)), Request: req}, nil
	}
	switch o {
	case "ok":
		return resp(200, f.P.Node[rightOf[u]].DER)
	case "wrong":
		return resp(200, f.P.Node[wrongOf[u]].DER)
	case "garbage":
		return resp(200, []byte("<html>this is not a certificate</html>"))
	case "status":
		return resp(404, []byte("not found"))
	default:
		return nil, errors.New("x01: connection refused")
	}
}

func chainKey(names []string) string { return fmt.Sprint(names) }

// AddChain implements client.AddLogClient: the log refuses the leaves of world.logbad.
func (f *Fakes) AddChain(ctx context.Context, chain []ct.ASN1Cert) (*ct.SignedCertificateTimestamp, error) {
	names := make([]string, 0, len(chain))
	for _, c := range chain {
		names = append(names, f.P.Name(c.Data))
	}
	f.mu.Lock()
	f.adds = append(f.adds, names)
	f.rec(Event{"ev": "astart", "chain": names})
	f.mu.Unlock()
	f.hold("add", chainKey(names))
	bad := false
	for _, b := range f.W.LogBad {
		if len(names) > 0 && names[0] == b {
			bad = true
		}
	}
	f.mu.Lock()
	defer f.mu.Unlock()
	f.rec(Event{"ev": "adone", "chain": names, "ok": !bad})
	if bad {
		return nil, errors.New("x01: the log refuses this chain")
	}
	f.posted = append(f.posted, names)
	return &ct.SignedCertificateTimestamp{}, nil
}

// AddPreChain is not used by the package.
func (f *Fakes) AddPreChain(ctx context.Context, chain []ct.ASN1Cert) (*ct.SignedCertificateTimestamp, error) {
	return nil, errors.New("x01: add-pre-chain called")
}

// GetAcceptedRoots: the log accepts R.
func (f *Fakes) GetAcceptedRoots(ctx context.Context) ([]ct.ASN1Cert, error) {
	f.mu.Lock()
	f.roots++
	f.mu.Unlock()
	return []ct.ASN1Cert{{Data: f.P.Node["R"].DER}}, nil
}

// Wait implements fixchain.Limiter.
func (f *Fakes) Wait(context.Context) error {
	f.mu.Lock()
	f.limiter++
	f.mu.Unlock()
	if !f.Gated && f.Yield != nil {
		f.Yield()
	}
	return nil
}

// ErrOf turns a FixError into the specification's terms.
func (f *Fakes) ErrOf(e *fixchain.FixError) ErrRec {
	r := ErrRec{T: e.TypeString(), Cert: "none", URL: "none", Given: []string{}, Chain: []string{}}
	if e.Cert != nil {
		r.Cert = f.P.Name(e.Cert.Raw)
	}
	if e.URL != "" {
		if n, ok := f.P.urls[e.URL]; ok {
			r.URL = n
		} else {
			r.URL = "?" + e.URL
		}
	}
	if e.Type == fixchain.LogPostFailed {
		r.Chain = f.P.Names(e.Chain)
	} else {
		r.Given = f.P.Names(e.Chain)
	}
	return r
}

// Consume receives the error channel until it is closed.
func (f *Fakes) Consume(ch <-chan *fixchain.FixError, done chan<- struct{}) {
	for e := range ch {
		r := f.ErrOf(e)
		f.mu.Lock()
		f.errs = append(f.errs, r)
		f.rec(Event{"ev": "err", "t": r.T, "cert": r.Cert, "given": r.Given, "url": r.URL, "chain": r.Chain})
		f.mu.Unlock()
	}
	close(done)
}

// Note records an event of the caller.
func (f *Fakes) Note(ev Event) {
	f.mu.Lock()
	f.rec(ev)
	f.mu.Unlock()
}

// NewFakes creates the boundaries for one world.
func NewFakes(p *PKI, w WorldDef, gated bool) *Fakes {
	return &Fakes{P: p, W: w, Gated: gated, fstarts: map[string]int{}}
}

// Snapshot copies what was seen so far.
func (f *Fakes) Snapshot() (fstarts map[string]int, adds, posted [][]string, errs []ErrRec) {
	f.mu.Lock()
	defer f.mu.Unlock()
	fstarts = map[string]int{}
	for k, v := range f.fstarts {
		fstarts[k] = v
	}
	adds = append(adds, f.adds...)
	posted = append(posted, f.posted...)
	errs = append(errs, f.errs...)
	return
}

// Events copies the recorded events.
func (f *Fakes) Events() []Event {
	f.mu.Lock()
	defer f.mu.Unlock()
	return append([]Event{}, f.events...)
}

// VerifyPosted checks a chain given to add-chain with the standard library only: it begins with the leaf, every
// certificate is signed by the next one, it ends in the root the log accepts.  "" = fine.
func (p *PKI) VerifyPosted(ders [][]byte) string {
	if len(ders) == 0 {
		return "empty chain"
	}
	certs := make([]*stdx509.Certificate, 0, len(ders))
	for _, d := range ders {
		c, err := stdx509.ParseCertificate(d)
		if err != nil {
			return "unparsable certificate: " + err.Error()
		}
		certs = append(certs, c)
	}
	for i := 0; i+1 < len(certs); i++ {
		if err := certs[i].CheckSignatureFrom(certs[i+1]); err != nil {
			return fmt.Sprintf("certificate %d is not signed by certificate %d: %v", i, i+1, err)
		}
	}
	if !bytes.Equal(certs[len(certs)-1].Raw, p.Node["R"].DER) {
		return "the chain does not end in the accepted root"
	}
	return ""
}

func sortedKeys(m map[string]int) []string {
	var ks []string
	for k, v := range m {
		if v > 0 {
			ks = append(ks, fmt.Sprintf("%s=%d", k, v))
		}
	}
	sort.Strings(ks)
	return ks
}

var _ io.Reader = body{}
