//go:build go1.25

package c12t

import (
	"bytes"
	"context"
	"errors"
	"fmt"
	"net/http"
	"os"
	"sort"
	"strings"
	"sync"
	"testing"
	"testing/synctest"
	"time"

	ct "github.com/google/certificate-transparency-go"
	"github.com/google/certificate-transparency-go/client"
	"github.com/google/certificate-transparency-go/client/configpb"
	"github.com/google/certificate-transparency-go/jsonclient"
	"google.golang.org/protobuf/types/known/timestamppb"

	"verifharness/c12"
	"verifharness/ref"
	"verifharness/vh"
)

// ---------------------------------------------------------------- records of MCTemporalClient.tla

// Ans is one scripted answer of a shard's server.
type Ans struct {
	Status int    `json:"status"`
	Class  string `json:"class"`
	Ra     string `json:"ra"`  // zero: "Retry-After: 0"; bare: no such header; na
	Who    int    `json:"who"` // the other key of sigByOther / idOfOther / validForOther: a shard, or 0 = the key of no shard
}

// Arrival is one completed per-shard request of GetAcceptedRoots, in completion order.
type Arrival struct {
	S   int    `json:"s"`
	Res string `json:"res"` // answer | ctx
}

// Result is the specification's outcome of a roots call.
type Result struct {
	K    string `json:"k"`
	From int    `json:"from"`
	Why  string `json:"why"`
}

// Step is one completed call of the specification's history.
type Step struct {
	K string `json:"k"` // submit | roots
	// submit
	Method  string `json:"method"`
	Chain   string `json:"chain"`
	First   string `json:"first"`
	Na      int    `json:"na"`
	Routed  int    `json:"routed"`
	Answers []Ans  `json:"answers"`
	Waits   []int  `json:"waits"`
	Reqs    []int  `json:"reqs"`
	Mult    []int  `json:"mult"`
	End     string `json:"end"`    // answered | expired | refused
	Expect  string `json:"expect"` // ok | error | any
	Layer   string `json:"layer"`
	Carry   string `json:"carry"`
	// roots
	Freqs  []int     `json:"freqs"` // submit: requests per FRONTEND (base URI)
	N      int       `json:"n"`
	Cls    []string  `json:"cls"`
	Order  []Arrival `json:"order"`
	Taken  int       `json:"taken"`
	CtxAt  int       `json:"ctxAt"`
	Roots  []string  `json:"roots"`
	Result Result    `json:"result"`
}

// Case is one exported case: the shard list ([lower, upper] per shard, -1 = absent) and the calls.
type Case struct {
	Shards [][]int `json:"shards"`
	Dep    *Dep    `json:"dep,omitempty"`
	Step   *Step   `json:"step,omitempty"`
	Steps  []Step  `json:"steps,omitempty"`
}

// Dep is the deployment of the temporal log (TemporalClient.tla, SharedFrontend): per shard position the frontend
// (base URI) it is served from and the number of the key it is configured with (unkeyed: no key).
type Dep struct {
	URI []int `json:"uri"`
	Key []int `json:"key"`
}

const unkeyed = -2

var classic = &Dep{URI: []int{1, 2, 3}, Key: []int{1, 2, 3}}

func (d *Dep) isClassic() bool {
	return d == nil || fmt.Sprint(d.URI, d.Key) == fmt.Sprint(classic.URI, classic.Key)
}

func (c Case) dep() *Dep {
	if c.Dep == nil {
		return classic
	}
	return c.Dep
}

// front is the frontend of shard s (1-based), 0 for nobody.
func (d *Dep) front(s int) int {
	if s == 0 {
		return 0
	}
	return d.URI[s-1]
}

func (d *Dep) keyed(s int) bool { return d.Key[s-1] != unkeyed }

// ownKey mirrors OwnKey of the specification: the number of the key shard s's log signs with.
func (d *Dep) ownKey(s int) int {
	if d.keyed(s) {
		return d.Key[s-1]
	}
	return s
}

// tag names what shard s (of n) shares with the other shards of the list; empty in the classic deployment.
func (d *Dep) tag(s, n int) string {
	if s == 0 {
		return ""
	}
	out := ""
	uri, key := false, false
	for o := 1; o <= n; o++ {
		if o != s {
			uri = uri || d.URI[o-1] == d.URI[s-1]
			key = key || (d.keyed(s) && d.Key[o-1] == d.Key[s-1])
		}
	}
	if uri {
		out += "@sharedURI"
	}
	if key {
		out += "@sharedKey"
	}
	if !d.keyed(s) {
		out += "@unkeyed"
	}
	return out
}

func (c Case) steps() []Step {
	if c.Step != nil {
		return []Step{*c.Step}
	}
	return c.Steps
}

// ---------------------------------------------------------------- materialization

// mat maps the model's instants to real ones, strictly monotonically, on whole seconds (X.509 times have second
// resolution): with unit 1 s the neighbouring ticks of a bound are the last second before and the first second after it.
type mat struct{ unit time.Duration }

var base = time.Date(2031, 3, 5, 0, 0, 0, 0, time.UTC)
var zones = []*time.Location{time.UTC, time.FixedZone("east", 5*3600+1800), time.FixedZone("west", -9*3600)}

func (m mat) at(k int) time.Time { return base.Add(time.Duration(k) * m.unit) }

func cfgFor(w *c12.TWorld, m mat, shards [][]int, d *Dep) *configpb.TemporalLogConfig {
	cfg := &configpb.TemporalLogConfig{}
	for i, sh := range shards {
		s := &configpb.LogShardConfig{Uri: w.Shards[d.URI[i]].URI()}
		if m.unit != time.Second && i%2 == 1 {
			s.Uri = strings.TrimRight(s.Uri, "/") // the same base URI, written without the trailing slash
		}
		if d.keyed(i + 1) {
			s.PublicKeyDer = w.Shards[d.Key[i]].SPKI
		}
		if sh[0] >= 0 {
			s.NotAfterStart = timestamppb.New(m.at(sh[0]).In(zones[(i+sh[0])%len(zones)]))
		}
		if sh[1] >= 0 {
			s.NotAfterLimit = timestamppb.New(m.at(sh[1]).In(zones[(i+sh[1]+1)%len(zones)]))
		}
		cfg.Shard = append(cfg.Shard, s)
	}
	return cfg
}

// rel says where instant t lies relative to a window.
func rel(t int, sh []int) string {
	part := func(b int, name string) string {
		switch {
		case b < 0:
			return "no-" + name
		case t == b-1:
			return "t=" + name + "-1"
		case t < b:
			return "t<" + name
		case t == b:
			return "t=" + name
		case t == b+1:
			return "t=" + name + "+1"
		}
		return "t>" + name
	}
	return part(sh[0], "start") + "," + part(sh[1], "limit")
}

func where(st Step, shards [][]int) string {
	switch {
	case st.First == "garbage" || st.First == "none":
		return "first-" + st.First
	case st.Routed == 0:
		return "outside(" + rel(st.Na, []int{shards[0][0], shards[len(shards)-1][1]}) + ")"
	}
	return fmt.Sprintf("shard%dof%d(%s)", st.Routed, len(shards), rel(st.Na, shards[st.Routed-1]))
}

type silent struct{}

func (silent) Printf(string, ...interface{}) {}

func asn1Chain(ders [][]byte) []ct.ASN1Cert {
	out := make([]ct.ASN1Cert, len(ders))
	for i, d := range ders {
		out[i] = ct.ASN1Cert{Data: d}
	}
	return out
}

func dsOf(d ct.DigitallySigned) []byte {
	return ref.DigitallySigned(byte(d.Algorithm.Hash), byte(d.Algorithm.Signature), d.Signature)
}

// ---------------------------------------------------------------- submissions

// script is the server side of one submission.
type script struct {
	w      *c12.TWorld
	st     Step
	dep    *Dep
	name   string
	ch     *c12.Chain
	cancel context.CancelFunc

	mu     sync.Mutex
	n      [4]int
	served []*c12.Body
	extra  int
}

func (sc *script) serve(s int, req *http.Request) (*http.Response, error) {
	sc.mu.Lock()
	sc.n[s]++
	n := sc.n[s]
	sc.mu.Unlock()
	honest := func() (*http.Response, error) {
		// a shard that the specification does not see asked: it answers as an honest log does, with its own key
		if len(sc.ch.DER) == 0 || sc.st.First == "garbage" {
			return c12.TRespond(req, 400, []byte("cannot parse the chain"), nil), nil
		}
		return c12.TRespond(req, 200, sc.w.RenderSCT(s, 0, sc.name, sc.ch, "valid").Bytes, nil), nil
	}
	// s is the FRONTEND the request reached
	if s != sc.dep.front(sc.st.Routed) || sc.st.End == "refused" {
		return honest()
	}
	if n <= len(sc.st.Answers) {
		a := sc.st.Answers[n-1]
		b := sc.w.RenderSCT(sc.dep.ownKey(sc.st.Routed), a.Who, sc.name, sc.ch, a.Class) // "self" is the key of the shard the answer is for
		sc.mu.Lock()
		sc.served = append(sc.served, b)
		sc.mu.Unlock()
		hdr := http.Header{}
		if a.Ra == "zero" {
			hdr.Set("Retry-After", "0")
		}
		if n == len(sc.st.Answers) && sc.st.End == "expired" {
			defer sc.cancel() // the caller's context ends during the pause before the request is made again
		}
		return c12.TRespond(req, a.Status, b.Bytes, hdr), nil
	}
	if sc.st.End == "expired" && len(sc.st.Answers) == 0 {
		<-req.Context().Done() // the shard hangs until the context ends
		return nil, req.Context().Err()
	}
	sc.mu.Lock()
	sc.extra++
	sc.mu.Unlock()
	sc.cancel() // never let a client that asks again wait
	return nil, errors.New("script exhausted")
}

func label(st Step) string {
	if len(st.Answers) == 0 {
		switch {
		case st.End == "refused" && st.First == "lax":
			return "lax-refused"
		case st.End == "refused":
			return "unroutable"
		}
		return "hang+" + st.End
	}
	a := st.Answers[len(st.Answers)-1]
	l := a.Class
	if a.Status != 200 {
		l = fmt.Sprintf("%d/%s", a.Status, a.Class)
	}
	switch a.Class {
	case "sigByOther", "idOfOther", "validForOther":
		if a.Who == 0 {
			l += "(noShardKey)"
		} else {
			l += "(neighbourKey)"
		}
	}
	if st.First == "lax" {
		l += "/laxFirst"
	}
	if st.End != "answered" {
		l += "+" + st.End
	}
	return l
}

const jitter = 250 * time.Millisecond
const cooldown = 1000 * time.Second // between the calls of a behaviour: longer than the 128 s cap

type tally struct {
	mu sync.Mutex
	m  map[string]int
}

func (t *tally) add(k string) {
	t.mu.Lock()
	t.m[k]++
	t.mu.Unlock()
}

// runSubmissions replays the submissions of one case on a fresh real TemporalLogClient inside a bubble.
func runSubmissions(t *testing.T, rep *vh.Report, tl *tally, w *c12.TWorld, m mat, c Case) {
	steps := c.steps()
	dep := c.dep()
	synctest.Test(t, func(t *testing.T) {
		tr := &c12.TTransport{W: w}
		var mu sync.Mutex
		var cur *script
		tr.Serve = func(s, _ int, req *http.Request) (*http.Response, error) {
			mu.Lock()
			sc := cur
			mu.Unlock()
			return sc.serve(s, req)
		}
		ctxt := func(n int) map[string]any {
			return map[string]any{"case": Case{Shards: c.Shards, Dep: c.Dep, Steps: steps[:n+1]}, "world": w.Name, "unit": m.unit.String()}
		}
		tlc, err := client.NewTemporalLogClient(cfgFor(w, m, c.Shards, dep), &http.Client{Transport: tr})
		if err != nil {
			rep.Violate("temporal:constructor-refused-wellformed-list", fmt.Sprintf("NewTemporalLogClient refused the contiguous list %v (deployment %v): %v", c.Shards, *dep, err), ctxt(0))
			return
		}
		for n, st := range steps {
			if n > 0 {
				time.Sleep(cooldown)
			}
			name, ch := w.PKI().Chain(st.Chain, st.First, m.at(st.Na))
			before := [4]int{}
			for s := 1; s <= 3; s++ {
				before[s] = len(tr.Requests(s))
			}
			ctx, cancel := context.WithTimeout(context.Background(), 40*time.Second+time.Duration(len(st.Answers))*300*time.Second)
			sc := &script{w: w, st: st, dep: dep, name: name, ch: ch, cancel: cancel}
			mu.Lock()
			cur = sc
			mu.Unlock()
			lbl := label(st) + dep.tag(st.Routed, len(c.Shards))
			front := dep.front(st.Routed) // the frontend (base URI) of the routed shard
			fp := func(what string) string { return "temporal:" + st.Method + ":" + lbl + ":" + what }
			desc := fmt.Sprintf("%s(%s, first=%s, NotAfter=tick %d) on shards %v [%s] deployed as uri=%v key=%v, answers %v end=%s (world %s, unit %v)", st.Method, st.Chain, st.First,
				st.Na, c.Shards, where(st, c.Shards), dep.URI, dep.Key, st.Answers, st.End, w.Name, m.unit)
			var sct *ct.SignedCertificateTimestamp
			var cerr error
			chain := asn1Chain(ch.DER)
			if st.First == "none" && n%2 == 1 {
				chain = nil
			}
			panicked := func() (p bool) {
				defer func() {
					if r := recover(); r != nil {
						p = true
						rep.Violate("panic:temporal:"+st.Method+":"+lbl, fmt.Sprintf("%s panicked: %v", desc, r), ctxt(n))
					}
				}()
				if st.Method == "AddChain" {
					sct, cerr = tlc.AddChain(ctx, chain)
				} else {
					sct, cerr = tlc.AddPreChain(ctx, chain)
				}
				return false
			}()
			cancel()
			if panicked {
				return
			}
			// ---- who was contacted (RoutedToOneShard)
			var seen [4][]c12.TReq
			total := 0
			for s := 1; s <= 3; s++ {
				seen[s] = tr.Requests(s)[before[s]:]
				total += len(seen[s])
				if len(seen[s]) > 0 && s != front {
					what := "wrong-shard"
					if st.Routed == 0 {
						what = "contacted-though-unroutable"
					}
					rep.Violate("temporal:route:"+where(st, c.Shards)+":"+what, fmt.Sprintf("%s: frontend %d received %d request(s); the specification routes to the shard at frontend %d (0 = nobody)",
						desc, s, len(seen[s]), front), ctxt(n))
				}
				for _, r := range seen[s] {
					wantPath := "/ct-shard/ct/v1/add-chain"
					if st.Method == "AddPreChain" {
						wantPath = "/ct-shard/ct/v1/add-pre-chain"
					}
					if r.Verb != http.MethodPost || r.Path != wantPath || r.BadReq != "" || !eqList(r.Chain, ch.DER) {
						rep.Violate(fp("wrong-request"), fmt.Sprintf("%s: shard %d received %s %s (chain of %d elements, decode error %q), expected POST %s with the submitted chain",
							desc, s, r.Verb, r.Path, len(r.Chain), r.BadReq, wantPath), ctxt(n))
					}
				}
			}
			if x := tr.Strangers(); len(x) > 0 {
				rep.Violate("temporal:route:request-to-unknown-host", fmt.Sprintf("%s: %v", desc, x), ctxt(n))
			}
			followed := st.End != "refused" // the code took the alternative the recorded step describes (always, unless LaxFirstElement)
			if st.First == "lax" {
				followed = (st.End == "refused") == (total == 0)
			}
			if st.Routed != 0 && st.First == "cert" && len(seen[front]) != st.Reqs[st.Routed-1] {
				rep.Violate(fp("requests-differ"), fmt.Sprintf("%s: the routed shard received %d request(s), the specification sends %d", desc, len(seen[front]),
					st.Reqs[st.Routed-1]), ctxt(n))
			}
			// ---- pacing state of every shard's client (NoCrossTalk)
			if st.First != "lax" || followed {
				for i := range c.Shards {
					mlt, _ := tlc.Clients[i].BackoffStateForVerif()
					if int(mlt) != st.Mult[i] {
						what := "backoff-of-other-shard-moved"
						if i+1 == st.Routed {
							what = "backoff-of-routed-shard-differs"
						}
						rep.Violate("temporal:pacing:"+what, fmt.Sprintf("%s: back-off multiplier of shard %d's client is %d, the specification has %d (vector %v)", desc, i+1,
							mlt, st.Mult[i], st.Mult), ctxt(n))
					}
				}
				if st.Routed != 0 && len(seen[front]) == st.Reqs[st.Routed-1] {
					rs := seen[front]
					for i := 0; i+1 < len(rs) && i < len(st.Waits); i++ {
						gap, min := rs[i+1].At.Sub(rs[i].At), time.Duration(st.Waits[i])*time.Second
						if gap < min || gap >= min+jitter {
							rep.Violate("temporal:pacing:pause-differs", fmt.Sprintf("%s: pause %v before request %d, the specification has [%v, %v)", desc, gap, i+2, min, min+jitter), ctxt(n))
						}
					}
				}
			}
			// ---- the verdict
			returned := cerr == nil
			var last *c12.Body
			if k := len(sc.served); k > 0 {
				last = sc.served[k-1]
			}
			kind := st.Method + "/" + lbl
			if returned && sct == nil {
				rep.Violate(fp("nil-without-error"), desc+": neither a value nor an error", ctxt(n))
				continue
			}
			if !returned {
				if sct != nil {
					rep.Violate(fp("error-with-partial-result"), fmt.Sprintf("%s: error %q together with an SCT", desc, cerr), ctxt(n))
				}
				if st.Expect == "ok" {
					rep.Violate(fp("error-for-valid"), fmt.Sprintf("%s: the specification returns the SCT, the client failed: %v", desc, cerr), ctxt(n))
				}
				if st.Carry == "response" && last != nil && followed {
					var re jsonclient.RspError
					fin := st.Answers[len(st.Answers)-1]
					if !errors.As(cerr, &re) {
						rep.Violate(fp("error-without-response"), fmt.Sprintf("%s: error %T %q does not carry the HTTP status and body", desc, cerr, cerr), ctxt(n))
					} else if re.StatusCode != fin.Status || !bytes.Equal(re.Body, last.Bytes) {
						rep.Violate(fp("error-carries-other-response"), fmt.Sprintf("%s: error carries status %d and %d body bytes, the answer was %d with %d bytes", desc,
							re.StatusCode, len(re.Body), fin.Status, len(last.Bytes)), ctxt(n))
					}
				}
				tl.add(kind + "/error")
				rep.Eval("")
				continue
			}
			tl.add(kind + "/value")
			rep.Eval(w.Name + ":" + kind + ":" + where(st, c.Shards))
			if st.Routed != 0 && !dep.keyed(st.Routed) {
				continue // UnkeyedShard: what a shard configured without a key hands back is not judged
			}
			// a value came back: the property itself, against the key of the ROUTED shard and the SUBMITTED chain
			if st.Routed == 0 {
				rep.Violate(fp("returned-ok"), desc+": an SCT was returned although no shard encompasses the date / nothing could be parsed", ctxt(n))
				continue
			}
			shard := w.Shards[dep.ownKey(st.Routed)] // the key CONFIGURED for the routed shard
			bad := ""
			switch {
			case sct.SCTVersion != 0:
				bad = fmt.Sprintf("SCT version %d", sct.SCTVersion)
			case !bytes.Equal(sct.LogID.KeyID[:], shard.ID):
				bad = fmt.Sprintf("SCT log id %x is not the hash %x of the key of shard %d", sct.LogID.KeyID[:8], shard.ID[:8], st.Routed)
			default:
				if err := ref.Verify(shard.Key.Public(), ref.SCTSignatureInput(sct.Timestamp, ch.Entry, sct.Extensions), dsOf(sct.Signature)); err != nil {
					bad = fmt.Sprintf("SCT signature does not verify under the key of shard %d for the submitted chain and entry type: %v", st.Routed, err)
				}
			}
			if st.Expect == "error" && followed {
				rep.Violate(fp("returned-ok"), fmt.Sprintf("%s: the specification demands an error, the client returned an SCT (%s)", desc, bad), ctxt(n))
				continue
			}
			if bad != "" {
				what := "returned-unverified"
				if strings.HasPrefix(bad, "SCT log id") {
					what = "returned-foreign-logid"
				}
				rep.Violate(fp(what), desc+": "+bad, ctxt(n))
				continue
			}
			if followed && (last == nil || st.End != "answered" || st.Answers[len(st.Answers)-1].Status != 200) {
				rep.Violate(fp("returned-ok"), desc+": an SCT was returned although no 200 answer was given", ctxt(n))
				continue
			}
			if followed && last != nil && (sct.Timestamp != last.TS || !bytes.Equal(sct.Extensions, last.Ext)) {
				rep.Violate(fp("returned-differs"), desc+": SCT fields differ from the answer", ctxt(n))
			}
		}
	})
}

func eqList(a, b [][]byte) bool {
	if len(a) != len(b) {
		return false
	}
	for i := range a {
		if !bytes.Equal(a[i], b[i]) {
			return false
		}
	}
	return true
}

// ---------------------------------------------------------------- roots

// rootList mirrors RootList of TemporalClient.tla.
func rootList(class string) []string {
	switch class {
	case "setA":
		return []string{"r1", "r2"}
	case "setB":
		return []string{"r2", "r3"}
	case "setAll":
		return []string{"r3", "r1", "r2"}
	case "dupWithin":
		return []string{"r1", "r3", "r1"}
	case "sameSubject":
		return []string{"r1x", "r2"}
	}
	return nil
}

var rootsFail = map[string]bool{"s500": true, "s404": true, "notJSON": true, "badBase64": true}

// runRoots replays one GetAcceptedRoots case: the per-shard requests are held at gates and released in the
// specification's completion order; the context ends where the specification says.
func runRoots(t *testing.T, rep *vh.Report, tl *tally, w *c12.TWorld, m mat, c Case) {
	st := *c.Step
	ctxt := map[string]any{"case": c, "world": w.Name}
	sorted := append([]string{}, st.Cls...)
	sort.Strings(sorted)
	lbl := fmt.Sprintf("%d:%s", st.N, strings.Join(sorted, "+"))
	desc := fmt.Sprintf("GetAcceptedRoots on %d shards answering %v, completion order %v, context ends at position %d (world %s)", st.N, st.Cls, st.Order, st.CtxAt, w.Name)
	synctest.Test(t, func(t *testing.T) {
		tr := &c12.TTransport{W: w}
		gates := make([]chan struct{}, st.N+1)
		open := make([]bool, st.N+1)
		for s := 1; s <= st.N; s++ {
			gates[s] = make(chan struct{})
		}
		release := func(s int) {
			if !open[s] {
				open[s] = true
				close(gates[s])
			}
		}
		tr.Serve = func(s, _ int, req *http.Request) (*http.Response, error) {
			if s > st.N {
				return c12.TRespond(req, 404, []byte("not a shard of this log"), nil), nil
			}
			select {
			case <-gates[s]:
			case <-req.Context().Done():
				return nil, req.Context().Err()
			}
			status, body := w.PKI().RootsBody(st.Cls[s-1], rootList(st.Cls[s-1]))
			return c12.TRespond(req, status, body, nil), nil
		}
		tlc, err := client.NewTemporalLogClient(cfgFor(w, m, c.Shards, c.dep()), &http.Client{Transport: tr})
		if err != nil {
			rep.Violate("temporal:constructor-refused-wellformed-list", fmt.Sprintf("NewTemporalLogClient refused the contiguous list %v: %v", c.Shards, err), ctxt)
			return
		}
		ctx, cancel := context.WithCancel(context.Background())
		defer cancel()
		var roots []ct.ASN1Cert
		var cerr error
		var pval any
		done := make(chan struct{})
		go func() {
			defer close(done)
			defer func() { pval = recover() }()
			roots, cerr = tlc.GetAcceptedRoots(ctx)
		}()
		finished := func() bool {
			select {
			case <-done:
				return true
			default:
				return false
			}
		}
		synctest.Wait()
		// every shard is asked, and all requests are outstanding at the same time
		fanned := true
		for s := 1; s <= 3; s++ {
			want := 0
			if s <= st.N {
				want = 1
			}
			if got := len(tr.Requests(s)); got != want && !finished() {
				fanned = false
				rep.Violate("temporal:roots:not-fanned-out", fmt.Sprintf("%s: before any answer shard %d has %d outstanding request(s), the specification has %d", desc, s, got, want), ctxt)
			}
		}
		late := false
		if fanned {
			for i, e := range st.Order {
				if i == st.CtxAt {
					cancel()
					synctest.Wait()
				}
				if e.Res == "answer" {
					release(e.S)
					synctest.Wait()
				}
			}
			if st.CtxAt == len(st.Order) {
				cancel()
				synctest.Wait()
			}
			late = !finished()
		}
		// the replay is over: end whatever is still outstanding
		cancel()
		for s := 1; s <= st.N; s++ {
			release(s)
		}
		<-done
		synctest.Wait()
		if late {
			tl.add("roots/returned-only-after-cleanup")
			if st.CtxAt >= 0 {
				// every request was answered or has failed with the context's error, and still the call had not returned
				rep.Violate("temporal:roots:no-return-after-context-ended", desc+": the context had ended and every goroutine had come to rest, yet GetAcceptedRoots "+
					"had not returned (it only did once the harness answered the requests it had kept waiting)", ctxt)
			}
		}
		if pval != nil {
			rep.Violate("panic:temporal:GetAcceptedRoots:"+lbl, fmt.Sprintf("%s panicked: %v", desc, pval), ctxt)
			return
		}
		if !fanned {
			return
		}
		for s := 1; s <= 3; s++ {
			rs := tr.Requests(s)
			want := 0
			if s <= st.N {
				want = 1
			}
			if len(rs) != want {
				rep.Violate("temporal:roots:requests-differ", fmt.Sprintf("%s: shard %d received %d request(s), the specification sends %d", desc, s, len(rs), want), ctxt)
			}
			for _, r := range rs {
				if r.Verb != http.MethodGet || r.Path != "/ct-shard/ct/v1/get-roots" {
					rep.Violate("temporal:roots:wrong-request", fmt.Sprintf("%s: shard %d received %s %s", desc, s, r.Verb, r.Path), ctxt)
				}
			}
		}
		if x := tr.Strangers(); len(x) > 0 {
			rep.Violate("temporal:route:request-to-unknown-host", fmt.Sprintf("%s: %v", desc, x), ctxt)
		}
		for i := range c.Shards {
			if mlt, nb := tlc.Clients[i].BackoffStateForVerif(); mlt != 0 || !nb.IsZero() {
				rep.Violate("temporal:pacing:roots-moved-backoff", fmt.Sprintf("%s: back-off state of shard %d's client is (%d, %v) after GetAcceptedRoots", desc, i+1, mlt, nb), ctxt)
			}
		}
		pk := w.PKI()
		if st.Result.K == "error" {
			why := st.Result.Why
			tl.add("roots/error/" + why)
			rep.Eval("")
			if len(roots) > 0 && cerr != nil {
				rep.Violate("temporal:roots:"+why+":error-with-partial-result", fmt.Sprintf("%s: %d root(s) returned together with error %v", desc, len(roots), cerr), ctxt)
			}
			if cerr == nil {
				rep.Violate("temporal:roots:"+why+":returned-ok", fmt.Sprintf("%s: the specification fails (shard %d: %s), the client returned %d root(s) and no error", desc,
					st.Result.From, why, len(roots)), ctxt)
				return
			}
			// the error is that of a shard that failed (carrying its status and body), or the context's
			ctxEnded := st.CtxAt >= 0 || late
			var re jsonclient.RspError
			if errors.As(cerr, &re) {
				match := false
				for _, e := range st.Order {
					if e.Res == "answer" && rootsFail[st.Cls[e.S-1]] {
						status, body := pk.RootsBody(st.Cls[e.S-1], nil)
						match = match || (re.StatusCode == status && bytes.Equal(re.Body, body))
					}
				}
				if !match {
					rep.Violate("temporal:roots:"+why+":error-carries-other-response", fmt.Sprintf("%s: the error carries status %d and %d body bytes, which no failed shard sent", desc,
						re.StatusCode, len(re.Body)), ctxt)
				}
			} else if !(ctxEnded && (errors.Is(cerr, context.Canceled) || errors.Is(cerr, context.DeadlineExceeded))) {
				rep.Violate("temporal:roots:"+why+":error-without-response", fmt.Sprintf("%s: error %T %q carries neither a failed shard's status and body nor is it the context's", desc, cerr, cerr), ctxt)
			}
			return
		}
		// the specification succeeds
		tl.add("roots/ok")
		rep.Eval(w.Name + ":roots:" + lbl)
		if cerr != nil {
			rep.Violate("temporal:roots:error-for-valid", fmt.Sprintf("%s: every shard answered with a list, the client failed: %v", desc, cerr), ctxt)
			return
		}
		want := map[string]string{}
		for _, tok := range st.Roots {
			want[string(pk.Roots[tok])] = tok
		}
		got := map[string]bool{}
		firstSeen := len(roots) == len(st.Roots)
		for i, r := range roots {
			tok, ok := want[string(r.Data)]
			if !ok {
				rep.Violate("temporal:roots:unexpected-root", fmt.Sprintf("%s: a root was returned that no shard sent", desc), ctxt)
				continue
			}
			if got[tok] {
				rep.Violate("temporal:roots:duplicate-root", fmt.Sprintf("%s: root %s was returned twice", desc, tok), ctxt)
			}
			got[tok] = true
			firstSeen = firstSeen && i < len(st.Roots) && st.Roots[i] == tok
		}
		for _, tok := range st.Roots {
			if !got[tok] {
				rep.Violate("temporal:roots:missing-root", fmt.Sprintf("%s: root %s, sent by a shard, is not in the result %d root(s)", desc, tok, len(roots)), ctxt)
			}
		}
		if firstSeen {
			tl.add("roots/ok/first-seen-order")
		}
	})
}

// ---------------------------------------------------------------- tests

var (
	worldOnce sync.Once
	worlds    []*c12.TWorld
)

func theWorlds() []*c12.TWorld {
	worldOnce.Do(func() { worlds = c12.NewTWorlds(c12.NewTPKI()) })
	return worlds
}

func load(t *testing.T, env string) []Case {
	path := os.Getenv(env)
	if path == "" {
		t.Skip(env + " not set")
	}
	cases, err := vh.LoadNDJSON[Case](path)
	if err != nil {
		t.Fatal(err)
	}
	return cases
}

// each replays every case in parallel workers; f runs one case.
func each(t *testing.T, n int, f func(t *testing.T, i int)) {
	workers := 8
	t.Run("cases", func(t *testing.T) {
		for k := 0; k < workers; k++ {
			k := k
			t.Run(fmt.Sprint(k), func(t *testing.T) {
				t.Parallel()
				for i := k; i < n; i += workers {
					f(t, i)
				}
			})
		}
	})
}

func finish(t *testing.T, rep *vh.Report, tl *tally, cases []Case) {
	rep.Replayed = len(cases)
	if len(cases) > 0 {
		rep.Sample(cases[0])
		rep.Sample(cases[len(cases)/2])
	}
	rep.Extra["outcome_kinds"] = len(tl.m)
	rep.Extra["outcomes"] = tl.m
	if err := rep.Write(); err != nil {
		t.Fatal(err)
	}
}

// TestSubmit replays the submission cases and sequences.  VERIF_TCASES: "name=path;name=path" (one Case per line in
// each file, one report per name) or a single path.  Every case runs on every key assignment and, when it is a single
// answer, under both materializations (1 s: the instants next to a bound are one second away from it; 1 h).
func TestSubmit(t *testing.T) {
	spec := os.Getenv("VERIF_TCASES")
	if spec == "" {
		t.Skip("VERIF_TCASES not set")
	}
	if !strings.Contains(spec, "=") {
		spec = "c12t-submit=" + spec
	}
	ws := theWorlds()
	units := []mat{{time.Second}, {time.Hour}}
	for _, part := range strings.Split(spec, ";") {
		name, path, _ := strings.Cut(part, "=")
		cases, err := vh.LoadNDJSON[Case](path)
		if err != nil {
			t.Fatal(err)
		}
		rep := vh.NewReport(name, "every (shard list, NotAfter instant, chain, first-element form, per-shard answer script) of TemporalClient.tla replayed into "+
			"a real client.TemporalLogClient (three key assignments mixing ECDSA P-256 and RSA 2048; instants one second / one hour apart) through a RoundTripper that routes by "+
			"host to scripted per-shard servers; requests seen by every shard compared with the specification, every returned SCT re-verified with std crypto against the "+
			"submitted chain and the ROUTED shard's key, errors checked for status and body, per-shard back-off state and pauses compared under virtual time; "+
			"non-trivial = distinct (key assignment, method, final answer, position of NotAfter in the routed window) with a returned SCT")
		tl := &tally{m: map[string]int{}}
		each(t, len(cases), func(t *testing.T, i int) {
			sts := cases[i].steps()
			for wi, w := range ws {
				if len(sts) == 1 && len(sts[0].Answers) <= 1 && cases[i].Dep.isClassic() {
					for _, m := range units { // single answers are cheap: every materialization (shared deployments: alternating)
						runSubmissions(t, rep, tl, w, m, cases[i])
					}
					continue
				}
				runSubmissions(t, rep, tl, w, units[(i+wi)%len(units)], cases[i])
			}
		})
		finish(t, rep, tl, cases)
	}
}

// TestRoots replays the GetAcceptedRoots cases (VERIF_RCASES).
func TestRoots(t *testing.T) {
	cases := load(t, "VERIF_RCASES")
	rep := vh.NewReport("c12t-roots", "every (number of shards, per-shard behaviour on the roots endpoint, completion order, instant at which the context ends) of "+
		"TemporalClient.tla replayed into a real client.TemporalLogClient: per-shard requests held at gates in the RoundTripper and released in the specification's order under "+
		"testing/synctest; fan-out, the de-duplicated union (by certificate bytes), 'an error comes with no roots' and the response carried by the error are checked; "+
		"non-trivial = distinct (key assignment, shards, multiset of behaviours) on which roots were returned")
	tl := &tally{m: map[string]int{}}
	ws := theWorlds()
	each(t, len(cases), func(t *testing.T, i int) {
		if os.Getenv("VERIF_ALL_WORLDS") == "1" { // replay of a single recorded case
			for _, w := range ws {
				runRoots(t, rep, tl, w, mat{time.Second}, cases[i])
			}
			return
		}
		runRoots(t, rep, tl, ws[i%len(ws)], mat{time.Second}, cases[i])
	})
	finish(t, rep, tl, cases)
}
