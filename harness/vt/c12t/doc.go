// Package c12t binds spec/client/TemporalClient.tla to the real client.TemporalLogClient (client/multilog.go on
// client/logclient.go and jsonclient) under virtual time (testing/synctest, go1.26): every TLC-exported submission
// case, submission sequence and GetAcceptedRoots completion order is replayed through an http.RoundTripper that
// routes by host to scripted per-shard servers holding real keys.  All code is in _test files guarded by go1.25; the
// concrete world (keys, chains by NotAfter, body classes) is harness/c12/temporal.go.
package c12t
