//go:build go1.25

package c13

import (
	"encoding/json"
	"fmt"
	"os"
	"sort"
	"strings"
	"testing"

	"verifharness/vh"
)

// Step is one step of a behaviour of Retry.tla as exported by MCRetry (simulation config, ms).
type Step struct {
	A     string `json:"a"` // Init Post Set Wait Ctx Ret
	C     int    `json:"c"`
	T     int    `json:"t"`
	Cls   string `json:"cls"` // the class the submission sees (the specification's choice where Seen leaves one)
	W     string `json:"w"`   // wire kind
	Sp    string `json:"sp"`  // spelling of the 200 body
	HC    string `json:"hc"`  // Init: the http.Client configuration
	Rak   string `json:"rak"`
	Ov    int    `json:"ov"`
	Mult  int    `json:"mult"`
	NB    int    `json:"nb"`
	Until int    `json:"until"`
	J     int    `json:"j"`
	Res   string `json:"res"`
	ID    int    `json:"id"` // Post: identity of the exchange; Ret: the exchange whose response the result carries (0: none)
	No    int    `json:"no"` // which submission of the caller
	Ctx   []int  `json:"ctx"`
	Start []int  `json:"start"`
}

func writeEvents(rec, scen *vh.Recorder, run *Run, sc Scenario) {
	if run.Runaway != "" {
		proc.poisoned = true // its events are not written: the process history starts afresh
		return // reported by the monitor; thousands of events at one instant are not worth a trace validation
	}
	scen.Emit(map[string]any{"hc": sc.HC, "opts": sc.Opts, "callers": sc.Callers})
	hc := sc.HC
	if hc == "" {
		hc = "plain"
	}
	rec.Emit(map[string]any{"ev": "Reset", "hc": hc})
	for _, e := range run.Events {
		rec.Emit(e)
	}
}

func runKey(run *Run) string {
	set := map[string]bool{}
	posts := 0
	for _, c := range run.Calls {
		for _, p := range c.Posts {
			set[p.Cls+"/"+p.Rak] = true
			if p.Spec.Sp != "" {
				set["sp:"+p.Spec.Sp] = true
			}
			if p.Spec.Cls == "redir" || p.Spec.Cls == "pres" || p.Spec.Cls == "loop" {
				set[p.Spec.Cls+"@"+run.HC] = true
			}
			posts++
		}
		set["="+strings.SplitN(c.Res, ":", 2)[0]] = true
	}
	if posts < 2 {
		return ""
	}
	ks := make([]string, 0, len(set))
	for k := range set {
		ks = append(ks, k)
	}
	sort.Strings(ks)
	return fmt.Sprintf("%d:%s", len(run.Calls), strings.Join(ks, ","))
}

// scenarioOf turns a behaviour of the specification into the scenario that produced it: the responses
// each caller consumed, in order, its start and the end of its context.
func scenarioOf(beh []Step, idx int) (Scenario, error) {
	if len(beh) == 0 || beh[0].A != "Init" {
		return Scenario{}, fmt.Errorf("behaviour %d does not start with Init", idx)
	}
	init := beh[0]
	var sc Scenario
	sc.HC = init.HC
	sc.Opts = []string{"", "ua"}[idx%2]
	for c := 1; c <= len(init.Start); c++ {
		cs := CallSpec{StartMs: init.Start[c-1], API: []string{"post", "addchain", "post", "addprechain"}[(idx+c)%4], CtxKind: "none"}
		if e := init.Ctx[c-1]; e >= 0 {
			cs.CtxKind, cs.CtxAtMs = []string{"deadline", "cancel"}[(idx+c)%2], e
			cs.Tail = &RespSpec{Cls: "s503", Rak: "none"}
		}
		k := 0
		for _, s := range beh {
			if s.A == "Post" && s.C == c {
				// the wire response of the specification; its materialization varies with the behaviour
				sp := RespSpec{Cls: s.W, Rak: s.Rak}
				seenAs := ""
				switch s.W {
				case "b200":
					sp.Cls, sp.Sp = bodyClass(s.Sp), s.Sp
				case "pres", "redir", "loop":
					sp.Sp = s.Sp
					if s.W != "pres" {
						sp.Sp = ""
					}
					if seenClass(sc.HC, RespSpec{Cls: s.W, Sp: "canon"}) == "refused" {
						seenAs = s.Cls
					}
				}
				if s.Rak != "none" {
					sp.Rav = s.Ov / 1000
				}
				cs.Script = append(cs.Script, decorate(sp, idx+7*k, seenAs))
				k++
			}
		}
		sc.Callers = append(sc.Callers, []CallSpec{cs})
	}
	return sc, nil
}

// compareWithSpec: what of the specification's behaviour does not depend on the jitter the
// implementation happened to draw is compared directly (the recorded run is validated as a whole by
// RetryTrace.tla afterwards).
func compareWithSpec(rep *vh.Report, beh []Step, sc Scenario, run *Run, idx int) {
	ctxt := map[string]any{"behaviour": beh, "scenario": sc}
	init := beh[0]
	for _, c := range run.Calls {
		for _, p := range c.Posts {
			if p.Cls == "refused" {
				// which of the two admissible continuations follows a refused redirect is not the property's business:
				// the run is judged by the monitors and by the trace specification (which admits both)
				rep.Add("refused_redirect_behaviours", 1)
				return
			}
		}
	}
	active := 0 // callers that send at least one request in the specification's behaviour
	for c := 1; c <= len(init.Start); c++ {
		for _, s := range beh {
			if s.A == "Post" && s.C == c {
				active++
				break
			}
		}
	}
	for c := 1; c <= len(init.Start); c++ {
		var call *CallRec
		for _, cr := range run.Calls {
			if cr.Caller == c {
				call = cr
			}
		}
		if call == nil {
			rep.Violate("replay:no-call", "harness lost a call", ctxt)
			continue
		}
		var posts, sets, waits []Step
		var ret *Step
		dates := 0
		for i, s := range beh {
			if s.C != c {
				continue
			}
			switch s.A {
			case "Post":
				posts = append(posts, s)
				if s.Rak == "date" {
					dates++
				}
			case "Set":
				sets = append(sets, s)
			case "Wait":
				waits = append(waits, s)
			case "Ret":
				ret = &beh[i]
			}
		}
		if ret == nil {
			continue
		}
		e := init.Ctx[c-1]
		// is the outcome independent of jitter?  without a context end it is decided by the script alone;
		// with one, every instant of the behaviour must be farther from it than jitter can shift things
		stable := e < 0
		if e >= 0 && active <= 1 {
			w := jitterMs*len(waits) + 1000*dates + 1
			stable = abs(e-init.Start[c-1]) > w
			for _, p := range posts {
				if abs(e-p.T) <= w {
					stable = false
				}
			}
			for _, x := range waits {
				if abs(e-x.Until) <= w {
					stable = false
				}
			}
		}
		if stable {
			rep.Add("results_compared", 1)
			if call.Res != ret.Res || len(call.Posts) != len(posts) {
				rep.Violate(fmt.Sprintf("replay:result:want=%s:got=%s:last=%s", ret.Res, strings.SplitN(call.Res, ":", 2)[0], lastCls(call)),
					fmt.Sprintf("caller %d: the specification ends with %s after %d requests, the implementation with %s after %d requests",
						c, ret.Res, len(posts), call.Res, len(call.Posts)), ctxt)
			}
			if ret.Res != "ctx" && call.Res == ret.Res && len(call.Posts) == len(posts) {
				// the result carries the response of one exchange of the submission (the specification's: by identity)
				want, got := -1, -1
				for i, p := range posts {
					if p.ID == ret.ID {
						want = i
					}
				}
				for i, p := range call.Posts {
					if p.Content == call.RetID {
						got = i
					}
				}
				rep.Add("carried_responses_compared", 1)
				if want != got {
					rep.Violate("replay:result-carries-other-response:"+ret.Res, fmt.Sprintf("caller %d: the specification's result carries the response of request %d "+
						"of the submission, the implementation's that of request %d (0: none of them)", c, want+1, got+1), ctxt)
				}
			}
			if ret.Res == "ctx" && call.Res == "ctx" && call.TRet != max(e, call.T0) {
				rep.Violate("replay:ctx-return-instant", fmt.Sprintf("caller %d: context ended at %d ms, returned at %d ms", c, e, call.TRet), ctxt)
			}
		}
		if active > 1 {
			continue
		}
		// a single caller uses the client: lock step.  After every response that is retried the shared
		// state must be the specification's, re-anchored at the real instant of the request, and the next
		// request must come within the specification's window [until_min, until_min + J).
		prevMult, prevNB := 0, 0
		for k := 0; k < len(posts) && k < len(call.Posts) && k < len(sets); k++ {
			sp, rp, st := posts[k], call.Posts[k], sets[k]
			wantMult, wantNB := st.Mult, rp.T+(st.NB-sp.T)
			switch {
			case sp.Cls == "s408":
				wantMult, wantNB = prevMult, prevNB
			case (sp.Cls == "s429" || sp.Cls == "s503") && sp.Rak == "date":
				wantNB = rp.Rav // the date itself
			}
			// the state after the handling of response k is the state the caller's next request (or its
			// return) found
			got := Snap{T: call.TRet, Mult: call.RetMult, NB: call.RetNB}
			if k+1 < len(call.Posts) {
				got = Snap{T: call.Posts[k+1].T, Mult: call.Posts[k+1].PreMult, NB: call.Posts[k+1].PreNB}
			}
			rep.Add("states_compared", 1)
			if got.Mult != wantMult || got.NB != wantNB {
				rep.Violate(fmt.Sprintf("replay:state:%s:%s", sp.Cls, sp.Rak),
					fmt.Sprintf("caller %d after response %d (%s, Retry-After %s %d) at %d ms: specification (multiplier %d, not-before %d ms), implementation (%d, %d ms)",
						c, k+1, sp.Cls, sp.Rak, sp.Ov, rp.T, wantMult, wantNB, got.Mult, got.NB), ctxt)
				break
			}
			prevMult, prevNB = wantMult, wantNB
			if k+1 < len(call.Posts) {
				nx := call.Posts[k+1].T
				lo, hi := max(rp.T, wantNB), max(rp.T, wantNB+jitterMs-1)
				rep.Add("windows_compared", 1)
				if nx < lo || nx > hi {
					rep.Violate(fmt.Sprintf("replay:window:%s:%s:%s", sp.Cls, sp.Rak, map[bool]string{true: "early", false: "late"}[nx < lo]),
						fmt.Sprintf("caller %d: request %d came at %d ms, the specification allows [%d, %d] ms after %s at %d ms", c, k+2, nx, lo, hi, sp.Cls, rp.T), ctxt)
					break
				}
			}
		}
	}
}

func abs(x int) int {
	if x < 0 {
		return -x
	}
	return x
}

// TestReplay executes the scenarios of the specification's behaviours (VERIF_BEHAVIOURS) on the real
// client under virtual time and compares; the recorded runs go to replay-traces.ndjson.
func TestReplay(t *testing.T) {
	path := os.Getenv("VERIF_BEHAVIOURS")
	if path == "" {
		t.Skip("VERIF_BEHAVIOURS not set")
	}
	behs, err := vh.LoadNDJSON[[]Step](path)
	if err != nil {
		t.Fatal(err)
	}
	rep := vh.NewReport("c13-replay", "behaviours of Retry.tla (TLC simulation, constants of the code) replayed on the real client under virtual time: "+
		"result and number of requests where jitter cannot change them, shared (multiplier, not-before) after every response and every request instant "+
		"against the specification's window in single-caller behaviours, property monitors on every timeline; the behaviour fixes the http.Client "+
		"configuration of the client (none / plain / own CheckRedirect passing, bounding, handing back, refusing / jar / Timeout), the wire kind of every "+
		"response (redirect chains converting or preserving the POST, loops) and the spelling of every 200 body (10 legal JSON spellings of the correct "+
		"response, 11 unparsable bodies; success must carry the content of that very response); process histories of 8 clients: every returned result "+
		"(error value with status and body, *http.Response, body slice, parsed struct, SCT) is kept as handed out and re-inspected after every later return "+
		"and at the end of every client's life (Inspect events; monitor retained-result-changed); non-trivial = distinct set of "+
		"(response class, Retry-After form, body spelling, redirect kind x http.Client, result) with at least two requests")
	rec, err := vh.NewRecorder("replay-traces.ndjson")
	if err != nil {
		t.Fatal(err)
	}
	scen, err := vh.NewRecorder("replay-scenarios.ndjson")
	if err != nil {
		t.Fatal(err)
	}
	for i, beh := range behs {
		sc, err := scenarioOf(beh, i)
		if err != nil {
			t.Fatal(err)
		}
		beginScenario(rec, replayHistoryLen, sc)
		run := RunScenario(t, sc)
		CheckRun(rep, run, sc)
		if run.Runaway != "" {
			proc.poisoned = true
			continue
		}
		compareWithSpec(rep, beh, sc, run, i)
		writeEvents(rec, scen, run, sc)
		rep.Eval(runKey(run))
		if i == 0 || i == len(behs)/2 {
			rep.Sample(map[string]any{"scenario": sc, "calls": run.Calls})
		}
	}
	rep.Replayed = len(behs)
	if err := rec.Close(); err != nil {
		t.Fatal(err)
	}
	if err := scen.Close(); err != nil {
		t.Fatal(err)
	}
	rep.Extra["events"] = rec.N
	if err := rep.Write(); err != nil {
		t.Fatal(err)
	}
}

// TestTrace runs seeded random scenarios (1..3 goroutines sharing one client, finite and infinite
// scripts, deadlines and cancellations, redirects, both Retry-After forms) and records them for
// RetryTrace.tla; the property monitors run on every timeline.
func TestTrace(t *testing.T) {
	ntraces := vh.EnvInt("VERIF_TRACES", 150)
	rep := vh.NewReport("c13-trace", "seeded random scenarios on the real client under virtual time and -race (1..3 goroutines sharing one client, "+
		"finite scripts and infinite ones under a deadline or cancellation, redirect chains of 1..3 hops over 301/302/303/307/308 and loops through "+
		"8 http.Client configurations, 200 bodies in 10 legal and 11 illegal spellings, jsonclient.Options with / without UserAgent and Authorization, "+
		"Retry-After in seconds / HTTP-date / garbage); process histories of 6 consecutive clients whose returned results are kept as handed out and "+
		"re-inspected after every later return; Process/Reset{hc}/Call/Post{id,w,sp}/State/Return{id}/Inspect{seen} events validated by RetryTrace.tla (the specification "+
		"decides what class the submission sees), property monitors on every timeline; non-trivial = distinct set of "+
		"(response class, Retry-After form, body spelling, redirect kind x http.Client, result) with at least two requests")
	rec, err := vh.NewRecorder("traces.ndjson")
	if err != nil {
		t.Fatal(err)
	}
	scen, err := vh.NewRecorder("scenarios.ndjson")
	if err != nil {
		t.Fatal(err)
	}
	rng := vh.Rand(13)
	for i := 0; i < ntraces; i++ {
		sc := randScenario(rng)
		beginScenario(rec, traceHistoryLen, sc)
		run := RunScenario(t, sc)
		CheckRun(rep, run, sc)
		writeEvents(rec, scen, run, sc)
		rep.Eval(runKey(run))
		if i < 2 {
			rep.Sample(map[string]any{"scenario": sc, "calls": run.Calls})
		}
	}
	if err := rec.Close(); err != nil {
		t.Fatal(err)
	}
	if err := scen.Close(); err != nil {
		t.Fatal(err)
	}
	rep.Extra["events"] = rec.N
	if err := rep.Write(); err != nil {
		t.Fatal(err)
	}
}

// TestScenario re-executes one scenario (VERIF_SCENARIO: a JSON file) - used by --replay.
func TestScenario(t *testing.T) {
	path := os.Getenv("VERIF_SCENARIO")
	if path == "" {
		t.Skip("VERIF_SCENARIO not set")
	}
	b, err := os.ReadFile(path)
	if err != nil {
		t.Fatal(err)
	}
	// one scenario, or the scenarios (consecutive clients) of one process history
	var scs []Scenario
	if err := json.Unmarshal(b, &scs); err != nil {
		var sc Scenario
		if err := json.Unmarshal(b, &sc); err != nil {
			t.Fatal(err)
		}
		scs = []Scenario{sc}
	}
	rep := vh.NewReport("c13-scenario", "one scenario / one process history re-executed")
	rec, err := vh.NewRecorder("traces.ndjson")
	if err != nil {
		t.Fatal(err)
	}
	scen, err := vh.NewRecorder("scenarios.ndjson")
	if err != nil {
		t.Fatal(err)
	}
	for i := 0; i < vh.EnvInt("VERIF_REPEAT", 20); i++ { // jitter differs from run to run
		for k, sc := range scs {
			hl := traceHistoryLen
			if len(scs) > 1 { // the history as it was: a new one with its first client
				hl = 1 << 30
				proc.poisoned = proc.poisoned || k == 0
			}
			beginScenario(rec, hl, sc)
			run := RunScenario(t, sc)
			CheckRun(rep, run, sc)
			writeEvents(rec, scen, run, sc)
			rep.Eval(runKey(run))
		}
	}
	if err := rec.Close(); err != nil {
		t.Fatal(err)
	}
	if err := scen.Close(); err != nil {
		t.Fatal(err)
	}
	if err := rep.Write(); err != nil {
		t.Fatal(err)
	}
}
