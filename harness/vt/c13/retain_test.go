//go:build go1.25

package c13

import (
	"bytes"
	"errors"
	"fmt"
	"net/http"
	"sort"
	"strconv"
	"strings"
	"sync"

	ct "github.com/google/certificate-transparency-go"
	"github.com/google/certificate-transparency-go/jsonclient"

	"verifharness/vh"
)

// The retained-results layer of Retry.tla (sent, retained, Inspect): the PROCESS history.
//
// Every scripted exchange of the process has an identity (its body is unlike the body of every other exchange, also in
// length).  Whatever a submission returned - the error value (a jsonclient.RspError with status AND body, or the
// context's error), the *http.Response, the raw body slice, the parsed response struct, the SCT - is kept here exactly as
// the caller was handed it (no copies), together with a rendering of it made at the instant of return.  After every
// later return of anybody (same caller, another caller sharing the client, a caller of a later client of the process)
// and at the end of every client's life all kept results are rendered again: a result is a value, so it still has to
// be what it was.  What each kept result IS now (which exchange of the process it carries) goes to the trace as an
// Inspect event and is judged by RetryTrace.tla against the specification's `retained`.

// historyLen: scenarios (clients) per process history; the history is forgotten afterwards (event Process).
const (
	replayHistoryLen = 8
	traceHistoryLen  = 6
)

type sentRec struct {
	cls  string // the class the submission sees (harness reading: seenClass)
	code int
	body string
}

// kept is one returned result, held as the caller holds it.
type kept struct {
	c, no  int
	k      string // ok | status | ctx
	id     int    // the exchange it carried when it was returned
	api    string
	hc     string
	client int // serial of the client in the process history
	err    error
	ctxErr error
	hr     *http.Response
	body   []byte
	rsp    *genericRsp
	sct    *ct.SignedCertificateTimestamp
	own    int // the exchange that ended the submission
	snap   map[string]string
	told   bool
}

// Change: a kept result that no longer is what was returned.
type Change struct {
	C          int    `json:"c"`
	No         int    `json:"no"`
	K          string `json:"k"`
	API        string `json:"api"`
	ID         int    `json:"id"`     // what it carried when returned
	NowID      int    `json:"now_id"` // what it carries now (-1: nothing the server ever sent)
	Field      string `json:"field"`
	Was        string `json:"was"`
	Is         string `json:"is"`
	SameClient bool   `json:"same_client"`
	After      int    `json:"after_return_of"` // the caller whose return preceded the inspection (0: end of a client's life)
	Later      int    `json:"later_exchanges"` // exchanges the server answered since the result was returned
}

type processHist struct {
	mu       sync.Mutex
	xid      int
	sent     map[int]sentRec
	byBody   map[string]int
	callNo   map[int]int
	kept     []*kept
	client   int
	count    int
	poisoned bool
	sentAt   map[*kept]int
	scens    []any // the scenarios (clients) of the history so far
}

var proc = &processHist{}

func (p *processHist) reset() {
	p.mu.Lock()
	defer p.mu.Unlock()
	p.xid, p.client, p.poisoned = 0, 0, false
	p.sent, p.byBody, p.callNo, p.kept, p.sentAt = map[int]sentRec{}, map[string]int{}, map[int]int{}, nil, map[*kept]int{}
	p.scens = nil
}

// beginScenario starts a new client of the process; every historyLen clients (and after a run whose events were not
// written) a new process history begins.
func beginScenario(rec *vh.Recorder, historyLen int, sc any) {
	if proc.sent == nil || proc.poisoned || proc.count%historyLen == 0 {
		proc.reset()
		rec.Emit(map[string]any{"ev": "Process"})
	}
	proc.mu.Lock()
	proc.count++
	proc.client++
	proc.scens = append(proc.scens, sc)
	proc.mu.Unlock()
}

func (p *processHist) nextID() int {
	p.mu.Lock()
	defer p.mu.Unlock()
	if p.sent == nil {
		p.sent, p.byBody, p.callNo, p.sentAt = map[int]sentRec{}, map[string]int{}, map[int]int{}, map[*kept]int{}
	}
	p.xid++
	return p.xid
}

func (p *processHist) nextCall(caller int) int {
	p.mu.Lock()
	defer p.mu.Unlock()
	if p.callNo == nil {
		p.sent, p.byBody, p.callNo, p.sentAt = map[int]sentRec{}, map[string]int{}, map[int]int{}, map[*kept]int{}
	}
	p.callNo[caller]++
	return p.callNo[caller]
}

func (p *processHist) sentExchange(pr PostRec) {
	p.mu.Lock()
	defer p.mu.Unlock()
	p.sent[pr.Content] = sentRec{cls: pr.Cls, code: pr.Code, body: pr.Body}
	if pr.Body != "" {
		if _, dup := p.byBody[pr.Body]; !dup {
			p.byBody[pr.Body] = pr.Content
		}
	}
}

// filler makes the length of a body depend on the exchange (bodies of distinct exchanges differ in length as well).
func filler(xid int) string {
	return " " + strings.Repeat("~", (xid*7)%23) + strings.Repeat("#", xid%5)
}

// identify: which exchange of the process the kept result carries NOW: the one that ended its submission (own), another
// one (its identity), or nothing the server ever sent (-1).  The context's error carries none (0).
func (p *processHist) identify(kp *kept) int {
	switch kp.k {
	case "ctx":
		if kp.err != nil && kp.ctxErr != nil && errors.Is(kp.err, kp.ctxErr) {
			return 0
		}
		return -1
	case "status":
		var re jsonclient.RspError
		if !errors.As(kp.err, &re) {
			return -1
		}
		body := string(re.Body)
		if s, ok := p.sent[kp.own]; ok {
			if s.cls == refused {
				// the property leaves the body of a refused redirect open; the status is a 3xx
				if re.StatusCode >= 300 && re.StatusCode <= 399 {
					return kp.own
				}
			} else if re.StatusCode == s.code && body == s.body {
				return kp.own
			}
		}
		if id, ok := p.byBody[body]; ok && p.sent[id].code == re.StatusCode {
			return id
		}
		return -1
	case "ok":
		if kp.api == "post" {
			if kp.hr == nil || kp.hr.StatusCode != 200 || kp.rsp == nil {
				return -1
			}
			id := kp.rsp.V - 7
			s, ok := p.sent[id]
			if !ok || string(kp.body) != s.body || kp.rsp.S != genS || !bytes.Equal(kp.rsp.B, genB) {
				return -1
			}
			return id
		}
		sct := kp.sct
		if sct == nil || sct.SCTVersion != ct.V1 || !bytes.Equal(sct.LogID.KeyID[:], sctID) || len(sct.Extensions) != 0 ||
			int(sct.Signature.Algorithm.Hash) != 4 || int(sct.Signature.Algorithm.Signature) != 3 ||
			!bytes.Equal(sct.Signature.Signature, sctSigBody) {
			return -1
		}
		id := int(int64(sct.Timestamp) - sctTimestamp)
		if _, ok := p.sent[id]; !ok {
			return -1
		}
		return id
	}
	return -1
}

// render: everything the caller was handed, field by field, as text.
func render(kp *kept) map[string]string {
	out := map[string]string{}
	var re jsonclient.RspError
	switch {
	case kp.err == nil:
		out["err"] = "<nil>"
	case errors.As(kp.err, &re):
		out["status"] = strconv.Itoa(re.StatusCode)
		out["body"] = string(re.Body)
		if re.Err != nil {
			out["err"] = re.Err.Error()
		}
	default:
		out["err"] = fmt.Sprintf("%T|%s|is-ctx=%v", kp.err, kp.err.Error(), kp.ctxErr != nil && errors.Is(kp.err, kp.ctxErr))
	}
	if kp.err != nil {
		return out
	}
	if kp.hr != nil {
		keys := make([]string, 0, len(kp.hr.Header))
		for k, v := range kp.hr.Header {
			keys = append(keys, k+"="+strings.Join(v, ","))
		}
		sort.Strings(keys)
		method := ""
		if kp.hr.Request != nil {
			method = kp.hr.Request.Method
		}
		out["http"] = fmt.Sprintf("%d|%s|%s|%s", kp.hr.StatusCode, kp.hr.Status, method, strings.Join(keys, ";"))
	}
	if kp.api == "post" {
		out["rawbody"] = string(kp.body)
		if kp.rsp != nil {
			out["rsp"] = fmt.Sprintf("v=%d|s=%q|b=%x", kp.rsp.V, kp.rsp.S, kp.rsp.B)
		}
	}
	if kp.sct != nil {
		s := kp.sct
		out["sct"] = fmt.Sprintf("ver=%d|id=%x|ts=%d|ext=%x|alg=%d/%d|sig=%x", s.SCTVersion, s.LogID.KeyID[:], s.Timestamp, []byte(s.Extensions),
			s.Signature.Algorithm.Hash, s.Signature.Algorithm.Signature, s.Signature.Signature)
	}
	return out
}

// keep registers the result of a submission at the instant of its return and says which exchange it carries.
// The caller holds w.mu.
func (p *processHist) keep(kp *kept, rec *CallRec) int {
	p.mu.Lock()
	defer p.mu.Unlock()
	kp.client = p.client
	if np := len(rec.Posts); np > 0 {
		kp.own = rec.Posts[np-1].Content
	}
	if kp.k != "ok" && kp.k != "status" && kp.k != "ctx" {
		return -1 // neither of the results the property knows: reported by the monitor, not kept
	}
	kp.id = p.identify(kp)
	kp.snap = render(kp)
	p.kept = append(p.kept, kp)
	p.sentAt[kp] = p.xid
	return kp.id
}

// inspect looks again at every result of the process history: after the return of `after` (0: at the end of the client's
// life).  What each of them is now goes to the trace; a result that changed is noted for the monitor (once).
func (w *world) inspect(after int) {
	w.mu.Lock()
	defer w.mu.Unlock()
	p := proc
	p.mu.Lock()
	defer p.mu.Unlock()
	seen := make([]map[string]any, 0, len(p.kept))
	for _, kp := range p.kept {
		id := kp.id
		now := render(kp)
		field := ""
		for _, f := range []string{"status", "body", "err", "http", "rawbody", "rsp", "sct"} {
			if now[f] != kp.snap[f] {
				field = f
				break
			}
		}
		if field != "" {
			id = p.identify(kp)
			if id == kp.id {
				id = -1 // it changed where its identity does not show: it is no longer the value that was returned
			}
			if !kp.told {
				kp.told = true
				w.run.Changed = append(w.run.Changed, Change{C: kp.c, No: kp.no, K: kp.k, API: kp.api, ID: kp.id, NowID: id, Field: field,
					Was: kp.snap[field], Is: now[field], SameClient: kp.client == p.client, After: after, Later: p.xid - p.sentAt[kp]})
			}
		}
		seen = append(seen, map[string]any{"c": kp.c, "no": kp.no, "k": kp.k, "id": id})
	}
	w.emit(map[string]any{"ev": "Inspect", "c": after, "t": w.ms(), "seen": seen})
}

// checkRetained: the function law with retained results, stated on what was observed.
func checkRetained(rep *vh.Report, run *Run, sc any) {
	for _, ch := range run.Changed {
		where := "a later client of the process"
		if ch.SameClient {
			where = "the same client"
		}
		rep.Violate(fmt.Sprintf("monitor:retained-result-changed:%s:%s", ch.K, ch.Field),
			fmt.Sprintf("the result (%s, api %s) that submission %d of caller %d returned is no longer what was returned: its %s was %q and, %d exchange(s) "+
				"of the server later (inspection through %s, after the return of caller %d), is %q; it carried exchange %d and now carries %d "+
				"(-1: nothing the server ever sent).  What a call returned must stay what it returned",
				ch.K, ch.API, ch.No, ch.C, ch.Field, clip(ch.Was), ch.Later, where, ch.After, clip(ch.Is), ch.ID, ch.NowID),
			map[string]any{"scenario": sc, "history": append([]any(nil), proc.scens...), "change": ch})
	}
	rep.Add("retained_results_inspected", len(run.Calls))
}

func clip(s string) string {
	if len(s) > 160 {
		return s[:160] + "..."
	}
	return s
}
