//go:build go1.25

package c13

import (
	"bytes"
	"context"
	"errors"
	"fmt"
	"io"
	"net/http"
	"net/http/cookiejar"
	"net/url"
	"reflect"
	"strconv"
	"strings"
	"sync"
	"sync/atomic"
	"testing"
	"testing/synctest"
	"time"

	ct "github.com/google/certificate-transparency-go"
	"github.com/google/certificate-transparency-go/client"
	"github.com/google/certificate-transparency-go/jsonclient"
)

// RespSpec is one scripted answer of the server: a wire response of Retry.tla and its materialization.
type RespSpec struct {
	// ok / bad200: status 200 with a body spelled Sp (wire kind b200; ok iff Sp is a legal spelling of the correct
	// response); neterr; redir / pres / loop: redirect chains (Var) that convert the POST, preserve it, never end;
	// s408 s429 s503 other
	Cls  string `json:"cls"`
	Sp   string `json:"sp"`   // spelling of the 200 body (ok, bad200, and the target of pres): see bodies_test.go
	K    int    `json:"k"`    // variation within the spelling
	Rak  string `json:"rak"`  // Retry-After form: none | secs | date | garbage (sent, but not a valid form)
	Rav  int    `json:"rav"`  // secs: seconds; date: seconds after the (rounded up) instant of the response
	Code int    `json:"code"` // concrete status (0: the default of the class)
	// variant: neterr: "", bodyerr, wrapdeadline, wrapcanceled, urldeadline; other: noloc; with rak=date on 429/503: ""
	// (IMF-fixdate), rfc850, asctime; redir / pres / loop: the statuses of the hops, "302", "307-303", ... optionally
	// followed by "/nobody" (the 3xx responses have no body) or "/body" (they have one; the default)
	Var string `json:"var"`
}

// normalize maps the forms of earlier scenario files (variants via307 / via308 of ok, empty / trunc of bad200) to
// the present ones and fills in defaults.
func (sp RespSpec) normalize() RespSpec {
	switch sp.Cls {
	case "ok":
		if sp.Var == "via307" || sp.Var == "via308" {
			sp.Cls, sp.Var = "pres", sp.Var[3:]
		}
		if sp.Sp == "" {
			sp.Sp = "canon"
		}
	case "bad200":
		if sp.Sp == "" {
			sp.Sp = map[string]string{"": "html", "empty": "empty", "trunc": "trunc"}[sp.Var]
		}
		sp.Var = ""
	}
	if sp.Cls == "pres" && sp.Sp == "" {
		sp.Sp = "canon"
	}
	return sp
}

// wire gives the wire kind and spelling under which Retry.tla knows the response.
func (sp RespSpec) wire() (string, string) {
	switch sp.Cls {
	case "ok", "bad200":
		return "b200", sp.Sp
	case "pres":
		return "pres", sp.Sp
	}
	return sp.Cls, "-"
}

// hops gives the statuses of a redirect chain and whether its 3xx responses carry a body.
func (sp RespSpec) hops() (codes []int, withBody bool) {
	v, withBody := sp.Var, true
	if i := strings.IndexByte(v, '/'); i >= 0 {
		withBody = v[i+1:] != "nobody"
		v = v[:i]
	}
	for _, f := range strings.Split(v, "-") {
		if c, err := strconv.Atoi(f); err == nil && c >= 300 && c < 400 {
			codes = append(codes, c)
		}
	}
	if len(codes) == 0 {
		switch {
		case sp.Code >= 300 && sp.Code < 400:
			codes = []int{sp.Code}
		case sp.Cls == "pres":
			codes = []int{307}
		default:
			codes = []int{302}
		}
	}
	return codes, withBody
}

// The http.Client the caller hands to the client (Retry.tla: HCKinds).  All of them use the scripted transport.
var hcKinds = []string{"nil", "plain", "follow", "limit", "jar", "timeout", "uselast", "refuse"}

func follows(hc string) bool { return hc != "uselast" && hc != "refuse" }

// seenClass: the class of the property the submission sees of a scripted answer through a client configured hc -
// the harness' own reading of the property for its monitors (the specification has its own: Seen).  "refused": a
// redirect the client's policy refused (the caller's, or net/http's limit of 10 hops on a loop) - the property only
// says it is not a success.
func seenClass(hc string, sp RespSpec) string {
	switch sp.Cls {
	case "ok", "bad200":
		return bodyClass(sp.Sp)
	case "pres", "redir", "loop":
		switch {
		case hc == "uselast":
			return "other"
		case hc == "refuse" || sp.Cls == "loop":
			return "refused"
		case sp.Cls == "pres":
			return bodyClass(sp.Sp)
		}
		return "redir"
	}
	return sp.Cls
}

// CallSpec is one submission of a caller.
type CallSpec struct {
	StartMs int        `json:"start"`  // not before this virtual instant
	API     string     `json:"api"`    // post | addchain | addprechain
	CtxKind string     `json:"ctxk"`   // none | deadline | cancel
	CtxAtMs int        `json:"ctxat"`  // absolute virtual instant at which the context ends
	Script  []RespSpec `json:"script"` // answers, in order
	Tail    *RespSpec  `json:"tail"`   // answer repeated for ever after the script (infinite scripts)
}

// Scenario is one client shared by callers 1..len(Callers), each making its calls one after the other.
type Scenario struct {
	HC      string       `json:"hc"`   // configuration of the http.Client handed to the client ("" = plain)
	Opts    string       `json:"opts"` // "" | ua: jsonclient.Options with UserAgent and Authorization
	Callers [][]CallSpec `json:"callers"`
}

// PostRec is one request as the RoundTripper saw it.
type PostRec struct {
	T     int      `json:"t"`
	Spec  RespSpec `json:"spec"`
	Cls   string   `json:"cls"`
	Code  int      `json:"code"`
	Body  string   `json:"body"`
	Content int    `json:"content"` // identity of the exchange: what distinguishes its response from every other of the process history
	Asked int      `json:"asked"` // instant before which the response asked not to retry (-1: nothing asked)
	Rav   int      `json:"rav"`   // as written to the trace: seconds, or the date as absolute ms
	Rak   string   `json:"rak"`
	PreMult int    `json:"premult"` // shared state when the request arrived
	PreNB   int    `json:"prenb"`
}

// CallRec is what one submission did.
type CallRec struct {
	Caller int       `json:"caller"`
	Spec   CallSpec  `json:"call"`
	T0     int       `json:"t0"`
	Posts  []PostRec `json:"posts"`
	TRet   int       `json:"tret"`
	Res    string    `json:"res"` // ok | status | ctx | other:<error>
	Status int       `json:"status"`
	ErrBody string   `json:"errbody"`
	CtxErrAtRet string `json:"ctxerr"` // ctx.Err() when the call returned
	ErrIsCtx bool    `json:"erristctx"`
	Panic  string    `json:"panic"`
	SCTOK  bool      `json:"sctok"`
	RetMult int      `json:"retmult"` // shared state when the submission returned
	RetNB   int      `json:"retnb"`
	No      int      `json:"no"`    // which submission of this caller in the process history
	RetID   int      `json:"retid"` // the exchange whose response the returned result IS (0: the context's error; -1: none)
}

// Snap is the shared back-off state read when every goroutine of the bubble was blocked.
type Snap struct {
	T    int `json:"t"`
	Mult int `json:"mult"`
	NB   int `json:"nb"`
}

// Run is everything observed in one scenario.
type Run struct {
	HC     string           `json:"hc"`
	Calls  []*CallRec       `json:"calls"`
	Snaps  []Snap           `json:"snaps"`
	Events []map[string]any `json:"events"` // Call / Post / State / Return in recorder order
	// Runaway: a caller sent more requests than any admissible pacing allows (scripts are finite and the only
	// infinite tail is 503, which is paced by at least the 1 s back-off): the scripted server ended the submission
	// with a non-retryable status so that a retry loop that never waits cannot exhaust time and memory.
	Runaway string `json:"runaway"`
	// Changed: results of the process history that no longer are what was returned (see retain_test.go)
	Changed []Change `json:"changed"`
}

const maxPostsPerCall = 3000

type ctxKey struct{}

type callState struct {
	caller int
	spec   CallSpec
	next   int
	rec    *CallRec
	// the redirect chain in progress: statuses still to come, the answer at its far end to a POST / to another
	// method, a chain that never ends
	xid       int // identity of the scripted exchange in progress
	chain     []int
	chainBody bool
	finalPost string
	finalElse string
	loop      int
}

type world struct {
	hc    string
	mu    sync.Mutex
	epoch time.Time
	run   *Run
	act   chan struct{}
	state func() (int, int) // (multiplier, not-before in ms; 0 when never set) through the verif hook
}

func (w *world) ms() int { return int(time.Since(w.epoch) / time.Millisecond) }

func (w *world) emit(ev map[string]any) {
	// caller holds w.mu
	w.run.Events = append(w.run.Events, ev)
}

func defaultCode(cls string) int {
	switch cls {
	case "ok", "bad200":
		return 200
	case "s408":
		return 408
	case "s429":
		return 429
	case "s503":
		return 503
	case "redir":
		return 302
	case "other":
		return 404
	}
	return 0
}

type errReader struct {
	data []byte
	done bool
}

func (e *errReader) Read(p []byte) (int, error) {
	if !e.done && len(e.data) > 0 {
		e.done = true
		return copy(p, e.data), nil
	}
	return 0, errors.New("scripted: connection reset while reading the body")
}

// respBody behaves like the body of a net/http response: once closed it cannot be read any more.
type respBody struct {
	r      io.Reader
	closed atomic.Bool
}

func (b *respBody) Read(p []byte) (int, error) {
	if b.closed.Load() {
		return 0, errors.New("http: read on closed response body")
	}
	return b.r.Read(p)
}

func (b *respBody) Close() error { b.closed.Store(true); return nil }

func mkResp(req *http.Request, code int, hdr http.Header, body io.Reader) *http.Response {
	if hdr == nil {
		hdr = http.Header{}
	}
	r := &http.Response{StatusCode: code, Status: fmt.Sprintf("%d %s", code, http.StatusText(code)), Proto: "HTTP/1.1",
		ProtoMajor: 1, ProtoMinor: 1, Header: hdr, Body: &respBody{r: body}, Request: req, ContentLength: -1}
	if body == nil { // a response without a body, as net/http hands it out
		r.Body, r.ContentLength = http.NoBody, 0
	}
	return r
}

// hop is one 3xx answer of a redirect chain.
func (cs *callState) hop(req *http.Request, code int, hdr http.Header) (*http.Response, string) {
	if hdr == nil {
		hdr = http.Header{}
	}
	hdr.Set("Location", "/redirected")
	hdr.Add("Set-Cookie", fmt.Sprintf("hop%d=%d; Path=/", cs.caller, code))
	if !cs.chainBody {
		return mkResp(req, code, hdr, nil), ""
	}
	body := fmt.Sprintf("<a href=\"/redirected\">%d for caller %d request %d exchange %d</a>%s", code, cs.caller, cs.next, cs.xid, filler(cs.xid))
	return mkResp(req, code, hdr, strings.NewReader(body)), body
}

// redirected answers the follow-up requests of a redirect chain (they are not exchanges of the script).
func (cs *callState) redirected(req *http.Request) *http.Response {
	switch {
	case cs.loop != 0:
		r, _ := cs.hop(req, cs.loop, nil)
		return r
	case len(cs.chain) > 0:
		code := cs.chain[0]
		cs.chain = cs.chain[1:]
		r, _ := cs.hop(req, code, nil)
		return r
	case req.Method == http.MethodPost:
		return mkResp(req, 200, nil, strings.NewReader(cs.finalPost))
	}
	// whatever other method arrives here gets a perfectly good answer
	return mkResp(req, 200, nil, strings.NewReader(cs.finalElse))
}

// RoundTrip is the scripted server.  It behaves like a transport: a request whose context has ended
// is not sent (the context's error comes back, nothing is recorded).
func (w *world) RoundTrip(req *http.Request) (*http.Response, error) {
	cs, _ := req.Context().Value(ctxKey{}).(*callState)
	if cs == nil {
		return nil, errors.New("harness: request without caller")
	}
	if req.Body != nil {
		io.Copy(io.Discard, req.Body)
		req.Body.Close()
	}
	if err := req.Context().Err(); err != nil {
		return nil, err
	}
	if strings.HasPrefix(req.URL.Path, "/redirected") {
		return cs.redirected(req), nil
	}
	var sp RespSpec
	switch {
	case cs.next < len(cs.spec.Script):
		sp = cs.spec.Script[cs.next]
	case cs.spec.Tail != nil:
		sp = *cs.spec.Tail
	default:
		sp = RespSpec{Cls: "other", Code: 410, Var: "script-exhausted"}
	}
	sp = sp.normalize()
	cs.next++
	if cs.next > maxPostsPerCall {
		w.mu.Lock()
		if w.run.Runaway == "" {
			w.run.Runaway = fmt.Sprintf("caller %d sent %d requests by virtual time %d ms (last scripted class %s)", cs.caller, cs.next, w.ms(), sp.Cls)
		}
		w.mu.Unlock()
		return mkResp(req, 410, nil, bytes.NewReader([]byte("harness: runaway retry loop stopped"))), nil
	}
	code := sp.Code
	if code == 0 {
		code = defaultCode(sp.Cls)
	}
	w.mu.Lock()
	t := w.ms()
	cs.xid = proc.nextID()
	pr := PostRec{T: t, Spec: sp, Cls: seenClass(w.hc, sp), Code: code, Asked: -1, Rak: "none", Content: cs.xid}
	cs.chain, cs.loop = nil, 0
	pr.PreMult, pr.PreNB = w.state()
	hdr := http.Header{}
	switch sp.Rak {
	case "secs":
		hdr.Set("Retry-After", strconv.Itoa(sp.Rav))
		pr.Rak, pr.Rav = "secs", sp.Rav
		pr.Asked = t + 1000*sp.Rav
	case "date":
		d := time.Now().Add(time.Duration(sp.Rav) * time.Second)
		if !d.Equal(d.Truncate(time.Second)) {
			d = d.Truncate(time.Second).Add(time.Second)
		}
		// the three forms of HTTP-date (RFC 7231 7.1.1.1): IMF-fixdate and the two obsolete forms every recipient must accept
		layout := http.TimeFormat
		switch sp.Var {
		case "rfc850":
			layout = "Monday, 02-Jan-06 15:04:05 GMT"
		case "asctime":
			layout = time.ANSIC
		}
		hdr.Set("Retry-After", d.UTC().Format(layout))
		pr.Rak, pr.Rav = "date", int(d.Sub(w.epoch)/time.Millisecond)
		pr.Asked = pr.Rav
	case "garbage":
		hdr.Set("Retry-After", []string{"soon", "1.5", "12s", "Fri, 31 Dec 1999", "0x10"}[(sp.Rav%5+5)%5])
	}
	if sp.Cls != "s429" && sp.Cls != "s503" {
		// the property (and the code) only know Retry-After on 429 / 503
		pr.Asked = -1
	}
	var resp *http.Response
	var err error
	body := ""
	switch sp.Cls {
	case "ok", "bad200":
		body = spellBody(cs.spec.API, sp.Sp, pr.Content, sp.K)
		resp = mkResp(req, 200, hdr, strings.NewReader(body))
	case "redir", "pres", "loop":
		// a chain of redirects: converting the POST (at least one 301/302/303), preserving it (307/308 only), endless.
		// At the far end a POST gets the body spelled sp.Sp, any other method a perfectly good answer.
		codes, withBody := sp.hops()
		cs.chainBody = withBody
		cs.finalPost = spellBody(cs.spec.API, sp.Sp, pr.Content, sp.K)
		cs.finalElse = spellBody(cs.spec.API, "canon", pr.Content, 0)
		if sp.Cls == "loop" {
			cs.loop = codes[0]
		} else {
			cs.chain = codes[1:]
		}
		pr.Code = codes[0]
		resp, body = cs.hop(req, codes[0], hdr)
		if follows(w.hc) && sp.Cls == "pres" {
			pr.Code, body = 200, cs.finalPost
		}
	case "neterr":
		// transport errors; the caller's context is alive in all of them.  The wrap* variants have the shape of
		// net/http's Client.Timeout / per-request deadline errors: they satisfy errors.Is(err, context.DeadlineExceeded)
		// (or Canceled) although the caller's own context has not ended - still a transport error, still retried.
		switch sp.Var {
		case "bodyerr":
			resp = mkResp(req, code, hdr, &errReader{data: []byte("partial")})
		case "wrapdeadline":
			err = fmt.Errorf("net/http: request canceled (Client.Timeout exceeded while awaiting headers): %w", context.DeadlineExceeded)
		case "wrapcanceled":
			err = fmt.Errorf("net/http: request canceled while waiting for connection: %w", context.Canceled)
		case "urldeadline":
			err = &url.Error{Op: "Post", URL: req.URL.String(), Err: context.DeadlineExceeded}
		default:
			err = errors.New("scripted: connection refused")
		}
	default: // s408 s429 s503 other
		// distinguishable from the body of every other exchange of the process, also by its length
		body = fmt.Sprintf("exchange %d: status %d for caller %d request %d%s", cs.xid, code, cs.caller, cs.next, filler(cs.xid))
		resp = mkResp(req, code, hdr, bytes.NewReader([]byte(body)))
	}
	pr.Body = body
	cs.rec.Posts = append(cs.rec.Posts, pr)
	proc.sentExchange(pr)
	wk, wsp := sp.wire()
	w.emit(map[string]any{"ev": "Post", "c": cs.caller, "t": t, "id": cs.xid, "cls": pr.Cls, "w": wk, "sp": wsp, "rak": pr.Rak, "rav": pr.Rav, "code": pr.Code})
	w.mu.Unlock()
	w.poke()
	return resp, err
}

func (w *world) poke() {
	select {
	case w.act <- struct{}{}:
	default:
	}
}

type nullLogger struct{}

func (nullLogger) Printf(string, ...interface{}) {}

type genericRsp struct {
	V int    `json:"v"`
	S string `json:"s"`
	B []byte `json:"b"`
}

// newHTTPClient builds the http.Client of configuration hc over the scripted transport; for "nil" the client gets no
// http.Client at all and the scripted transport stands in for http.DefaultTransport while the scenario runs.
func newHTTPClient(hc string, w *world) (*http.Client, func()) {
	restore := func() {}
	switch hc {
	case "nil":
		old := http.DefaultTransport
		http.DefaultTransport = w
		return nil, func() { http.DefaultTransport = old }
	case "", "plain":
		return &http.Client{Transport: w}, restore
	case "follow": // a policy of the caller's own that lets redirects pass (it would log them, say)
		return &http.Client{Transport: w, CheckRedirect: func(req *http.Request, via []*http.Request) error {
			if len(via) >= 20 {
				return errors.New("caller's policy: stopped after 20 redirects")
			}
			return nil
		}}, restore
	case "limit": // a policy of the caller's own that bounds the hops
		return &http.Client{Transport: w, CheckRedirect: func(req *http.Request, via []*http.Request) error {
			if len(via) >= 5 {
				return fmt.Errorf("caller's policy: stopped after %d redirects", len(via))
			}
			return nil
		}}, restore
	case "jar":
		jar, err := cookiejar.New(nil)
		if err != nil {
			panic(err)
		}
		return &http.Client{Transport: w, Jar: jar}, restore
	case "timeout": // never reached: the scripted server answers in zero time
		return &http.Client{Transport: w, Timeout: time.Hour}, restore
	case "uselast":
		return &http.Client{Transport: w, CheckRedirect: func(*http.Request, []*http.Request) error { return http.ErrUseLastResponse }}, restore
	case "refuse":
		return &http.Client{Transport: w, CheckRedirect: func(*http.Request, []*http.Request) error {
			return errors.New("caller's policy: no redirects")
		}}, restore
	}
	panic("harness: unknown http.Client configuration " + hc)
}

// RunScenario executes one scenario in a fresh bubble (virtual clock) on a fresh client.
func RunScenario(t *testing.T, sc Scenario) *Run {
	run := &Run{}
	synctest.Test(t, func(t *testing.T) {
		hc := sc.HC
		if hc == "" {
			hc = "plain"
		}
		run.HC = hc
		w := &world{hc: hc, epoch: time.Now(), run: run, act: make(chan struct{}, 1)}
		httpClient, restore := newHTTPClient(hc, w)
		defer restore()
		opts := jsonclient.Options{Logger: nullLogger{}}
		if sc.Opts == "ua" {
			opts.UserAgent, opts.Authorization = "verif-c13/1.0", "Bearer c13"
		}
		lc, err := client.New("http://log.example.com/base/", httpClient, opts)
		if err != nil {
			t.Fatal(err)
		}
		w.state = func() (int, int) {
			m, nb := lc.BackoffStateForVerif()
			if nb.IsZero() {
				return int(m), 0
			}
			return int(m), int(nb.Sub(w.epoch) / time.Millisecond)
		}
		snapshot := func() {
			w.mu.Lock()
			s := Snap{T: w.ms()}
			s.Mult, s.NB = w.state()
			if k := len(run.Snaps); k == 0 || run.Snaps[k-1] != s {
				run.Snaps = append(run.Snaps, s)
				w.emit(map[string]any{"ev": "State", "t": s.T, "mult": s.Mult, "nb": s.NB})
			}
			w.mu.Unlock()
		}
		monDone := make(chan struct{})
		go func() { // monitor: after every burst of activity, wait until all are blocked, read the shared state
			defer close(monDone)
			for range w.act {
				synctest.Wait()
				snapshot()
			}
		}()
		var wg sync.WaitGroup
		for ci, calls := range sc.Callers {
			wg.Add(1)
			go func(caller int, calls []CallSpec) {
				defer wg.Done()
				for _, cspec := range calls {
					if d := time.Duration(cspec.StartMs)*time.Millisecond - time.Since(w.epoch); d > 0 {
						time.Sleep(d)
					}
					w.oneCall(lc, caller, cspec)
				}
			}(ci+1, calls)
		}
		wg.Wait()
		// the end of the client's life: every result of the process history is looked at again
		w.inspect(0)
		close(w.act)
		<-monDone
	})
	return run
}

func (w *world) oneCall(lc *client.LogClient, caller int, cspec CallSpec) {
	rec := &CallRec{Caller: caller, Spec: cspec}
	cs := &callState{caller: caller, spec: cspec, rec: rec}
	ctx := context.WithValue(context.Background(), ctxKey{}, cs)
	cancel := func() {}
	end := w.epoch.Add(time.Duration(cspec.CtxAtMs) * time.Millisecond)
	ctxat := -1
	switch cspec.CtxKind {
	case "deadline":
		ctx, cancel = context.WithDeadline(ctx, end)
		ctxat = cspec.CtxAtMs
	case "cancel":
		var cf context.CancelFunc
		ctx, cf = context.WithCancel(ctx)
		ctxat = cspec.CtxAtMs
		if d := time.Until(end); d <= 0 {
			cf()
			cancel = func() {}
		} else {
			tm := time.AfterFunc(d, cf)
			cancel = func() { tm.Stop(); cf() }
		}
	}
	w.mu.Lock()
	rec.T0 = w.ms()
	rec.No = proc.nextCall(caller)
	w.run.Calls = append(w.run.Calls, rec)
	w.emit(map[string]any{"ev": "Call", "c": caller, "no": rec.No, "t": rec.T0, "ctxat": ctxat})
	w.mu.Unlock()
	var err error
	var sct *ct.SignedCertificateTimestamp
	// what the caller is handed and keeps, as it is handed it (no copies)
	kp := &kept{c: caller, no: rec.No, api: cspec.API, hc: w.hc}
	generic := false
	func() {
		defer func() {
			if r := recover(); r != nil {
				rec.Panic = fmt.Sprint(r)
			}
		}()
		chain := []ct.ASN1Cert{{Data: []byte("leaf")}, {Data: []byte("issuer")}}
		switch cspec.API {
		case "addchain":
			sct, err = lc.AddChain(ctx, chain)
		case "addprechain":
			sct, err = lc.AddPreChain(ctx, chain)
		default:
			var rsp genericRsp
			var hr *http.Response
			var body []byte
			hr, body, err = lc.PostAndParseWithRetry(ctx, fmt.Sprintf("/caller/%d", caller), map[string]int{"x": caller}, &rsp)
			kp.hr, kp.body, kp.rsp = hr, body, &rsp
			if err == nil {
				// the content of the response the submission succeeded with: the last exchange of the script
				w.mu.Lock()
				var last PostRec
				if np := len(rec.Posts); np > 0 {
					last = rec.Posts[np-1]
				}
				w.mu.Unlock()
				want := genericRsp{V: 7 + last.Content, S: genS, B: genB}
				generic = hr != nil && hr.StatusCode == 200 && string(body) == last.Body && reflect.DeepEqual(rsp, want)
			}
		}
	}()
	var re jsonclient.RspError
	switch {
	case rec.Panic != "":
		rec.Res = "other:panic"
	case err == nil:
		rec.Res = "ok"
		// success means: with the content of the good 200 response, whatever its spelling
		rec.SCTOK = generic
		if np := len(rec.Posts); cspec.API != "post" && sct != nil && np > 0 {
			rec.SCTOK = sct.SCTVersion == ct.V1 && bytes.Equal(sct.LogID.KeyID[:], sctID) &&
				sct.Timestamp == uint64(sctTimestamp+rec.Posts[np-1].Content) && len(sct.Extensions) == 0 &&
				int(sct.Signature.Algorithm.Hash) == 4 && int(sct.Signature.Algorithm.Signature) == 3 &&
				bytes.Equal(sct.Signature.Signature, sctSigBody)
		}
	case errors.As(err, &re):
		rec.Res = "status"
		rec.Status = re.StatusCode
		rec.ErrBody = string(re.Body)
	case ctx.Err() != nil && errors.Is(err, ctx.Err()):
		rec.Res = "ctx"
		rec.ErrIsCtx = err == ctx.Err()
	default:
		rec.Res = "other:" + err.Error()
	}
	if ctx.Err() != nil {
		rec.CtxErrAtRet = ctx.Err().Error()
	}
	kp.err, kp.sct, kp.k, kp.ctxErr = err, sct, rec.Res, ctx.Err()
	w.mu.Lock()
	rec.TRet = w.ms()
	rec.RetMult, rec.RetNB = w.state()
	// the result is identified against everything the server has sent in the process and kept from here on
	rec.RetID = proc.keep(kp, rec)
	w.emit(map[string]any{"ev": "Return", "c": caller, "t": rec.TRet, "res": rec.Res, "id": rec.RetID})
	w.mu.Unlock()
	// after every return, every result of the process history is looked at again
	w.inspect(caller)
	cancel()
	w.poke()
}
