//go:build go1.25

package c13

import (
	"bytes"
	"context"
	"encoding/base64"
	"errors"
	"fmt"
	"io"
	"net/http"
	"net/url"
	"strconv"
	"sync"
	"testing"
	"testing/synctest"
	"time"

	ct "github.com/google/certificate-transparency-go"
	"github.com/google/certificate-transparency-go/client"
	"github.com/google/certificate-transparency-go/jsonclient"
)

// RespSpec is one scripted answer of the server.
type RespSpec struct {
	Cls  string `json:"cls"`  // ok bad200 neterr redir s408 s429 s503 other (the classes of Retry.tla)
	Rak  string `json:"rak"`  // Retry-After form: none | secs | date | garbage (sent, but not a valid form)
	Rav  int    `json:"rav"`  // secs: seconds; date: seconds after the (rounded up) instant of the response
	Code int    `json:"code"` // concrete status (0: the default of the class)
	Var  string `json:"var"`  // variant: "", bodyerr, wrapdeadline, wrapcanceled, urldeadline, empty, trunc, via307, via308, noloc; with rak=date on 429/503: "" (IMF-fixdate), rfc850, asctime
}

// CallSpec is one submission of a caller.
type CallSpec struct {
	StartMs int        `json:"start"`  // not before this virtual instant
	API     string     `json:"api"`    // post | addchain | addprechain
	CtxKind string     `json:"ctxk"`   // none | deadline | cancel
	CtxAtMs int        `json:"ctxat"`  // absolute virtual instant at which the context ends
	Script  []RespSpec `json:"script"` // answers, in order
	Tail    *RespSpec  `json:"tail"`   // answer repeated for ever after the script (infinite scripts)
}

// Scenario is one client shared by callers 1..len(Callers), each making its calls one after the other.
type Scenario struct {
	Callers [][]CallSpec `json:"callers"`
}

// PostRec is one request as the RoundTripper saw it.
type PostRec struct {
	T     int      `json:"t"`
	Spec  RespSpec `json:"spec"`
	Cls   string   `json:"cls"`
	Code  int      `json:"code"`
	Body  string   `json:"body"`
	Asked int      `json:"asked"` // instant before which the response asked not to retry (-1: nothing asked)
	Rav   int      `json:"rav"`   // as written to the trace: seconds, or the date as absolute ms
	Rak   string   `json:"rak"`
	PreMult int    `json:"premult"` // shared state when the request arrived
	PreNB   int    `json:"prenb"`
}

// CallRec is what one submission did.
type CallRec struct {
	Caller int       `json:"caller"`
	Spec   CallSpec  `json:"call"`
	T0     int       `json:"t0"`
	Posts  []PostRec `json:"posts"`
	TRet   int       `json:"tret"`
	Res    string    `json:"res"` // ok | status | ctx | other:<error>
	Status int       `json:"status"`
	ErrBody string   `json:"errbody"`
	CtxErrAtRet string `json:"ctxerr"` // ctx.Err() when the call returned
	ErrIsCtx bool    `json:"erristctx"`
	Panic  string    `json:"panic"`
	SCTOK  bool      `json:"sctok"`
	RetMult int      `json:"retmult"` // shared state when the submission returned
	RetNB   int      `json:"retnb"`
}

// Snap is the shared back-off state read when every goroutine of the bubble was blocked.
type Snap struct {
	T    int `json:"t"`
	Mult int `json:"mult"`
	NB   int `json:"nb"`
}

// Run is everything observed in one scenario.
type Run struct {
	Calls  []*CallRec       `json:"calls"`
	Snaps  []Snap           `json:"snaps"`
	Events []map[string]any `json:"events"` // Call / Post / State / Return in recorder order
	// Runaway: a caller sent more requests than any admissible pacing allows (scripts are finite and the only
	// infinite tail is 503, which is paced by at least the 1 s back-off): the scripted server ended the submission
	// with a non-retryable status so that a retry loop that never waits cannot exhaust time and memory.
	Runaway string `json:"runaway"`
}

const maxPostsPerCall = 3000

type ctxKey struct{}

type callState struct {
	caller int
	spec   CallSpec
	next   int
	rec    *CallRec
}

type world struct {
	mu    sync.Mutex
	epoch time.Time
	run   *Run
	act   chan struct{}
	state func() (int, int) // (multiplier, not-before in ms; 0 when never set) through the verif hook
}

func (w *world) ms() int { return int(time.Since(w.epoch) / time.Millisecond) }

func (w *world) emit(ev map[string]any) {
	// caller holds w.mu
	w.run.Events = append(w.run.Events, ev)
}

const sctTimestamp = 1234567

var okGeneric = `{"v":7}`
var okAddChain = fmt.Sprintf(`{"sct_version":0,"id":"%s","timestamp":%d,"extensions":"","signature":"%s"}`,
	base64.StdEncoding.EncodeToString(bytes.Repeat([]byte{0x42}, 32)), sctTimestamp,
	base64.StdEncoding.EncodeToString([]byte{4, 3, 0, 2, 0xAA, 0xBB}))

func defaultCode(cls string) int {
	switch cls {
	case "ok", "bad200":
		return 200
	case "s408":
		return 408
	case "s429":
		return 429
	case "s503":
		return 503
	case "redir":
		return 302
	case "other":
		return 404
	}
	return 0
}

type errReader struct {
	data []byte
	done bool
}

func (e *errReader) Read(p []byte) (int, error) {
	if !e.done && len(e.data) > 0 {
		e.done = true
		return copy(p, e.data), nil
	}
	return 0, errors.New("scripted: connection reset while reading the body")
}

func mkResp(req *http.Request, code int, hdr http.Header, body io.Reader) *http.Response {
	if hdr == nil {
		hdr = http.Header{}
	}
	return &http.Response{StatusCode: code, Status: fmt.Sprintf("%d %s", code, http.StatusText(code)), Proto: "HTTP/1.1",
		ProtoMajor: 1, ProtoMinor: 1, Header: hdr, Body: io.NopCloser(body), Request: req, ContentLength: -1}
}

// RoundTrip is the scripted server.  It behaves like a transport: a request whose context has ended
// is not sent (the context's error comes back, nothing is recorded).
func (w *world) RoundTrip(req *http.Request) (*http.Response, error) {
	cs, _ := req.Context().Value(ctxKey{}).(*callState)
	if cs == nil {
		return nil, errors.New("harness: request without caller")
	}
	if req.Body != nil {
		io.Copy(io.Discard, req.Body)
		req.Body.Close()
	}
	if err := req.Context().Err(); err != nil {
		return nil, err
	}
	okBody := okGeneric
	if cs.spec.API != "post" {
		okBody = okAddChain
	}
	if req.URL.Path == "/redirected" {
		// whatever method arrives here gets a perfectly good answer
		return mkResp(req, 200, nil, bytes.NewReader([]byte(okBody))), nil
	}
	var sp RespSpec
	switch {
	case cs.next < len(cs.spec.Script):
		sp = cs.spec.Script[cs.next]
	case cs.spec.Tail != nil:
		sp = *cs.spec.Tail
	default:
		sp = RespSpec{Cls: "other", Code: 410, Var: "script-exhausted"}
	}
	cs.next++
	if cs.next > maxPostsPerCall {
		w.mu.Lock()
		if w.run.Runaway == "" {
			w.run.Runaway = fmt.Sprintf("caller %d sent %d requests by virtual time %d ms (last scripted class %s)", cs.caller, cs.next, w.ms(), sp.Cls)
		}
		w.mu.Unlock()
		return mkResp(req, 410, nil, bytes.NewReader([]byte("harness: runaway retry loop stopped"))), nil
	}
	code := sp.Code
	if code == 0 {
		code = defaultCode(sp.Cls)
	}
	w.mu.Lock()
	t := w.ms()
	pr := PostRec{T: t, Spec: sp, Cls: sp.Cls, Code: code, Asked: -1, Rak: "none"}
	pr.PreMult, pr.PreNB = w.state()
	hdr := http.Header{}
	switch sp.Rak {
	case "secs":
		hdr.Set("Retry-After", strconv.Itoa(sp.Rav))
		pr.Rak, pr.Rav = "secs", sp.Rav
		pr.Asked = t + 1000*sp.Rav
	case "date":
		d := time.Now().Add(time.Duration(sp.Rav) * time.Second)
		if !d.Equal(d.Truncate(time.Second)) {
			d = d.Truncate(time.Second).Add(time.Second)
		}
		// the three forms of HTTP-date (RFC 7231 7.1.1.1): IMF-fixdate and the two obsolete forms every recipient must accept
		layout := http.TimeFormat
		switch sp.Var {
		case "rfc850":
			layout = "Monday, 02-Jan-06 15:04:05 GMT"
		case "asctime":
			layout = time.ANSIC
		}
		hdr.Set("Retry-After", d.UTC().Format(layout))
		pr.Rak, pr.Rav = "date", int(d.Sub(w.epoch)/time.Millisecond)
		pr.Asked = pr.Rav
	case "garbage":
		hdr.Set("Retry-After", []string{"soon", "1.5", "12s", "Fri, 31 Dec 1999", "0x10"}[(sp.Rav%5+5)%5])
	}
	if sp.Cls != "s429" && sp.Cls != "s503" {
		// the property (and the code) only know Retry-After on 429 / 503
		pr.Asked = -1
	}
	var resp *http.Response
	var err error
	body := ""
	switch sp.Cls {
	case "ok":
		body = okBody
		switch sp.Var {
		case "via307", "via308":
			c := 307
			if sp.Var == "via308" {
				c = 308
			}
			pr.Code = 200
			hdr.Set("Location", "/redirected")
			resp = mkResp(req, c, hdr, bytes.NewReader(nil))
		default:
			resp = mkResp(req, 200, hdr, bytes.NewReader([]byte(body)))
		}
	case "bad200":
		body = "<html>try again</html>"
		switch sp.Var {
		case "empty":
			body = ""
		case "trunc":
			body = okBody[:len(okBody)-3]
		}
		resp = mkResp(req, 200, hdr, bytes.NewReader([]byte(body)))
	case "neterr":
		// transport errors; the caller's context is alive in all of them.  The wrap* variants have the shape of
		// net/http's Client.Timeout / per-request deadline errors: they satisfy errors.Is(err, context.DeadlineExceeded)
		// (or Canceled) although the caller's own context has not ended - still a transport error, still retried.
		switch sp.Var {
		case "bodyerr":
			resp = mkResp(req, code, hdr, &errReader{data: []byte("partial")})
		case "wrapdeadline":
			err = fmt.Errorf("net/http: request canceled (Client.Timeout exceeded while awaiting headers): %w", context.DeadlineExceeded)
		case "wrapcanceled":
			err = fmt.Errorf("net/http: request canceled while waiting for connection: %w", context.Canceled)
		case "urldeadline":
			err = &url.Error{Op: "Post", URL: req.URL.String(), Err: context.DeadlineExceeded}
		default:
			err = errors.New("scripted: connection refused")
		}
	case "redir":
		hdr.Set("Location", "/redirected")
		resp = mkResp(req, code, hdr, bytes.NewReader(nil))
	default: // s408 s429 s503 other
		body = fmt.Sprintf("status %d for caller %d request %d", code, cs.caller, cs.next)
		resp = mkResp(req, code, hdr, bytes.NewReader([]byte(body)))
	}
	pr.Body = body
	cs.rec.Posts = append(cs.rec.Posts, pr)
	w.emit(map[string]any{"ev": "Post", "c": cs.caller, "t": t, "cls": pr.Cls, "rak": pr.Rak, "rav": pr.Rav, "code": pr.Code})
	w.mu.Unlock()
	w.poke()
	return resp, err
}

func (w *world) poke() {
	select {
	case w.act <- struct{}{}:
	default:
	}
}

type nullLogger struct{}

func (nullLogger) Printf(string, ...interface{}) {}

type genericRsp struct {
	V int `json:"v"`
}

// RunScenario executes one scenario in a fresh bubble (virtual clock) on a fresh client.
func RunScenario(t *testing.T, sc Scenario) *Run {
	run := &Run{}
	synctest.Test(t, func(t *testing.T) {
		w := &world{epoch: time.Now(), run: run, act: make(chan struct{}, 1)}
		lc, err := client.New("http://log.example.com/base/", &http.Client{Transport: w}, jsonclient.Options{Logger: nullLogger{}})
		if err != nil {
			t.Fatal(err)
		}
		w.state = func() (int, int) {
			m, nb := lc.BackoffStateForVerif()
			if nb.IsZero() {
				return int(m), 0
			}
			return int(m), int(nb.Sub(w.epoch) / time.Millisecond)
		}
		snapshot := func() {
			w.mu.Lock()
			s := Snap{T: w.ms()}
			s.Mult, s.NB = w.state()
			if k := len(run.Snaps); k == 0 || run.Snaps[k-1] != s {
				run.Snaps = append(run.Snaps, s)
				w.emit(map[string]any{"ev": "State", "t": s.T, "mult": s.Mult, "nb": s.NB})
			}
			w.mu.Unlock()
		}
		monDone := make(chan struct{})
		go func() { // monitor: after every burst of activity, wait until all are blocked, read the shared state
			defer close(monDone)
			for range w.act {
				synctest.Wait()
				snapshot()
			}
		}()
		var wg sync.WaitGroup
		for ci, calls := range sc.Callers {
			wg.Add(1)
			go func(caller int, calls []CallSpec) {
				defer wg.Done()
				for _, cspec := range calls {
					if d := time.Duration(cspec.StartMs)*time.Millisecond - time.Since(w.epoch); d > 0 {
						time.Sleep(d)
					}
					w.oneCall(lc, caller, cspec)
				}
			}(ci+1, calls)
		}
		wg.Wait()
		close(w.act)
		<-monDone
	})
	return run
}

func (w *world) oneCall(lc *client.LogClient, caller int, cspec CallSpec) {
	rec := &CallRec{Caller: caller, Spec: cspec}
	cs := &callState{caller: caller, spec: cspec, rec: rec}
	ctx := context.WithValue(context.Background(), ctxKey{}, cs)
	cancel := func() {}
	end := w.epoch.Add(time.Duration(cspec.CtxAtMs) * time.Millisecond)
	ctxat := -1
	switch cspec.CtxKind {
	case "deadline":
		ctx, cancel = context.WithDeadline(ctx, end)
		ctxat = cspec.CtxAtMs
	case "cancel":
		var cf context.CancelFunc
		ctx, cf = context.WithCancel(ctx)
		ctxat = cspec.CtxAtMs
		if d := time.Until(end); d <= 0 {
			cf()
			cancel = func() {}
		} else {
			tm := time.AfterFunc(d, cf)
			cancel = func() { tm.Stop(); cf() }
		}
	}
	w.mu.Lock()
	rec.T0 = w.ms()
	w.run.Calls = append(w.run.Calls, rec)
	w.emit(map[string]any{"ev": "Call", "c": caller, "t": rec.T0, "ctxat": ctxat})
	w.mu.Unlock()
	var err error
	var sct *ct.SignedCertificateTimestamp
	func() {
		defer func() {
			if r := recover(); r != nil {
				rec.Panic = fmt.Sprint(r)
			}
		}()
		chain := []ct.ASN1Cert{{Data: []byte("leaf")}, {Data: []byte("issuer")}}
		switch cspec.API {
		case "addchain":
			sct, err = lc.AddChain(ctx, chain)
		case "addprechain":
			sct, err = lc.AddPreChain(ctx, chain)
		default:
			var rsp genericRsp
			var hr *http.Response
			var body []byte
			hr, body, err = lc.PostAndParseWithRetry(ctx, fmt.Sprintf("/caller/%d", caller), map[string]int{"x": caller}, &rsp)
			if err == nil && (hr == nil || hr.StatusCode != 200 || string(body) != okGeneric || rsp.V != 7) {
				err = fmt.Errorf("harness: success without the parsed 200 response (rsp=%+v body=%q)", rsp, body)
			}
		}
	}()
	var re jsonclient.RspError
	switch {
	case rec.Panic != "":
		rec.Res = "other:panic"
	case err == nil:
		rec.Res = "ok"
		rec.SCTOK = cspec.API == "post" || (sct != nil && sct.Timestamp == sctTimestamp)
	case errors.As(err, &re):
		rec.Res = "status"
		rec.Status = re.StatusCode
		rec.ErrBody = string(re.Body)
	case ctx.Err() != nil && errors.Is(err, ctx.Err()):
		rec.Res = "ctx"
		rec.ErrIsCtx = err == ctx.Err()
	default:
		rec.Res = "other:" + err.Error()
	}
	if ctx.Err() != nil {
		rec.CtxErrAtRet = ctx.Err().Error()
	}
	w.mu.Lock()
	rec.TRet = w.ms()
	rec.RetMult, rec.RetNB = w.state()
	w.emit(map[string]any{"ev": "Return", "c": caller, "t": rec.TRet, "res": rec.Res})
	w.mu.Unlock()
	cancel()
	w.poke()
}
