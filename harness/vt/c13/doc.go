// Package c13 binds spec/client/Retry.tla to jsonclient.PostAndParseWithRetry and
// client.LogClient.AddChain / AddPreChain under virtual time (testing/synctest, go1.26).
// All code is in _test files guarded by go1.25.
package c13
