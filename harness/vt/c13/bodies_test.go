//go:build go1.25

package c13

import (
	"encoding/base64"
	"fmt"
	"strconv"
	"strings"
)

// The spelling dimension of a 200 body (Retry.tla: OkSpell / BadSpell).  A body is built from the
// members of the correct response by a small emitter of its own (no encoding/json, nothing of the
// repository): by construction every spelling of okSpell is a legal JSON text (RFC 8259) of the
// complete response with standard, padded base64 (RFC 4648 section 4) in its binary members, and every
// spelling of badSpell is not.

var okSpell = []string{"canon", "solidus", "uescape", "keyescape", "space", "order", "extra", "nested", "trailws", "combo"}
var badSpell = []string{"html", "empty", "trunc", "nopad", "urlsafe", "wrongtype", "tailgarbage", "badescape", "ctrlchar", "b64garbage", "arraytop"}

func isOkSpell(sp string) bool {
	for _, s := range okSpell {
		if s == sp {
			return true
		}
	}
	return false
}

func bodyClass(sp string) string {
	if isOkSpell(sp) {
		return "ok"
	}
	return "bad200"
}

// the content of the correct responses: binary members whose base64 has '/', '+' and padding
var (
	sctID      = append([]byte{0xff, 0xff, 0xff, 0xfb, 0xef, 0xbe, 0x00, 0x3f}, []byte("0123456789abcdefghijklmn")...) // 32 bytes: 44 characters, one '='
	sctSigBody = []byte{0xff, 0xff, 0xfb, 0xef}
	sctSig     = append([]byte{4, 3, 0, 4}, sctSigBody...) // DigitallySigned: sha256, ecdsa, 4 bytes; 8 bytes: 12 characters, one '='
	genS       = "a/b+c d/"
	genB       = []byte{0xff, 0xff, 0xfb, 0xef} // "///77w=="
)

const sctTimestamp = 1234567

type member struct {
	key  string
	kind string // num | str | b64
	num  int
	str  string
	raw  []byte
}

// membersOf: the correct response of the API; content distinguishes the responses of one run from each other.
func membersOf(api string, content int) []member {
	if api == "post" {
		return []member{{key: "v", kind: "num", num: 7 + content}, {key: "s", kind: "str", str: genS}, {key: "b", kind: "b64", raw: genB}}
	}
	return []member{
		{key: "sct_version", kind: "num", num: 0},
		{key: "id", kind: "b64", raw: sctID},
		{key: "timestamp", kind: "num", num: sctTimestamp + content},
		{key: "extensions", kind: "str", str: ""},
		{key: "signature", kind: "b64", raw: sctSig},
	}
}

type emitOpts struct {
	solidus   bool               // '/' in string values written \/
	uescape   int                // 0: none; n > 0: every n-th character of a string value (and every '/', '+', '=') written \uXXXX
	keyescape bool               // first and last character of member names written \uXXXX
	upperHex  bool               // hex digits of \u escapes in upper case
	ws        []string           // white space to put between tokens (cycled); nil: none
	b64       func([]byte) string // encoding of binary members
	strOf     func(string) string // overrides the string literal of string-valued members (illegal spellings)
	wrongtype bool               // the first string-valued member becomes a number
}

func jsonString(s string, o emitOpts, isKey bool) string {
	var b strings.Builder
	b.WriteByte('"')
	hex := "%04x"
	if o.upperHex {
		hex = "%04X"
	}
	for i, r := range s {
		esc := false
		if isKey {
			esc = o.keyescape && (i == 0 || i == len(s)-1)
		} else if o.uescape > 0 {
			esc = r == '/' || r == '+' || r == '=' || i%o.uescape == 0
		}
		switch {
		case esc:
			fmt.Fprintf(&b, `\u`+hex, r)
		case r == '/' && o.solidus && !isKey:
			b.WriteString(`\/`)
		case r == '"' || r == '\\':
			b.WriteByte('\\')
			b.WriteRune(r)
		case r < 0x20:
			fmt.Fprintf(&b, `\u%04x`, r)
		default:
			b.WriteRune(r)
		}
	}
	b.WriteByte('"')
	return b.String()
}

// emit writes the object; extras are raw `"name":value` texts put before member 0, after member 1 and at the end.
func emit(ms []member, o emitOpts, extras []string) string {
	if o.b64 == nil {
		o.b64 = base64.StdEncoding.EncodeToString
	}
	k := 0
	sep := func() string {
		if len(o.ws) == 0 {
			return ""
		}
		k++
		return o.ws[k%len(o.ws)]
	}
	var parts []string
	wrong := o.wrongtype
	for i, m := range ms {
		if len(extras) > 0 && i == 0 {
			parts = append(parts, extras[0])
		}
		if len(extras) > 1 && i == 2 {
			parts = append(parts, extras[1])
		}
		var v string
		switch m.kind {
		case "num":
			v = strconv.Itoa(m.num)
		case "str", "b64":
			s := m.str
			if m.kind == "b64" {
				s = o.b64(m.raw)
			}
			switch {
			case wrong:
				v, wrong = "12345", false
			case o.strOf != nil:
				v = o.strOf(s)
			default:
				v = jsonString(s, o, false)
			}
		}
		parts = append(parts, jsonString(m.key, o, true)+sep()+":"+sep()+v)
	}
	if len(extras) > 2 {
		parts = append(parts, extras[2:]...)
	}
	var b strings.Builder
	b.WriteString(sep() + "{" + sep())
	for i, p := range parts {
		if i > 0 {
			b.WriteString(sep() + "," + sep())
		}
		b.WriteString(p)
	}
	b.WriteString(sep() + "}" + sep())
	return b.String()
}

var wsSets = [][]string{{" "}, {"\n", "  "}, {"\t", " ", "\r\n"}, {"\r", "\n\t", " ", ""}}

func permute(ms []member, k int) []member {
	out := make([]member, len(ms))
	if k%2 == 0 { // reversed
		for i := range ms {
			out[len(ms)-1-i] = ms[i]
		}
		return out
	}
	r := 1 + k%(len(ms)-1) // rotated
	for i := range ms {
		out[i] = ms[(i+r)%len(ms)]
	}
	return out
}

var scalarExtras = []string{`"x_unknown":"y\/z"`, `"n":null`, `"f":-1.5e3,"t":true,"ff":false`, `"":""`}

// unknown members holding objects and arrays that repeat the known names, close braces inside strings, nest deeply
var nestedExtras = []string{
	`"meta":{"id":"!!not base64!!","signature":[1,{"a":"}]\"\\"}],"timestamp":"x","v":"no","s":7,"b":[]}`,
	`"list":[[],{},[{"sct_version":9,"extensions":{"deep":[null,true,"}"]}}]]`,
	`"tail":{"":{"":{"":[]}}}`,
}

// spellBody gives the body of a 200 response for the API spelled sp; k varies the spelling within its kind.
func spellBody(api, sp string, content, k int) string {
	ms := membersOf(api, content)
	canon := emit(ms, emitOpts{}, nil)
	switch sp {
	case "", "canon":
		return canon
	// ---- legal spellings of the correct response ----
	case "solidus":
		return emit(ms, emitOpts{solidus: true}, nil)
	case "uescape":
		return emit(ms, emitOpts{uescape: 1 + k%4, upperHex: k%2 == 1}, nil)
	case "keyescape":
		return emit(ms, emitOpts{keyescape: true, upperHex: k%2 == 0}, nil)
	case "space":
		return emit(ms, emitOpts{ws: wsSets[k%len(wsSets)]}, nil)
	case "order":
		return emit(permute(ms, k), emitOpts{}, nil)
	case "extra":
		return emit(ms, emitOpts{}, []string{scalarExtras[k%4], scalarExtras[(k+1)%4], scalarExtras[(k+2)%4]})
	case "nested":
		return emit(ms, emitOpts{}, []string{nestedExtras[k%3], nestedExtras[(k+1)%3], nestedExtras[(k+2)%3]})
	case "trailws":
		return canon + []string{"\n", "\r\n", " \t\n", "\n\n"}[k%4]
	case "combo":
		return emit(permute(ms, k), emitOpts{solidus: k%2 == 0, uescape: (k % 2) * 3, keyescape: k%3 == 0, ws: wsSets[k%len(wsSets)]},
			[]string{nestedExtras[k%3], scalarExtras[k%4], scalarExtras[(k+1)%4]})
	// ---- not a parsable response ----
	case "html":
		return "<html>try again</html>"
	case "empty":
		return ""
	case "trunc":
		return canon[:len(canon)-1-k%3]
	case "nopad":
		return emit(ms, emitOpts{b64: base64.RawStdEncoding.EncodeToString}, nil)
	case "urlsafe":
		return emit(ms, emitOpts{b64: base64.URLEncoding.EncodeToString}, nil)
	case "wrongtype":
		return emit(ms, emitOpts{wrongtype: true}, nil)
	case "tailgarbage":
		return canon + []string{" x", "}", canon, "\n,", "\x00"}[k%5]
	case "badescape":
		return emit(ms, emitOpts{strOf: func(s string) string { return `"` + strings.ReplaceAll(s, "/", []string{`\x2f`, `\'`, `\u2f`}[k%3]) + `"` }}, nil)
	case "ctrlchar":
		return emit(ms, emitOpts{strOf: func(s string) string { return `"` + strings.Replace(s, "/", "/"+[]string{"\n", "\t", "\x01"}[k%3], 1) + `"` }}, nil)
	case "b64garbage":
		return emit(ms, emitOpts{b64: func(b []byte) string {
			return strings.Replace(base64.StdEncoding.EncodeToString(b), "/", []string{"!", "*", "."}[k%3], 1)
		}}, nil)
	case "arraytop":
		return "[" + canon + "]"
	}
	panic("harness: unknown body spelling " + sp)
}
