//go:build go1.25

package c13

import (
	"math/rand"
)

var (
	redirChains = []string{"302", "301", "303", "307-302", "302-307", "308-303-301", "301-308", "303-303"}
	presChains  = []string{"307", "308", "307-308", "308-307-307"}
	loopCodes   = []string{"302", "307", "303", "308", "301"}
)

// decorate picks a concrete materialization (status code, variant, spelling of the body, redirect chain) for a
// response of the specification.  seenAs: for a redirect the client refuses, whether the specification's behaviour
// goes on as after a transport error ("neterr": the 3xx has a body, which cannot be read any more once net/http has
// closed it) or with the 3xx as a status ("other": the 3xx has no body); "" = either.
func decorate(sp RespSpec, k int, seenAs string) RespSpec {
	sp.K = k
	switch sp.Cls {
	case "other":
		sp.Code = []int{404, 400, 500, 403, 502, 504, 201, 204, 301, 501, 409, 202}[k%12]
		if sp.Code == 301 {
			sp.Var = "noloc" // a redirect status without Location is handed to the caller as it is
		}
	case "redir", "pres", "loop":
		sp.Var = map[string][]string{"redir": redirChains, "pres": presChains, "loop": loopCodes}[sp.Cls][k%map[string]int{"redir": 8, "pres": 4, "loop": 5}[sp.Cls]]
		switch {
		case seenAs == "other" || (seenAs == "" && k%3 == 0):
			sp.Var += "/nobody"
		case seenAs == "" && k%3 == 1:
			sp.Var += "/body"
		}
		if sp.Cls == "pres" && sp.Sp == "" {
			sp.Sp = "canon"
		}
	case "neterr":
		sp.Var = []string{"", "bodyerr", "wrapdeadline", "wrapcanceled", "urldeadline", "", "wrapdeadline"}[k%7]
		if sp.Var == "bodyerr" {
			sp.Code = []int{200, 404, 503}[k%3]
		}
	case "bad200":
		if sp.Sp == "" {
			sp.Sp = badSpell[k%len(badSpell)]
		}
	case "ok":
		if sp.Sp == "" {
			sp.Sp = okSpell[k%len(okSpell)]
		}
	case "s429", "s503":
		if sp.Rak == "date" {
			sp.Var = []string{"", "rfc850", "", "asctime"}[k%4]
		}
	}
	return sp
}

func randResp(rng *rand.Rand, terminalOnly bool) RespSpec {
	if terminalOnly {
		if rng.Intn(2) == 0 {
			return decorate(RespSpec{Cls: "ok", Rak: "none"}, rng.Intn(660), "")
		}
		return decorate(RespSpec{Cls: "other", Rak: "none"}, rng.Intn(660), "")
	}
	sp := RespSpec{Rak: "none"}
	switch x := rng.Intn(28); {
	case x < 1:
		sp.Cls = "ok"
	case x < 2:
		sp.Cls = "other"
	case x < 5:
		sp.Cls = "bad200"
	case x < 8:
		sp.Cls = "neterr"
	case x < 10:
		sp.Cls = "redir"
	case x >= 24 && x < 26:
		sp.Cls = "redir"
	case x == 26:
		sp.Cls = "loop"
	case x == 27:
		sp.Cls = "pres"
		sp.Sp = [][]string{okSpell, badSpell}[rng.Intn(2)][rng.Intn(10)]
	case x < 13:
		sp.Cls = "s408"
	case x < 18:
		sp.Cls = "s503"
	default:
		sp.Cls = "s429"
	}
	if sp.Cls == "s503" || sp.Cls == "s429" || (sp.Cls == "s408" && rng.Intn(3) == 0) || (sp.Cls == "other" && rng.Intn(2) == 0) {
		switch rng.Intn(7) {
		case 0, 1:
			sp.Rak, sp.Rav = "secs", []int{0, 1, 2, 3, 5, 9, 40, 130, 200, -3}[rng.Intn(10)]
		case 2, 3:
			sp.Rak, sp.Rav = "date", []int{0, 1, 2, 4, 8, 33, 150, -5}[rng.Intn(8)]
		case 4:
			sp.Rak, sp.Rav = "garbage", rng.Intn(5)
		}
	}
	return decorate(sp, rng.Intn(660), "")
}

// randScenario draws one client with 1..3 callers; scripts are finite (ending in a response that ends
// the submission) or infinite (a tail repeated for ever) under a context that ends.
func randScenario(rng *rand.Rand) Scenario {
	var sc Scenario
	// the http.Client the caller supplies: a third of the clients are plain, the others spread over the configurations
	sc.HC = "plain"
	if rng.Intn(3) != 0 {
		sc.HC = hcKinds[rng.Intn(len(hcKinds))]
	}
	sc.Opts = []string{"", "", "ua"}[rng.Intn(3)]
	ncallers := 1 + rng.Intn(3)
	for c := 0; c < ncallers; c++ {
		var calls []CallSpec
		t := []int{0, 0, 0, 137, 1000, 2500, 7001}[rng.Intn(7)]
		for k := 0; k < 1+rng.Intn(2); k++ {
			cs := CallSpec{StartMs: t, API: []string{"post", "addchain", "addprechain"}[rng.Intn(3)], CtxKind: "none"}
			n := rng.Intn(6)
			for i := 0; i < n; i++ {
				cs.Script = append(cs.Script, randResp(rng, false))
			}
			if rng.Intn(5) < 2 {
				cs.Script = append(cs.Script, randResp(rng, true))
			} else {
				cs.CtxKind = []string{"deadline", "cancel"}[rng.Intn(2)]
				tail := []RespSpec{{Cls: "s503", Rak: "none"}, {Cls: "s503", Rak: "none"}, {Cls: "s429", Rak: "secs", Rav: 2},
					{Cls: "neterr", Rak: "none"}, {Cls: "bad200", Rak: "none"}, {Cls: "neterr", Rak: "none", Var: "wrapdeadline"}, {Cls: "redir", Rak: "none"},
					{Cls: "neterr", Rak: "none", Var: "wrapcanceled"},
					{Cls: "s503", Rak: "date", Rav: 3}, {Cls: "bad200", Rak: "none", Sp: "nopad"}, {Cls: "redir", Rak: "none", Var: "307-303"},
					{Cls: "loop", Rak: "none", Var: "302/body"}}[rng.Intn(12)]
				cs.Tail = &tail
				span := []int{0, 300, 1000, 2999, 6500, 15000, 40000, 300000, 700000}[rng.Intn(9)]
				// no "408 for ever": the code retries a 408 at once, and with a server that answers in zero
				// (virtual) time that loop would never let the clock reach the end of the context
				cs.CtxAtMs = t + span + rng.Intn(1000) - 300
				if cs.CtxAtMs < 0 {
					cs.CtxAtMs = 0
				}
			}
			calls = append(calls, cs)
			t += []int{0, 1, 500, 3000, 20000}[rng.Intn(5)]
			if cs.CtxKind != "none" && cs.CtxAtMs > t {
				t = cs.CtxAtMs + rng.Intn(3)*400
			}
		}
		sc.Callers = append(sc.Callers, calls)
	}
	return sc
}
