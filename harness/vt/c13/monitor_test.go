//go:build go1.25

package c13

import (
	"fmt"
	"strings"

	"verifharness/vh"
)

const (
	capMs    = 128000 // 2^(8-1) s
	jitterMs = 250    // jitter is < 250 ms
)

var retryable = map[string]bool{"bad200": true, "neterr": true, "redir": true, "s408": true, "s429": true, "s503": true}

// a redirect the client's redirect policy refused: it may be retried like a transport error or end the submission
// with the 3xx as status - the property only says that it is not a success
const refused = "refused"

// spellingOf names the body spelling (and the redirect chain in front of it) in fingerprints
func spellingOf(p PostRec) string {
	s := p.Spec.Sp
	if p.Spec.Cls == "pres" {
		s += ":via-" + p.Spec.Cls
	}
	if s == "" {
		return ""
	}
	return ":" + s
}

// CheckRun states the clauses of C13 directly on the recorded timeline of one client, without the
// specification: only instants, responses and results that were observed.
func CheckRun(rep *vh.Report, run *Run, sc any) {
	viol := func(fp, what string, c *CallRec) {
		rep.Violate("monitor:"+fp, what, map[string]any{"scenario": sc, "call": c, "snaps": run.Snaps})
	}
	// the latest instant any response has asked anybody to wait for, as a step function of time
	askMax := func(upto int) int {
		m := -1
		for _, c := range run.Calls {
			for _, p := range c.Posts {
				if p.T <= upto && p.Asked > m {
					m = p.Asked
				}
			}
		}
		return m
	}
	// shared not-before instant when everything had settled at instant t (last snapshot taken at t)
	nbAt := func(t int) (int, bool) {
		nb, ok := 0, false
		for _, s := range run.Snaps {
			if s.T == t {
				nb, ok = s.NB, true
			}
		}
		return nb, ok
	}
	checkRetained(rep, run, sc)
	if run.Runaway != "" {
		rep.Violate("monitor:runaway-retries", "retry loop without pacing: "+run.Runaway+"; responses that must be retried are retried after the back-off "+
			"(at least 1 s after 429/503/transport errors), so no admissible run sends this many requests", map[string]any{"scenario": sc})
		return
	}
	for _, c := range run.Calls {
		if c.Panic != "" {
			viol("panic", "panic in the submission: "+c.Panic, c)
			continue
		}
		if np := len(c.Posts); np > 0 && retryable[c.Posts[np-1].Cls] && c.CtxErrAtRet == "" && c.Res != "ok" {
			// (a success after such a response is reported below as success-without-good-200)
			// whatever error came back (its type does not matter): the last response was one that must be retried
			// and the caller's context was alive, yet the submission gave up
			p := c.Posts[np-1]
			variant := p.Spec.Var
			switch p.Spec.Cls {
			case "bad200":
				variant = p.Spec.Sp
			case "pres":
				variant = p.Spec.Sp + ":via-pres@hc=" + run.HC
			case "redir":
				variant = "@hc=" + run.HC
			}
			viol("gave-up-after:"+p.Cls+":"+variant, fmt.Sprintf("the submission returned (%s) after a response of class %s (variant %q) that must be retried, "+
				"although its context had not ended (%d further scripted responses were never requested)", c.Res, p.Cls, variant, max(0, len(c.Spec.Script)-np)), c)
		} else if strings.HasPrefix(c.Res, "other:") {
			viol("result-kind:"+lastCls(c), "the submission returned an error that is neither the context's error nor an error carrying status and body: "+c.Res, c)
		}
		np := len(c.Posts)
		for i, p := range c.Posts {
			last := i == np-1
			if !last && !retryable[p.Cls] && p.Cls != refused {
				if p.Cls == "ok" {
					// the first 200 response whose body parses was not returned: a legal spelling of the correct body was
					// taken for an unparsable one
					viol("good-200-not-returned"+spellingOf(p), fmt.Sprintf("a request followed a 200 response whose body is a legal JSON spelling (%s) of the complete, "+
						"correct response: %q", p.Spec.Sp, p.Body), c)
				} else {
					viol("retried-after:"+p.Cls+statusOf(p), fmt.Sprintf("a request followed a response of class %s (status %d), which must end the submission", p.Cls, p.Code), c)
				}
			}
			if last && !retryable[p.Cls] && (p.Cls != refused || c.Res == "status") && c.TRet != p.T {
				viol("terminal-not-immediate:"+p.Cls, "the response that ends the submission was not returned at once", c)
			}
			if !last {
				nx := c.Posts[i+1]
				gap := nx.T - p.T
				if p.Asked >= 0 && nx.T < p.Asked {
					form := p.Rak
					if p.Spec.Var != "" {
						form += "-" + p.Spec.Var
					}
					viol("retry-after-ignored:"+p.Cls+":"+form, fmt.Sprintf("Retry-After (%s) asked to wait until %d ms, the next request came at %d ms (after %d ms)", form, p.Asked, nx.T, gap), c)
				}
				if lim := max(p.T+capMs, askMax(nx.T)) + jitterMs - 1; nx.T > lim {
					viol("cap-exceeded:"+p.Cls, fmt.Sprintf("after %s at %d ms the next request came at %d ms (a wait of %d ms); cap 128 s + jitter and everything the server asked for allow %d ms at the latest", p.Cls, p.T, nx.T, gap, lim), c)
				}
				if p.Cls == "s408" {
					if nb, ok := nbAt(p.T); ok {
						if lim := max(p.T, nb) + jitterMs - 1; nx.T > lim {
							viol("delay-after-408", fmt.Sprintf("408 at %d ms with the shared back-off ending at %d ms: next request at %d ms", p.T, nb, nx.T), c)
						}
					}
				}
			}
		}
		switch c.Res {
		case "ok":
			if np == 0 || c.Posts[np-1].Cls != "ok" {
				how := ""
				if np > 0 {
					p := c.Posts[np-1]
					switch p.Spec.Cls {
					case "redir", "loop":
						how = "@hc=" + run.HC // a redirect, through this configuration of the caller's http.Client
						if p.Spec.Cls != p.Cls {
							how = ":" + p.Spec.Cls + how
						}
					case "pres":
						how = ":" + p.Spec.Sp + ":via-pres@hc=" + run.HC
					case "bad200":
						how = ":" + p.Spec.Sp
					}
				}
				viol("success-without-good-200:"+lastCls(c)+how, "success although the last response was not a 200 with a parsable body (class "+lastCls(c)+how+")", c)
			} else if !c.SCTOK {
				viol("success-wrong-content"+spellingOf(c.Posts[np-1]), "success, but not with the content of the good 200 response", c)
			}
		case "status":
			if np == 0 {
				viol("status-error-without-request", "status error without any request", c)
			} else if p := c.Posts[np-1]; p.Cls == "other" && (c.Status != p.Code || c.ErrBody != p.Body) {
				viol("status-error-content", fmt.Sprintf("error carries status %d body %q, the response had status %d body %q", c.Status, c.ErrBody, p.Code, p.Body), c)
			} else if p.Cls != "other" && p.Cls != refused {
				viol("status-error-after:"+p.Cls+spellingOf(p), "the submission ended with a status error after a response of class "+p.Cls, c)
			} else if p.Cls == refused && (c.Status < 300 || c.Status > 399) {
				viol("status-error-content", fmt.Sprintf("error carries status %d, the refused redirect had status %d", c.Status, p.Code), c)
			}
		}
		// the context: nothing after its end, and a prompt return with its error
		if c.Spec.CtxKind == "none" {
			if c.Res == "ctx" {
				viol("ctx-result-without-ctx-end", "context error although the context never ended", c)
			}
			continue
		}
		end := max(c.Spec.CtxAtMs, c.T0)
		for _, p := range c.Posts {
			if p.T > end {
				viol("request-after-ctx-end", fmt.Sprintf("request at %d ms, the context ended at %d ms", p.T, end), c)
			}
		}
		if c.TRet > end {
			viol("return-not-prompt", fmt.Sprintf("the context ended at %d ms, the submission returned at %d ms", end, c.TRet), c)
		}
		if c.TRet < end && c.Res == "ctx" {
			viol("ctx-result-before-ctx-end", "context error before the context ended", c)
		}
		if c.TRet == end && c.Res != "ctx" && !(np > 0 && c.Posts[np-1].T == end) {
			viol("ctx-end-other-result", "the context ended while the submission was waiting, the result is "+c.Res, c)
		}
	}
}

func lastCls(c *CallRec) string {
	if len(c.Posts) == 0 {
		return "none"
	}
	return c.Posts[len(c.Posts)-1].Cls
}

func statusOf(p PostRec) string {
	if p.Cls == "other" {
		return fmt.Sprintf(":%d", p.Code)
	}
	return ""
}
